"""Reproduce F2: lattice box pairs, gjk -> epa, compare |mtv| with exact depth (box-box via hull facets)."""
import sys, itertools, json
from harness import compat  # noqa
import numpy as np
from scipy.spatial import ConvexHull
from distance3d import colliders as C, gjk, epa as EPA
from distance3d.gjk import _gjk_jolt as J

info = {}
orig = J._distance_loop
def wrapped(*a):
    r = orig(*a)
    info['n_points'] = r[1]
    return r
J._distance_loop = wrapped

def box_vertices(T, size):
    h = 0.5 * np.array(size)
    V = np.array([[sx * h[0], sy * h[1], sz * h[2]] for sx in (-1, 1) for sy in (-1, 1) for sz in (-1, 1)])
    return V @ T[:3, :3].T + T[:3, 3]

def depth_poly(V1, V2):
    D = (V1[:, None, :] - V2[None, :, :]).reshape(-1, 3)
    H = ConvexHull(D)
    # equations: n.x + off <= 0 inside ; distance of origin to facet plane = -off
    return float(np.min(-H.equations[:, 3])), H

def main():
    rng = np.random.RandomState(0)
    vals = [-1.0, -0.5, 0.0, 0.5, 1.0]
    sizes = [1.0, 2.0]
    n = bad = fewer = bad_fewer = bad_full = nosucc = exc = 0
    rows = []
    for t in itertools.product(vals, repeat=3):
        for s2 in sizes:
            T1 = np.eye(4); T2 = np.eye(4); T2[:3, 3] = t
            b1 = C.Box(T1, np.array([2.0, 2.0, 2.0])); b2 = C.Box(T2, np.array([s2, s2, s2]))
            d, a, b, simplex = gjk.gjk_distance_jolt(b1, b2)
            if d > 0: continue
            n += 1
            npnts = info['n_points']
            try:
                mtv, faces, success = EPA.epa(simplex, b1, b2)
            except Exception as e:
                exc += 1; continue
            depth, _ = depth_poly(box_vertices(T1, [2, 2, 2]), box_vertices(T2, [s2] * 3))
            if npnts < 4: fewer += 1
            if not success:
                nosucc += 1; continue
            ratio = np.linalg.norm(mtv) / depth if depth > 1e-12 else (1.0 if np.linalg.norm(mtv) < 1e-9 else np.inf)
            wrong = abs(np.linalg.norm(mtv) - depth) > 1e-6
            if wrong:
                bad += 1
                if npnts < 4: bad_fewer += 1
                else: bad_full += 1
                rows.append((t, s2, npnts, float(np.linalg.norm(mtv)), depth))
    print(dict(n=n, fewer_than_4=fewer, wrong=bad, wrong_fewer=bad_fewer, wrong_full=bad_full, nosucc=nosucc, exc=exc))
    for r in rows[:12]: print(r)
main()
