import sys
sys.path.insert(0,'/verif')
from harness import compat
import numpy as np
from distance3d import hydroelastic_contact as hc
T=np.eye(4); T2=np.eye(4); T2[0,3]=5.0
b1=hc.RigidBody.make_cube(T, 1.0); b2=hc.RigidBody.make_cube(T2, 1.0)
for flag in (False, True):
    try:
        cs=hc.find_contact_surface(b1,b2,use_aabb_trees=flag); print(flag, 'ok', cs.intersection)
    except Exception as e: print(flag, type(e).__name__, e)
r=b1.aabb_tree.overlaps_aabb_tree(b2.aabb_tree); print([type(x).__name__ for x in r], [getattr(x,'dtype',None) for x in r])
