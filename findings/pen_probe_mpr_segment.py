from harness import compat  # noqa
import numpy as np
from distance3d import colliders as C, mpr
A = C.Sphere(np.array([0.0, 0.0, 0.0]), 0.5)
B = C.Sphere(np.array([0.2, 0.0, 0.0]), 4.0)
print(mpr.mpr_penetration(A, B))   # pos is 1.15 outside the small sphere
D1 = C.Disk(np.array([4.0, 2.0, -1.0]), 1.0, np.array([0.0, 0.0, 1.0]))
D2 = C.Margin(C.Disk(np.array([4.0, 2.0, -0.95]), 0.25, np.array([0.0, 0.0, -1.0])), 0.25)
print(mpr.mpr_penetration(D1, D2))  # pos z = -1.1: 0.1 below the flat disk D1 (z = -1)
