from harness import compat  # noqa
import numpy as np
from distance3d import colliders as C, mpr
A = C.Box(np.eye(4), np.array([1.0, 2.0, 2.0]))
V = np.array([[x, y, z] for x in (-2.0, 2.0) for y in (-2.0, 2.0) for z in (-2.0, 2.0)])
B = C.ConvexHullVertices(V)
print("centres", A.center(), B.center())
inter, depth, pdir, pos = mpr.mpr_penetration(A, B)
print(inter, depth, pdir, pos)
# distance of pos from A (box |x|<=.5,|y|<=1,|z|<=1) and from B (cube 2)
dA = np.linalg.norm(np.maximum(np.abs(pos) - np.array([.5, 1, 1]), 0)); dB = np.linalg.norm(np.maximum(np.abs(pos) - 2, 0))
print("pos outside A by", dA, "outside B by", dB)
# same with B moved by 1e-3: regular path
B2 = C.ConvexHullVertices(V + np.array([1e-3, 0, 0]))
inter, depth, pdir, pos = mpr.mpr_penetration(A, B2)
dA = np.linalg.norm(np.maximum(np.abs(pos) - np.array([.5, 1, 1]), 0))
print("shifted 1e-3:", inter, depth, pdir, pos, "outside A by", dA)
