#!/venv/bin/python
"""Print the markdown table of seeded changes and which checks caught them (from seeded/*/meta.json)."""
import json
from pathlib import Path
rows = []
for d in sorted(Path("/verif/seeded").iterdir()):
    m = json.load(open(d / "meta.json"))
    runs = m.get("checks_run", [])
    cell = "; ".join(f"{r['check']}: {r['outcome']}" for r in runs) or "not run yet"
    rows.append(f"| {m['id']} | {m['breaks_property']} | {m['change'][:110]} | {cell} |")
print("| id | property | change | result of the quick tier |\n|---|---|---|---|")
print("\n".join(rows))
