#!/venv/bin/python
"""tools/seedmeta.py <id> <property> <outdir> <i> <change> <needs>: write seeded/<id>/meta.json (+ notes.md) after seedconfirm."""
import json, shutil, sys, os
sid, prop, out, i, change, needs = sys.argv[1:7]
d = f"/verif/seeded/{sid}"
if os.path.exists(f"{out}/notes{i}.md"):
    shutil.copy(f"{out}/notes{i}.md", f"{d}/notes.md")
json.dump({"id": sid, "breaks_property": prop, "change": change, "needs_to_manifest": needs, "round": 3,
  "produced_by": "independent sub-agent given only the property text and its own scratch worktree of /repo (no access to /verif)",
  "confirmed_by_lead": {"cmd": f"SEED_WT=<worktree> tools/seedconfirm.sh {out} {i} {sid} {prop}",
     "result": "patch applies to /repo HEAD in a scratch worktree; all 62 baseline tests of the pinned suite still pass with the change; demo.py exits 0 on the original code and non-zero with the change"},
  "checks_run": [], "detected_by": []}, open(f"{d}/meta.json", "w"), indent=1)
print("wrote", d)
