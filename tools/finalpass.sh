#!/bin/sh
# tools/finalpass.sh [seed]: run every registered quick command once, sequentially, in /verif against /repo (this is what writes the
# committed evidence files), then validate every evidence file and the manifest against their schemas.
seed=${1:-1}
cd /verif
mkdir -p work/final
checks=$(/venv/bin/python -c "import json;print(' '.join(c['property_id'] for c in json.load(open('MANIFEST.json'))['checks']))")
for p in $checks; do
  start=$(date +%s)
  VERIF_SEED=$seed VERIF_TIER=quick ./check $p --tier quick > work/final/$p.log 2>&1
  rc=$?
  echo "FINAL seed=$seed $p rc=$rc wall=$(( $(date +%s) - start ))s viol=$(grep -c '^VIOLATION' work/final/$p.log) known=$(grep -c '^KNOWN-FINDING' work/final/$p.log)"
done
python3-vt - <<'PY'
import json, jsonschema, glob
S=json.load(open('/root/.vp/EVIDENCE.schema.json'))
bad=0
for f in sorted(glob.glob('/verif/evidence/C*.json')):
    try:
        e=json.load(open(f)); jsonschema.validate(e,S)
        c=e.get('coverage',{})
        print(f.split('/')[-1], 'ok', e.get('tier'), 'seed', e.get('seed'), 'discharged', c.get('discharged'), '/', c.get('obligations'), 'evals', c.get('evaluations'))
    except Exception as ex:
        bad+=1; print(f, 'INVALID', str(ex)[:200])
jsonschema.validate(json.load(open('/verif/MANIFEST.json')), json.load(open('/root/.vp/MANIFEST.schema.json')))
print('manifest ok; invalid evidence files:', bad)
PY
