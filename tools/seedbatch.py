#!/venv/bin/python
"""Run the registered checks against every seeded change (sequentially, in lab copies) and record
the outcome in seeded/<id>/meta.json.   usage: tools/seedbatch.py [id ...]"""
import json, subprocess, sys, re
from pathlib import Path
V = Path("/verif")
REL = {"C19-5": ["C19", "C14"], "C12-2": ["C12", "C14"], "C20-1": ["C20", "C19", "C09"], "C09-2": ["C09", "C02"], "C01-1": ["C01", "C18"], "C01-2": ["C01", "C14"], "C02-1": ["C02", "C09"], "C02-2": ["C02", "C09"],
       "C03-1": ["C03", "C14"], "C04-2": ["C04", "C16"], "C10-1": ["C10", "C11"], "C20-2": ["C20", "C10"], "C10-2": ["C10"],
       "C11-1": ["C11", "C10"], "C11-2": ["C11", "C10"], "C14-2": ["C14", "C03"], "C15-2": ["C15", "C16"],
       "C16-1": ["C16"], "C16-2": ["C16", "C05"], "C17-2": ["C17", "C16"], "C18-1": ["C18", "C09"], "C18-2": ["C18", "C01"]}
registered = {c["property_id"] for c in json.load(open(V / "MANIFEST.json"))["checks"]}
ids = sys.argv[1:] or sorted(p.name for p in (V / "seeded").iterdir() if (p / "patch.diff").exists())
for sid in ids:
    d = V / "seeded" / sid
    meta = json.load(open(d / "meta.json"))
    prop = meta["breaks_property"]
    checks = [c for c in REL.get(sid, [prop]) if c in registered or (V / "harness" / "props" / f"{c.lower()}.py").exists()]
    r = subprocess.run([str(V / "tools" / "seedrun.sh"), str(d / "patch.diff"), sid] + checks,
                       stdout=subprocess.PIPE, stderr=subprocess.STDOUT, text=True)
    runs, det = [], []
    for c in checks:
        log = Path(f"/tmp/mutlab/{sid}/{c}.log")
        txt = log.read_text() if log.exists() else ""
        viol = [l for l in txt.splitlines() if l.startswith("VIOLATION")]
        concrete = [l for l in viol if "no-failing-input-found" not in l]
        m = re.search(rf"^{sid} {c} rc=(\d+)", r.stdout, re.M)
        rc = int(m.group(1)) if m else None
        what = []
        for l in concrete[:2]:
            mm = re.search(r"replay=(\S+)", l)
            if mm and Path(mm.group(1)).exists():
                try:
                    what.append(json.load(open(mm.group(1))).get("what", "")[:300])
                except Exception:
                    pass
        outcome = ("detected with a failing input" if concrete else
                   "detected (proof/correspondence broken, no failing input found)" if viol else
                   "not detected" if rc == 0 else f"check did not complete (rc={rc})")
        runs.append(dict(check=c, tier="quick", rc=rc, outcome=outcome, first_failure=what[:1]))
        if viol:
            det.append(c)
    meta["checks_run"] = runs
    meta["detected_by"] = det
    json.dump(meta, open(d / "meta.json", "w"), indent=1)
    print(sid, [(x["check"], x["outcome"]) for x in runs], flush=True)
