#!/bin/sh
# Regenerate coq/_CoqProject from the .v files present (idempotent).
cd "$(dirname "$0")/../coq" || exit 2
{
  echo "-Q theories D3"
  echo "-arg -w -arg -notation-overridden,-deprecated-hint-without-locality,-deprecated-syntactic-definition,-deprecated-instance-without-locality"
  find theories -name '*.v' | LC_ALL=C sort
} > _CoqProject.new
if [ -f _CoqProject ] && cmp -s _CoqProject _CoqProject.new; then rm _CoqProject.new; else mv _CoqProject.new _CoqProject; fi
