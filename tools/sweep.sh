#!/bin/sh
# tools/sweep.sh <seed> [checks...]: run registered quick checks sequentially with a private work dir; summary on stdout
seed=$1; shift
cd /verif
checks="$@"; [ -z "$checks" ] && checks=$(/venv/bin/python -c "import json;print(' '.join(c['property_id'] for c in json.load(open('MANIFEST.json'))['checks']))")
mkdir -p work/sweep
for p in $checks; do
  VERIF_WORK=/verif/work/lead_sweep timeout 3600 ./check $p --tier quick --seed $seed > work/sweep/${p}_s$seed.log 2>&1
  rc=$?
  echo "seed=$seed $p rc=$rc viol=$(grep -c '^VIOLATION' work/sweep/${p}_s$seed.log) $(tail -1 work/sweep/${p}_s$seed.log | cut -c1-150)"
done
