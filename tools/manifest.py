#!/usr/bin/env python3
"""Regenerate MANIFEST.json from the table below (keeps it valid and in sync)."""
import json
from pathlib import Path

V = Path(__file__).resolve().parent.parent
props = [json.loads(l) for l in open(V / "properties.jsonl")]

TB = ("Coq 8.16.1 kernel + vm_compute; axioms as printed by Print Assumptions in the evidence; "
      "hand-written Gallina model tied to /repo by the correspondence check run on every invocation "
      "(harness/*.py, worker processes importing /repo through harness/compat.py); numpy/numba/CPython")

CHECKS = {
    "C05": dict(
        category="proof",
        text=("Full-strength theorem on the model: for every history of insertion batches (any sizes incl. 0, any "
              "permutation order = none/sort/shuffle, with/without payload, any descent heuristic, any coordinate type "
              "with a transitive order and bounding min/max) box queries and tree-vs-tree queries return exactly the "
              "overlapping inserted (box, datum) multiset / pair set, without duplicates, never index outside the arrays "
              "and never run out of fuel (Props/C05.v, closed under the global context). The model is tied to "
              "distance3d/aabb_tree.py by exact structural correspondence on every run: after every batch root, "
              "filled_len, nodes, external data and boxes, and every query answer including its order, must be "
              "bit-identical between the PrimFloat instance evaluated inside coqc and the implementation; an "
              "independent brute-force oracle judges the implementation's answers and produces the replay."),
        design_ref="DESIGN.md section 5, C05",
        technique="Coq proof (zipper refinement of index arrays to binary trees) + exact structural correspondence",
        note=TB + "; float comparisons are a total preorder only without NaN (hypothesis; instance proved for Z); "
                  "the cost assertion inside insert_leaf is modelled as an error value and not proved unreachable",
    ),
}

CHECKS["C01"] = dict(
    category="translation_validation",
    text=("Proof-carrying results: every (d, a, b) returned by gjk_distance_jolt on generated pairs (all 10 collider kinds, "
          "Margin, lattice/degenerate/constructed-gap placements) is converted to exact rationals and judged inside coqc by "
          "dist_cert (Checker/Narrow.v); its Coq soundness theorem (Props/C01.v, over the reals, for arbitrary shape expressions) "
          "gives for that input exactly C01: a within tau of A, b within tau of B, ||a-b|-d| <= tau, no pair of points closer "
          "than d - tau, some pair within d + 3 tau, tau = 1e-5 L. The checker and its soundness are proved once for all inputs; "
          "universality over inputs comes from generation. No theorem about the floating-point GJK loop itself (DESIGN section 7)."),
    design_ref="DESIGN.md section 5, C01; section 2.3",
    technique="Coq-proven certificate checker (separating direction + membership witnesses) evaluated by vm_compute on the implementation's outputs",
    note=TB + "; harness/narrow.py parts() (collider spec -> shape expression) is trusted; witnesses are untrusted",
)

NA_DEFAULT = "check not built yet (work in progress; DESIGN.md section 5 has the plan)"
NA = {}


def main():
    checks = []
    for pid, c in CHECKS.items():
        checks.append(dict(
            property_id=pid,
            quick_cmd=f"./check {pid} --tier quick",
            thorough_cmd=f"./check {pid} --tier thorough",
            evidence_file=f"/verif/evidence/{pid}.json",
            replay_cmd_template=f"./check {pid} --replay {{path}}",
            engine="coq-model+correspondence",
            level_claimed=dict(category=c["category"], text=c["text"], design_ref=c["design_ref"]),
            level_note=c["note"],
            technique=c["technique"],
        ))
    m = dict(
        version=1,
        setup_cmd="./setup.sh",
        hooks=dict(
            guard="DISTANCE3D_VERIF",
            enable="no source hooks are needed: worker processes import /repo's modules directly (PYTHONPATH=/repo); DISTANCE3D_VERIF=1 is exported for them but nothing in /repo reads it",
            baseline_off_cmd="cd /repo && /venv/bin/python -m pytest -ra -q -p no:cacheprovider --timeout=900 --continue-on-collection-errors",
            source_commits=[], add_only=True),
        engines=[dict(name="coq-model+correspondence", path="/verif/check",
                      serves_properties=sorted(CHECKS),
                      kind_free_text="Coq 8.16 theorems about a hand-written Gallina model (coq/theories); the model is tied to /repo on every run by a correspondence check (model evaluated by vm_compute inside coqc vs implementation in worker processes) and by ast-extracted tables; Coq-proven result checkers judge outputs of iterative solvers")],
        checks=checks,
        notes="see DESIGN.md; fixes made in /repo are listed in known_findings.json",
        not_applicable=[dict(property_id=p["id"], reason=NA.get(p["id"], NA_DEFAULT))
                        for p in props if p["id"] not in CHECKS],
    )
    (V / "MANIFEST.json").write_text(json.dumps(m, indent=1))


if __name__ == "__main__":
    main()
