#!/usr/bin/env python3
"""Regenerate MANIFEST.json from the table below (keeps it valid and in sync)."""
import json
from pathlib import Path

V = Path(__file__).resolve().parent.parent
props = [json.loads(l) for l in open(V / "properties.jsonl")]

TB = ("Coq 8.16.1 kernel + vm_compute; axioms as printed by Print Assumptions in the evidence; "
      "hand-written Gallina model tied to /repo by the correspondence check run on every invocation "
      "(harness/*.py, worker processes importing /repo through harness/compat.py); numpy/numba/CPython")

CHECKS = {
    "C05": dict(
        category="proof",
        text=("Full-strength theorem on the model: for every history of insertion batches (any sizes incl. 0, any "
              "permutation order = none/sort/shuffle, with/without payload, any descent heuristic, any coordinate type "
              "with a transitive order and bounding min/max) box queries and tree-vs-tree queries return exactly the "
              "overlapping inserted (box, datum) multiset / pair set, without duplicates, never index outside the arrays "
              "and never run out of fuel (Props/C05.v, closed under the global context). The model is tied to "
              "distance3d/aabb_tree.py by exact structural correspondence on every run: after every batch root, "
              "filled_len, nodes, external data and boxes, and every query answer including its order, must be "
              "bit-identical between the PrimFloat instance evaluated inside coqc and the implementation; an "
              "independent brute-force oracle judges the implementation's answers and produces the replay."),
        design_ref="DESIGN.md section 5, C05",
        technique="Coq proof (zipper refinement of index arrays to binary trees) + exact structural correspondence",
        note=TB + "; float comparisons are a total preorder only without NaN (hypothesis; instance proved for Z); "
                  "the cost assertion inside insert_leaf is modelled as an error value and not proved unreachable",
    ),
}

RA = "the three standard-library real-number axioms (sig_forall_dec, sig_not_dec, functional_extensionality_dep)"

CHECKS["C01"] = dict(
    category="translation_validation",
    text=("Proof-carrying results: every (d, a, b) returned by gjk_distance_jolt on generated pairs (all 10 collider kinds, Margin, "
          "lattice/degenerate/constructed-gap placements, polytope pairs in contact, flat/needle primitives, small colliders in front of big "
          "faces) is converted to exact rationals and judged inside coqc by dist_cert (Checker/Narrow.v); its Coq soundness theorem (Props/C01.v, "
          "over the reals, for arbitrary shape expressions) gives for that input exactly C01: a within tau of A, b within tau of B, "
          "||a-b|-d| <= tau, no pair of points closer than d - tau, some pair within d + 3 tau, tau = 1e-5 L. Theorems about the Gallina model "
          "of the loop itself (Model/JoltLoop.v: _distance_loop, calculate_closest_points, the driver), over the reals and for ARBITRARY sets "
          "given through support mappings: the P/Q/Y row relation and v_len_sq = |dir|^2 are invariants of every execution; the Clipped exit "
          "is sound; the duality-gap lower bound; the two classical GJK lemmas; the barycentric weights of calculate_closest_points sum to one "
          "in every arm (four rows: for a non-flat tetrahedron), so a and b are one affine combination of the support points of A resp. B and "
          "a - b is that combination of Y's rows (C01_closest_points_affine), hence a in A, b in B for convex colliders when the weights are "
          "non-negative (C01_closest_points_feasible_partial: non-negativity is the solver's carrier property, a hypothesis; non-vacuity "
          "Example with weights 1/2, 1/2), and with NO hypothesis about the solver when the final simplex has two rows kept by the interior arm "
          "of closest_point_line (C01_closest_points_feasible_two_rows); the no-improvement exit reports the exact distance (partial: "
          "under two hypotheses about the simplex solver - its result is a minimum-norm point of the hull of its rows, the current closest point "
          "lies in the hull of the current rows - which C18 proves for the line and the non-degenerate triangle arms and REFUTES inside the "
          "solver's epsilon bands (C18_jolt_refuted: false in general for tetrahedra); not discharged here; "
          "C01_exact_on_stall_nonvacuous exhibits a concrete state of the loop model, the one after the first iteration on two points at "
          "distance 2, that meets all eight hypotheses together). The clipping early-out and the closest-point reconstruction are exercised "
          "by a stream of big shapes under default clipping and by 8000 (thorough 60000) further pairs (unit-scale curved colliders; small "
          "overlapping colliders of size 0.01-0.02) that are run and screened by a float test, the suspicious ones going to the checker; "
          "15 % of the pairs are brought to their placement by update_pose instead of the constructor. Tie model/code: the support points "
          "the implementation obtained in "
          "iteration i are replayed through step i of the model, which must reproduce every search direction, the iteration count, the exit and "
          "(d, a, b); a difference is excused only if the model's own discrete behaviour changes under ~1-10 ulp perturbations of the trace (for a difference in the exit decision of at most one iteration with equal search directions: also under 1e-14 / 1e-13 perturbations, because the relative-progress exit compares at one ulp) "
          "(excused cases are reported by kind in the evidence). "
          "NOT proved: accuracy of the relative-progress exit in binary64 (DESIGN section 7). Known finding F-J2 (the Jolt simplex solver's "
          "ill-conditioned classes reach the distance query), routed by replaying the trace and applying C18's exact predicates."),
    design_ref="DESIGN.md section 5, C01; sections 2.3, 9",
    technique="Coq-proven certificate checker evaluated by vm_compute on the implementation's outputs + Coq theorems about a Gallina model of the GJK loop tied to the code by support-trace replay",
    note=TB + "; harness/narrow.py parts() (collider spec -> shape expression) is trusted; witnesses are untrusted",
)

CHECKS["C03"] = dict(
    category="proof",
    text=("PROVED in Coq for ALL inputs (Props/C03.v, 61 theorems; real-number axioms only) about the real-arithmetic instance of the "
          "hand-written line-by-line Gallina model Model/Support.v of geometry.py / colliders.py / mesh.py: for sphere, cylinder, capsule, "
          "ellipsoid, cone, disk, ellipse, box (np.sign form and 8-vertex Box collider), vertex hulls (first-maximal-index argmax) and Margin the "
          "returned point belongs to the closed set AND maximises x.d over it exactly, for every direction (d = 0, zero components, the s==0 / "
          "norm==0 / sign(0) arms included) and every pose matrix (only the disk needs a unit normal); first_vertex() and center() of all ten "
          "kinds lie in the set. MeshGraph: the hill climb terminates for every direction and start vertex within |V| rounds without KeyError / "
          "IndexError on a closed adjacency - over the reals and in any arithmetic whose acceptance test implies a strict order (for binary64 a "
          "stated hypothesis) - and stops only at a vertex without a neighbour better by > 10 eps; global maximality is fully proved for complete "
          "adjacencies (C03_mesh_support_complete_adjacency); otherwise maximality and independence of the cached start vertex (one query and "
          "any sequence) hold ONLY under the hypothesis LocalMaxGlobal on the input mesh (four C03_mesh_*_partial theorems; that edge graphs of "
          "convex polytopes satisfy it is not proved). Checker soundness: support_cert, in_shape_tolD, the shape expressions denote the Spec "
          "sets (C03_expr_*), cone_cert => LocalMaxGlobal up to M*10*eps for that mesh (C03_mesh_support_certified). JUDGED PER GENERATED INPUT "
          "only: every answer of the implementation by an exact rational (Python Fraction) oracle at 1e-9 L and again, doubling the oracle, by "
          "the Coq-proven support_cert / in_shape_tolD (vm_compute on exact rationals; a certificate rejected where the oracle accepts is "
          "counted as inconclusive, never as a failure); up to 12 (quick) / 80 (thorough) meshes of at most 30 vertices get an exact cone "
          "certificate (cone_cert), for the others the hypothesis is evaluated exactly per mesh and direction; argument and collider arrays "
          "must stay unmodified; in half of the cases all queries go through ONE direction array overwritten in place. Pose histories (40-60 % "
          "of the cases of every kind with update_pose, Margin-wrapped ones included): the collider is constructed at another pose and brought "
          "to the case's pose by 1-4 update_pose calls that all carry ONE pose array edited in place (the constructor's own array or that of "
          "the first update, optionally a matrix of a (3,4,4) stack); support points, first_vertex and center are judged by the oracle after "
          "construction and after every update against the pose of THAT step, the final state runs the whole pipeline. Stream `ring`: barrel "
          "meshes of 2-3 rings x 48..3000 (thorough 4000) segments with a fan per cap (graph diameter ~ n/4 edges), queried along lateral "
          "directions whose maximiser lies halfway between two shortcut vertices, their opposites and repeats, each also on a new object; "
          "meshes with more than 400 vertices (ring meshes up to 6002, thorough 8002 vertices) are judged by the exact oracle ALONE - "
          "float-screened: every vertex within 1e-9*scale of the binary64 extremum is evaluated in exact rationals - and by the comparison "
          "with new objects, NOT by the Coq model or the certificates. TIE to the code, every "
          "run: the binary64 run of the same model inside coqc vs the implementation (support value; point where unique or exactly "
          "representable; vertex index; shortcut table; adjacency = edge graph of the triangles; first_vertex; center; mesh query histories vs "
          "fresh objects); line coverage of the 47 functions in scope is measured (182/182). NOT proved: IEEE rounding (measured only); for "
          "non-zero |d| < ~1e-162 the binary64 model takes the norm == 0 arm where numba's BLAS norm does not, and the point comparison is "
          "skipped for |d| <= 1e-150 (same root as C20-NORM-UNDERFLOW). Assumption: C03 is read as a statement about the collider in any state "
          "reachable through its public methods (after update_pose(P) the set is the shape at P, whichever array carried P); observations "
          "after an in-place edit WITHOUT a following update_pose are not judged. Known findings: none."),
    design_ref="DESIGN.md section 5, C03",
    technique="Coq proof over R about a hand-written Gallina model + model/implementation correspondence by vm_compute (PrimFloat) + exact rational oracle doubled by Coq-proven support/membership/mesh-cone certificates, on single queries, query sequences and update_pose histories through one re-used pose array",
    note=TB + "; " + RA + "; the per-input property oracle is an exact Python Fraction oracle (not Coq-extracted), float-screened for polytopes with more than 200 vertices (float error < 1e-13*scale against a 1e-9*scale window); meshes with more than 400 vertices are judged by that oracle alone (no Coq model, no certificates); harness/props/shapes_meshcone.py builds untrusted cone certificates; IEEE rounding is measured, not modelled",
)
CHECKS["C04"] = dict(
    category="proof",
    text=("PROVED in Coq for ALL inputs (Props/C04.v, 22 theorems; real-number axioms only) about the real-arithmetic model Model/Aabb.v of "
          "containment.py / the aabb() methods: for sphere, box (any pose matrix), cylinder, capsule, cone, disk, ellipse (any axes), vertex "
          "hulls, MeshGraph and Margin the returned box encloses the set and each of the six bounds is attained by a point of the set "
          "(orthonormal pose / unit normal, sizes >= 0; cone height > 0, ellipse radii > 0); the bounds equal the support values along +-e_k "
          "(C04_bounds_are_support_values); two sets that meet have overlapping boxes (C04_shapes_meet_aabb_overlap: broad-phase completeness, "
          "the hypothesis C06 relies on). Ellipsoid: exact for the 48 signed permutation matrices (C04_ellipsoid_axis_aligned), the code's half "
          "extent never exceeds the true one (C04_ellipsoid_never_larger), the true box is given (C04_ellipsoid_true_box) and "
          "C04_ellipsoid_refuted exhibits a rotation where the returned box does NOT enclose the ellipsoid (known finding F9). "
          "RigidBody.aabb(): exact for the stored body-frame vertices, ignores body2origin_ (C04_rigid_body_ignores_pose), refuted in the world "
          "frame (C04_rigid_body_world_refuted = known finding RB-AABB). C04_aabb_cert_sound: soundness of the per-run box certificate. JUDGED "
          "PER GENERATED INPUT only: every returned box (collider.aabb() and the containment free function) by an exact rational (Python "
          "Fraction) oracle on the six bounds (1e-9 L) and, doubling the oracle, by the Coq-proven aabb_cert inside coqc (enclosure by proven "
          "upper bounds of the support value, tightness by six untrusted witness points; all accepted except the F9 class; rigid bodies and "
          "hulls of more than 40 vertices are not submitted; a certificate rejected where the oracle accepts is inconclusive, never a "
          "failure); streams near-aligned / 1-ulp-off / exact / lattice / random poses and `degen` (all sizes nearly equal); RigidBody observed "
          "again after express_in; a second aabb() call and the collider arrays must be unchanged; the free functions are called again on "
          "the same argument arrays overwritten in place. Pose histories (40-70 % of the collider cases of every kind with update_pose): "
          "constructed at another pose, aabb(), then 1-4 update_pose calls each followed by aabb() twice, all poses carried by ONE array "
          "object edited in place between the calls (the constructor's own array or that of the first update, optionally a matrix of a "
          "(3,4,4) stack); every stage's box is judged by the exact oracle against the pose of THAT stage, the final box also by aabb_cert and "
          "the model; F9 is matched per stage (its class predicate 'rotation is not a signed permutation' is evaluated for that stage's pose). "
          "TIE to the code, every run: the six bounds of "
          "the binary64 model run inside coqc vs the implementation; 60/60 lines of the functions in scope hit. NOT proved: IEEE rounding; "
          "RigidBody.aabb() is modelled as the merge of per-tetrahedron boxes (that the tree's root box is this merge is C05's theorem). "
          "Assumption: C04 is read as a statement about the collider in any state reachable through its public methods (after update_pose(P) "
          "the box must enclose tightly the shape at P, whichever array carried P); observations after an in-place edit WITHOUT a following "
          "update_pose are not judged. Known findings: F9, RB-AABB."),
    design_ref="DESIGN.md section 5, C04",
    technique="Coq proof over R about a hand-written Gallina model + model/implementation correspondence by vm_compute (PrimFloat) + exact rational oracle doubled by the Coq-proven aabb_cert, on fresh colliders and on update_pose histories through one re-used pose array",
    note=TB + "; " + RA + "; the per-input property oracle is an exact Python Fraction oracle; RigidBody.aabb() modelled as merge of per-tetrahedron boxes (C05 gives root box = merge)",
)
CHECKS["C13"] = dict(
    category="proof",
    text=("PROVED in Coq for ALL inputs (Props/C13.v, 23 theorems + 1 non-vacuity lemma + 3 non-vacuity examples; real-number axioms only) about the real-arithmetic "
          "model Model/Contain.v of containment_test.py: for orthonormal poses predicate = true <-> point of the closed set for sphere, capsule "
          "(height > 0), ellipsoid (radii > 0), cylinder, cone (height > 0), box - the size hypotheses exclude the divisions by zero of the code "
          "(NaN in binary64, 0 in Coq's total division); the disk predicate accepts exactly the slab of half width 10 eps (absolute) around "
          "the disk, and every point of the disk; points_in_convex_mesh is exactly the intersection of the face half-spaces and accepts every "
          "point of the hull when the faces are outward (C13_convex_mesh_complete_partial - PARTIAL: the converse needs the H=V representation "
          "theorem for the input triangulation). Cross-agreement with the models of other properties: contained <-> point_to_box / "
          "point_to_cylinder distance 0; disk: contained => distance <= 10 eps, distance 0 <-> on the disk; no contained point projects beyond "
          "the support value of C03 (seven C13_*_support theorems). Checker soundness: C13_outside_cert_sound (outside_cert = true => the "
          "point is at least tau away from every point of the shape: the per-run 'must be False' certificate, one untrusted separating "
          "direction) and C13_member_cert_sound (member_cert = true => the point IS a convex combination of the mesh's world vertices). "
          "JUDGED PER GENERATED INPUT only: the implementation's booleans against an exact rational (Python Fraction) in / out / band "
          "classification at 1e-9 L (band points are not judged); 'must be False' verdicts doubled by the Coq-proven outside_cert inside coqc "
          "(up to 8 points per case, boundary pushes first; a True answer on a certified point is a failure); for meshes of at most 30 vertices "
          "up to 4 accepted points per case are submitted to member_cert with exact convex weights found by the harness (untrusted) - the "
          "per-input substitute for the missing converse of the convex-mesh theorem; counted in the evidence, a rejection is not a failure; the "
          "'at least 1e-9 L inside' side of all other shapes is judged by the Python oracle only. Batch = single = reversed order on judged "
          "points; arguments unmodified and a second call identical; 60 % of the cases carry a call history on the SAME argument arrays (call, "
          "overwrite the arrays in place with another shape, call, compare with a call on fresh arrays); stream `degen` (all sizes equal up to "
          "1e-7..1e-4 relative); cross-checks with the implementation's own point_to_<shape> and "
          "support_function. TIE to the code, every run: booleans compared with the binary64 model run inside coqc wherever judged, and exactly "
          "(boundary points, absolute thresholds; exhaustive 7x7x7 lattices in half of the `exact` cases) on exactly representable cases; 72/72 "
          "lines hit. NOT proved: IEEE rounding inside the 1e-9 L "
          "band; flat disk: only the False side is judged; convex meshes: faces come from scipy ConvexHull and are verified exactly as "
          "supporting half-spaces. Known findings: none."),
    design_ref="DESIGN.md section 5, C13",
    technique="Coq proof over R about a hand-written Gallina model + model/implementation correspondence by vm_compute (PrimFloat) + exact rational oracle doubled by the Coq-proven outside_cert ('must be False') and member_cert (accepted mesh points)",
    note=TB + "; " + RA + "; convex meshes: faces from scipy ConvexHull verified exactly as supporting half-spaces; flat disk: only the False side is judged",
)
CHECKS["C14"] = dict(
    category="proof",
    text=("State-machine proof (Props/C14.v, 5 theorems, closed under the global context: no axioms). PROVED for every collider class incl. "
          "Box's vertex cache, the mesh functor's own pose copy and nested Margin wrappers, every construction pose and every finite history of "
          "update_pose / support / aabb / center / first_vertex / collider2origin operations with C-contiguous poses (fresh or item of a stack) "
          "and C-contiguous directions: the surviving object holds the same attribute data as one constructed at the last pose "
          "(update_equals_fresh: only layout tags and the mesh functor's cached start vertex may differ); aabb / center / first_vertex / "
          "collider2origin return equal results; support returns what the fresh object returns once its cached start vertex is set to the "
          "survivor's (equal outright for mesh-free shapes); no operation raises (no_type_error). The pre-fix Disk / Ellipse configuration "
          "(F15, fixed by b36ceae) is refuted (three *_old_refuted theorems). TIE to the code: the theorems are stated for the CURRENT "
          "configuration - numba signatures, update_pose bodies and call-site wrappers are re-extracted from /repo's sources on every run "
          "(harness/tables_c14.py -> Gen/CollidersTables.v) and the proofs re-checked; the reader fails closed on any attribute write outside "
          "__init__ / update_pose / make_artist and on any state write of the mesh functor other than the vertex cache. MODELLED, NOT PROVED: "
          "numpy's view / layout rules and numba's dispatch on declared signatures; the numerical kernels are arbitrary functions of the "
          "attribute data, so query BODIES are not compared with a model here (C03 / C04 do that). JUDGED PER GENERATED INPUT only: on generated "
          "histories (pose sources: fresh array, item of a stack, pytransform3d TransformManager, one buffer / one stack slot overwritten in "
          "place and handed over again; tracking, drift and trajectory-player histories; `buffer player` histories for EVERY class: 2-5 steps, "
          "each = the SAME array overwritten in place, update_pose(it), then 1-3 of aabb / support / first_vertex / center / collider2origin / "
          "gjk, so that an answer remembered per identity or content of the pose array would survive a step; the evidence counts per class the "
          "histories with an aabb() between two updates through the same buffer) the layout model is validated against arr.flags and raised "
          "exception types, and every query inside the "
          "history as well as the final battery is compared bitwise with a NEW object built at the pose reached so far. Outside the property: "
          "queries between the caller's in-place mutation of a pose array and the next update_pose. The source reader is fail-closed by whole-body pins: "
          "every method of every class in colliders.py and of the mesh support functor is compared (normalised syntax tree) with a reference "
          "stored beside the model; unknown classes, methods, decorators, signatures of callees, in-place stores into arguments or module state "
          "are refused (a refusal = broken obligation, stale tables are never evidence). Limits: the pins are syntactic (a harmless refactoring is "
          "refused too); subclasses or monkeypatching in other modules and make_artist bodies are not seen. Known findings: none."),
    design_ref="DESIGN.md section 5, C14",
    technique="Coq proof by induction over operation histories on a model regenerated from the source (ast reader) + history correspondence (every query of generated histories, incl. pose buffers overwritten in place, compared bitwise with a new object)",
    note=TB + "; no axioms in Props/C14.v; harness/tables_c14.py (ast reader) is trusted; numerical kernels are abstract functions of attribute data in the model",
)
CHECKS["C17"] = dict(
    category="proof",
    text=("PROVED in Coq (Props/C17.v, 24 theorems + 5 non-vacuity examples; real-number axioms only) about the Gallina model Model/TetMesh*.v "
          "whose tables (Gen/TetTables.v) are re-extracted from the source by an ast reader on every run - FOR ALL INPUTS: (a) "
          "make_tetrahedral_box (all sizes > 0, all 7 reachable topology classes) and cube: every element has non-zero volume of the factory's "
          "orientation sign, volumes sum to sx*sy*sz, all vertices in the box, NO TWO ELEMENTS OVERLAP, potential = distance to the boundary "
          "(0 on corners, min half size on medial vertices), centre of mass = box centre ('exact tiling' = disjoint + contained + equal volume; "
          "the measure-theoretic step 'hence no gaps' is not formalised); (b) icosphere, EVERY order: closed consistently oriented surface "
          "(each directed edge once, its reverse once), cache key injective on unordered pairs, the normalisation puts every NON-ZERO raw "
          "vertex on the sphere (that subdivision midpoints are non-zero is not proved); (c) cylinder, ANY n, arbitrary counter-clockwise rim "
          "points, all three classes: elements positively oriented, volumes sum to len * polygon area, every element of a sector lies in the "
          "prism over (axis, rim_i, rim_j), no two elements overlap WHEN the angular sectors do not overlap (hypothesis sectors_apart), "
          "potentials 0 / inradius; capsule, any n and any number of cap circles: elements positive with an explicit volume sum, potentials 0 / "
          "radius; (d) helpers: volume = |det|/6, tightest AABBs, centre of mass = volume-weighted mean of centroids; RigidBody: after ANY "
          "sequence of reads / express_in the cached com / aabbs / tetrahedra_points / aabb() equal a direct computation on the current "
          "vertices; tolerance literals pinned; mesh_cert is sound. PER GENERATED INPUT only (exact rational oracle + Coq-proven mesh_cert on "
          "the implementation's output): volume sum = convex-hull volume and positive fan volumes for sphere / ellipsoid, libm cos / sin values, "
          "the rim-point hypotheses (counter-clockwise, sectors apart: checked exactly), RigidBody read / express_in histories. TIE, every run: "
          "bit-exact binary64 run of the model vs the implementation for EVERY factory (vertices, elements, potentials), helpers bit-exact / "
          "1e-12 (com), RigidBody twins and histories, class boundaries hit exactly; line coverage measured (328/328, 12/12, 51/60). The reader "
          "is fail-closed by whole-body pins: all 13 functions of _tetra_mesh_creation.py and the CylinderClass enum are compared (normalised "
          "syntax tree) with references stored beside the model, the literal tables are extracted as data and re-proved; a refusal is a broken "
          "obligation and stale tables are never evidence. Limits: the pins are syntactic; nothing outside _tetra_mesh_creation.py is read "
          "(RigidBody.make_* and _mesh_processing.py are tied by the bit-exact model runs only). Known findings: none."),
    design_ref="DESIGN.md section 5, C17",
    technique="Coq proofs about a Gallina model (polynomial reflection, induction over sectors / subdivision order) with tables re-extracted from the source + bit-exact binary64 correspondence + proven certificate checker",
    note=TB + "; " + RA + "; harness/tables_c17.py (ast reader) and harness/c17_oracle.py are trusted; numpy cos/sin/ceil/clip evaluated by the harness for the model's trig inputs; scipy ConvexHull only as untrusted witness",
)

CHECKS["C02"] = dict(
    category="translation_validation",
    text=("PROVED in Coq for all inputs (Props/C02.v, 10 theorems + 2 non-vacuity examples; real-number axioms only): every collider shape "
          "expression denotes a convex set (C02_shapes_convex; cones = hull of apex and base disk); para_cert (8 exact corners p+-w1+-w2+-w3 "
          "certified as members + delta^2 |wi x wj|^2 <= det^2) and Deep.deep_cert (last Minkowski summand a ball) each imply that the ball "
          "of radius delta around p lies in the collider; overlap_cert = true => p is >= delta inside both colliders and they intersect; "
          "gap_cert = true => all point pairs are >= delta apart and the colliders are disjoint; no pair carries both certificates "
          "(C02_classes_disjoint). Exit soundness over the reals, for ARBITRARY sets given through support points: the separating-axis exit "
          "of the Jolt boolean loop model (C02_separating_axis_exit_sound), the libccd exit dot(w,dir) < -sqrt(eps) "
          "(C02_libccd_before_origin_exit_sound) and the MPR refinement exit `not _encapsulates_origin` "
          "(C02_mpr_refine_not_encapsulated_exit_sound) each prove disjointness; every False of MPR portal discovery proves that the overlap "
          "along the search direction is below eps (C02_mpr_discovery_false_exits_bound). JUDGED PER GENERATED INPUT only: for each pair whose "
          "certificate evaluates to true inside coqc (exact rationals of the floats given to the constructors, witnesses untrusted), "
          "gjk_intersection_jolt, gjk_intersection_libccd, mpr_intersection, gjk_nesterov_accelerated_intersection (and the "
          "..._primitives_intersection variant on unwrapped sphere / capsule / box / ellipsoid / cylinder) must answer True (overlap class) / "
          "False (gap class) and gjk_distance_jolt must give d <= 1e-5 L / d >= delta - 1e-5 L; pairs without certificate (band, flat shapes "
          "in the overlap class) are not judged and counted; all boolean tests run twice plus a distance query on ONE pair of collider "
          "objects, the numeric state of both colliders compared before / after every query. Universality over inputs comes from generation "
          "(all 100 ordered kind pairs x depth / gap in {1.5, 4, 100} delta with TRUE distance = gap, 25 primitive pairs, Margin wrappers, "
          "identical, nested, touching pairs - inside the band, never judged -, random / lattice / moderate / wide streams). TIE to the code "
          "beyond the answers, every run: Gallina models of gjk_intersection_libccd and mpr_intersection (Model/GjkLibccd.v; follows /repo "
          "commit fdadc7f: start_discover really swaps portal rows 1 and 2) and of the Jolt boolean loop (the lead's Model/JoltLoop.v, the "
          "loop as it is since 3066ace) replay in binary64 inside coqc the support traces recorded from the implementation: every search "
          "direction, iteration count and answer must agree; differences are looked at a second time under few-ulp perturbations (near-ties "
          "excused and counted; a difference in the Jolt loop's exit decision of at most one iteration with equal search directions and no "
          "differing answer is looked at a third time under 1e-14 / 1e-13 perturbations). NOT proved: anything else about the five algorithms themselves - termination, the True exits, accuracy in "
          "floating point; the Nesterov boolean test has no model here (C09 replays that loop); njit division by zero (ZeroDivisionError) has "
          "no outcome in the models. Known findings: none."),
    design_ref="DESIGN.md section 5, C02; section 2.3",
    technique="Coq-proven ground-truth certificates (ball-in-collider via convexity + exact parallelepiped corners / shrunk last ball; separating direction with rational sqrt upper bounds) evaluated by vm_compute on exact rationals, the five boolean functions of /repo judged against them + Coq exit-soundness theorems (Jolt / libccd / MPR) + trace-replay correspondence of Gallina loop models",
    note=TB + "; " + RA + "; harness/narrow.py parts()/sh_expr (collider -> shape expression) is trusted; harness/narrow_bool.py only constructs untrusted witnesses",
)
CHECKS["C06"] = dict(
    category="proof",
    text=("Machine-checked (Props/C06.v, 25 theorems, 2 lemmas for the integer instance and 2 non-vacuity examples; the generic ones are closed under the global context; five over the reals - "
          "update_poses_never_asserts_R, update_poses_succeeds_R, add_collider_never_asserts_R, real_order_ok, narrow_hypothesis_from_enclosure "
          "- use the standard-library real-number axioms) about the Gallina model Model/Bvh.v of BoundingVolumeHierarchy / "
          "self_collision.detect / detect_any / urdf_utils.self_collision_whitelists on top of the proven AABB-tree model of C05. PROVED for "
          "ALL inputs and histories: (1) poses_current: after any sequence of add_collider (also under a frame name in use: the entry is "
          "replaced), removal of an entry, transform changes, whitelist updates and "
          "update_collider_poses ending with update_collider_poses, the tree holds exactly one leaf per registered collider with its current "
          "aabb and payload and every collider is at the transform manager's current transform (poses_current_aliasing_refuted: false when one "
          "object is registered under two frames); fill_tree_with_colliders is such a history; with the C14 collider model plugged in, "
          "'current AABB' = aabb() of a NEW collider at that transform; (2) the three broad-phase queries return exactly the entries / ordered "
          "pairs whose current AABBs overlap, without duplicates, minus whitelisted frames; (3) detect_spec / detect_spec_symmetric / "
          "detect_any_spec exactly as the property words them, detect_any_consistent (some frame marked <=> detect_any True); completeness "
          "rests on the named hypothesis narrow_implies_aabb_overlap, derived over the reals from enclosure of the shapes by their boxes - "
          "which C04 REFUTES for Ellipsoid colliders in /repo (finding F9, recorded under C04); (4) generated whitelists = own link + last "
          "parent + last child, and can be asymmetric; (5) no AssertionError in update_collider_poses / add_collider in exact real "
          "arithmetic; (6) identity of the objects handed out (all closed under the global context): query_returns_registered_object - after "
          "ANY history of add_collider under new or USED frame names / Remove / transform / whitelist changes that ends with "
          "update_collider_poses (no object under two frames), whatever aabb_overlapping_colliders returns under a frame name is the object "
          "registered under that name NOW, never a replaced or removed one, and its current aabb overlaps the query; "
          "add_collider_registers_object (a replacement keeps the number of colliders, other names keep their object); "
          "remove_collider_unregisters_object; C06_identity_nonvacuous (replacement and removal + re-adding on the integer world). "
          "JUDGED PER GENERATED INPUT only: that the model IS the code - the real classes run on generated URDF chains / trees / "
          "stars (links in arbitrary order, 20 % with visuals, extras registered before fill_tree, transforms edited in place) with set_joint "
          "histories and, in 40 % of the rounds, TOOL CHANGES (add_collider under a frame name in use = replacement with the same count; "
          "`del colliders_[f]` followed by add_collider of a new or of the same object; swap; plain removal; usually after the BVH has been "
          "queried and with no query before the next update_collider_poses, in 25 % with queries on the stale tree); every answer IN ORDER, "
          "every returned collider identified as an OBJECT (also the objects detect hands to the narrow phase, recorded by wrapping "
          "gjk_intersection), is compared with the model evaluated by vm_compute, plus an independent all-pairs brute-force "
          "oracle; replacement and removal are judged against the property only after the next update_collider_poses. A `beyond` stream "
          "(duplicate names, one object under two frames, unknown frames, stale-tree queries) is compared with the model incl. exception "
          "types only. NOT proved: collider kernels (update_pose, aabb(), gjk_intersection), IEEE rounding, the float cost assertion of "
          "insert_leaf and pytransform3d are parameters of the model; the coordinate order is a hypothesis (transitive, no NaN); taking a "
          "collider out has no method in /repo: Remove models `del colliders_[f]; collider_frames.discard(f)` on the public attributes. Known "
          "findings: none."),
    design_ref="DESIGN.md section 5, C06",
    technique="Coq proof of BVH/self-collision exactness and of the identity of returned collider objects under replacement / removal (generic theorems without axioms, five real-arithmetic corollaries with the real-number axioms) over the proven AABB-tree model + order-exact and object-exact model/implementation correspondence + brute-force oracle",
    note=TB + "; pytransform3d (URDF parser, TransformManager) as source of poses; Python dict order = insertion order; the model's identity token per frame is the object id (heap index) carried by colliders_ and the tree payloads",
)
CHECKS["C12"] = dict(
    category="proof",
    text=("PROVED, theorems over the reals (Props/C12.v, 63 theorems + 1 non-vacuity example; real-number axioms only): dist_ge, dist_le, intersect, is_support and "
          "the distance given by its two defining inequalities are invariant under one rigid motion applied to both sets, symmetric in the "
          "arguments and scale with a uniform scaling; hence ANY function validated to return the distance within tau on a scene and tau' on "
          "its moved / swapped / scaled copy returns values that differ by at most tau + tau' (C12_inherited_rigid / _swap / _scale / _bool: "
          "the formal reason the iterative solvers, validated per input by C01, C07-C09, inherit C12 - nothing is proved about those solvers "
          "here). Pose algebra of utils.py (invert_transform, inverse_transform_point in the code's order of operations): round-trip, "
          "involution, composition laws. For the modelled closed-form layer the model's OUTPUT is equivariant as an equality: support functions "
          "of cylinder, capsule, ellipsoid, box (free function and Box collider), cone, ellipse, disk (basis-independent closed form), sphere "
          "(d <> 0; C12_support_sphere_zero_direction_refuted at d = 0, where the code answers in world coordinates), vertex hull (argmax index "
          "unchanged), Margin, mesh hill climbing; eight containment predicates; 15 distance leaves under rigid motion (all 7 arms of "
          "point_to_triangle), swap of line_to_line (general arm) and plane_to_plane (parallel arm), scaling of three point functions. AABBs "
          "are NOT invariant (C12_aabb_not_invariant). JUDGED PER GENERATED INPUT only (metamorphic differential, not a theorem): every scene "
          "(all collider kinds + Margin through all GJK flavours, MPR, EPA; the 34 distance functions; 170 closed-form support scenes per quick "
          "run) is run in five forms - original, swapped (fresh objects and again on the same two), moved (fresh), moved through update_pose "
          "with the pose array overwritten in place, scaled - and distances, depths, booleans outside the 1e-3 L band, points, directions and "
          "mtv are compared with the tolerance of the specifying property; where the optimum is not unique the verdict uses consequences that "
          "hold for ANY optimal answer (membership by the Coq-proven in_shape_tol inside coqc). Stream `nearid` (judged like every other scene: "
          "d at 1e-6 (L0 + L1), points at 1e-9 L): the frames of both arguments are within 1e-9 .. 1e-5 rad of the identity / of an axis "
          "permutation, or exactly so; the scene sits near the origin and is moved by (identity | near-identity | axis permutation) + a "
          "translation of up to 985, or sits up to 985 from the origin (the domain allows 1e3) and is moved by an arbitrary rotation - an "
          "absolute tolerance on a rotation block shows only as angle * |translation|; all 34 distance functions (quick: 80 scenes per "
          "function taking a 4x4 pose, 4 per other function) and 28 collider scenes (14 full query sets, 14 support-layer scenes). "
          "MPR: flag, contact position and depth >= EPA "
          "depth - 2e-3 L are judged; equality of MPR depths is a statistic only. TIE to the code: the equivariance theorems speak about the "
          "models of C03 / C10 / C13 and rely on those checks' correspondences. Skipped and counted: inputs in known-finding classes of C07 / "
          "C08 / C10 / C11 and (while F-J2 is recorded) self-inconsistent Jolt GJK answers. Known findings: none."),
    design_ref="DESIGN.md section 5, C12",
    technique="Coq proofs of spec-level invariance + model equivariance; metamorphic differential of paired implementation runs (five forms per scene; general, lattice and near-identity / axis-permutation frames up to 1e3 from the origin) judged with the specifying properties' tolerances and a Coq-proven membership checker",
    note=TB + "; " + RA + "; harness transform_spec / primlib.rigid build the moved scene in floats; the harness' inner-radius oracle decides 'clear overlap' for the boolean comparisons; known-finding predicates imported from c10/c11, those input classes are skipped and counted",
)
CHECKS["C16"] = dict(
    category="proof",
    text=("PROVED in Coq (Props/C16.v, 8 theorems + 3 examples) about the Gallina model Model/HydroWrench.v of accumulate_wrenches / "
          "_transform_wrenches, express_in with its caches and all_aabbs_overlap, for ALL inputs: over the reals C16_action_reaction (f12 = "
          "-f21 for every contact surface and every frame2world); C16_express_in_common_motion + C16_wrench_equivariance (moving both bodies by "
          "one rigid motion leaves body 1 expressed in body 2's frame unchanged and rotates both wrenches by that motion); C16_wrench_swap (the "
          "same contact described in the other body's frame with exchanged roles yields the two wrenches exchanged; proper rotations preserve "
          "the cross product, proved); C16_express_in_idempotent; C16_express_in_invalidates (every cached property is recomputed from the new "
          "vertices); C16_tree_vs_brute_same_pairs (any coordinate type with a transitive order: the tree-tree query over two one-batch trees "
          "built with any row permutation lists exactly the pairs of all_aabbs_overlap, each once - corollary of the C05 development). JUDGED "
          "PER GENERATED INPUT only, NOT proved: every 5 % statement of the property on the real implementation - pairs of RigidBody.make_* "
          "bodies at arbitrary poses of both bodies (incl. an elongated class), common motions, swapped order, repetitions, interleaved calls "
          "against a third body, 8-step call histories on the SAME objects with role changes, tree / brute mode, in-place pose updates and cache "
          "reads compared with cache-free snapshots; equality of the pair sets of both broad phases (exact); world-frame details of "
          "contact_forces(return_details=True) by the Coq-proven poly_cert. The contact surface itself is C15's subject: nothing here links the "
          "wrench theorems to geometric correctness of the surface. TIE to the code, every run: binary64 run of the model's "
          "accumulate_wrenches inside coqc on the implementation's own contact surface (<= 1e-11), express_in on vertex samples (<= 1e-13), "
          "f12 == -f21 bit for bit, cached properties == those of a rebuilt body after every call. A failed 5 % comparison is credited to a "
          "known finding (F17: rounding-noise plane normal; F26-C16: lost polygon vertex, the defect F26 of C15) only if repeating both runs "
          "with per-contact output and LEAVING OUT the tetrahedron pairs of that finding's input class from BOTH sums brings all four wrench "
          "components under 5 %; otherwise it is a VIOLATION. Known findings: F17, F26-C16. The same calls are repeated with "
          "return_details=True (base, swapped, moved, on fresh bodies): the wrench must not depend on the flag, and when it does the property "
          "clauses are judged on the details-on wrenches themselves. One corpus case per listed finding runs first in every run."),
    design_ref="DESIGN.md section 5, C16",
    technique="Coq proofs about a Gallina model of wrench accumulation / express_in / broad phase + per-run correspondence (PrimFloat model vs implementation) and 5 % symmetry, equivariance and call-history measurements on generated body pairs",
    note=TB + "; " + RA + " (none for C16_tree_vs_brute_same_pairs); harness/hydrogen.py generators, harness/impl/c16.py; Python comparisons for the 5 % verdicts",
)
CHECKS["C20"] = dict(
    category="other",
    text=("Differential between two executions of one serialised call list - numba JIT as installed vs NUMBA_DISABLE_JIT=1, separate processes, "
          "the worker asserts its mode - over every family of jitted public code: utils, geometry support functions and converters, "
          "containment boxes and predicates, AABB helpers, GJK simplex kernels, half-plane kernels, the 34 distance functions (through the C10 "
          "worker, incl. an axial stream), collider pairs through all GJK flavours / MPR / EPA, both Nesterov variants with acceleration on "
          "flat / needle primitives, MeshGraph support sequences, AABB tree histories of C05 plus empty-tree queries, the direct tree API "
          "(dtype / shape of results for disjoint, overlapping, empty trees), cases of the C06 / C14 / C15 / C16 generators through their "
          "own workers, and the integer-scalar families: SCALAR size arguments (radius, height, length, margin), documented as 'float', passed "
          "as Python ints and numpy int64 / int32 scalars with exact identity / axis-permutation / lattice / random poses and directions "
          "exactly along a local axis, exactly zero or on a sign boundary - `intscalar` (8 support functions, 5 AABBs, 5 containment "
          "predicates), `intscalar-distance` (the 7 distance functions with scalar sizes, through the C10 worker without its float() "
          "conversion), `intscalar-collider` (collider pairs built without float(), support / centre along own axes, coordinate axes and the "
          "zero direction, plus the full solver query set). Assumption (domain decision from the property text, 'float64 C-contiguous "
          "arrays'): ARRAY arguments are always fresh float64 C-contiguous arrays, integer-valued ones included; int64 arrays are outside "
          "the declared domain and are not generated. JUDGED PER GENERATED CALL only: closed forms agree to 1e-9 relative, iterative solvers "
          "within the tolerance of "
          "C01 / C07-C09, broad-phase floats to 1e-6, booleans / index sets / result structure / exception types identical; closest points and "
          "support points are compared by value where several optima exist - except for the exactly ZERO direction, where every point has "
          "support value 0 and the tie rule would be vacuous: there both modes must return the same point; a crash, hang or exception in one "
          "mode only is a failure. Found by this check and FIXED in /repo (kept as regressions, not open): F29 (tree-vs-tree query of "
          "non-overlapping trees raised IndexError interpreted only; direct tree API family; 41301d5) and F30 (support_function_capsule with "
          "an integer radius and the zero direction truncated the z shift when interpreted; intscalar family; 2871ebd). Static "
          "side (every run, fail-closed ast scan): every njit function (136 today) with the module-level globals it captures (13); none is "
          "rebound or mutated anywhere in the package; no jit option other than cache=True. PROVED in Coq (Props/C20.v, 5 theorems, closed "
          "under the global context, about the AABB tree model of C05): for every insertion history insert / box query / tree query never "
          "index outside their arrays (the side condition under which checked and unchecked indexing coincide), the empty tree is answered "
          "without indexing, and the query KERNEL applied to an empty tree's root does index out of range "
          "(C20_empty_query_kernel_index_unsafe = the old F5). NOT proved: equivalence of compiled and interpreted code - out of reach without "
          "numba / LLVM semantics; the theorems cover one data structure only, and this check has no model / code tie of its own (C05's "
          "correspondence ties that model). Skipped and counted: inputs in recorded C10 / C11 finding classes (same predicates as C10 / C11), "
          "C16 scenes in the F17 class, and (while F-J2 is recorded) self-inconsistent Jolt GJK answers; the "
          "ORDER of tree-query pairs is not compared when a 'sort' batch has ties (numpy and numba argsort order equal keys differently). "
          "Known findings: C20-NORM-UNDERFLOW."),
    design_ref="DESIGN.md section 5, C20",
    technique="two-mode differential of a serialised call list (float and integer-scalar size arguments, float64 arrays) + fail-closed ast scan of captured globals/jit options + Coq index-safety theorems",
    note=TB + "; no axioms in Props/C20.v; numpy's and numba's argsort order equal keys differently: order of tree-query pairs is not compared when a 'sort' batch has ties; known-finding predicates of C10/C11/C16 imported for skipping; assumed input domain: array arguments float64 C-contiguous (as the property text says), scalar sizes float or integer",
)

CHECKS["C10"] = dict(
    category="proof",
    text=("(1) PROVED, Coq theorems (Props/C10.v, 30: 28 function theorems, C10_zero_common, one refutation; real-number axioms only) about the "
          "Gallina transliterations Model/DistPrim.v + DistPrimComb.v in exact real arithmetic, for ALL inputs meeting the documented "
          "preconditions: the returned points lie exactly on their primitives and d = |p1-p2| >= 0, hence d = 0 => a common point - for 28 of "
          "the 34 functions (16 leaves incl. point_to_triangle's 7 Ericson arms and the 9-arm segment/segment function; plane_to_rectangle / "
          "box / ellipsoid / cylinder; 8 combinators through every enumeration order and early exit). Qualifications carried by the "
          "statements: combinator theorems assume d < max_float; C10_triangle_to_triangle concludes only feasible_eps (d may be the literal 0 "
          "while |p1-p2| <= eps); C10_point_to_circle assumes circle_feasible_ok, and C10_point_to_circle_on_axis_refuted shows the returned "
          "point off the circle's plane for a point on the axis with 0 < |n_z| < 1e-7 (pytransform3d's eps; = known finding FD8); point_to_line_segment at s = e "
          "holds over R only because x/0 = 0 in Coq (code: NaN / ZeroDivisionError): the claim is for s <> e. No theorem: point_to_ellipsoid, "
          "line_to_circle, line_segment_to_circle, line_to_box, line_segment_to_box, disk_to_disk. (2) TIE to /repo on every run: ALL 34 "
          "functions are modelled (incl. the line/box case tree, the line/circle root finder, the ellipsoid Newton loop, disk_to_disk; the "
          "models follow /repo's fixes 257a214 and 5e40c4a) and "
          "evaluated in binary64 inside coqc on the very inputs of the implementation; d and every coordinate of every returned point must "
          "agree within 1e-9 L; non-unique minimisers (same d, the model's pair passes the oracle) and knife-edge inputs (model or "
          "implementation moves under a 2-ulp perturbation) are counted separately, anything else is a broken correspondence; model arm "
          "coverage and line / branch coverage of distance/*.py are printed. (3) JUDGED PER GENERATED INPUT "
          "only, all 34 functions, stratified streams random / far / lattice / touch / same / rotlat / shallow / small / coplanar / axis / "
          "aniso + corpus (quick tier: path-guided selection - a stratified pool per function is traced line by line in an interpreted run; "
          "kept are a stratified base, every candidate that raised and additions covering rarely executed lines first): 'points within 1e-9 L "
          "of their primitives, ||p1-p2| - d| <= 1e-6 L, d >= 0' follows "
          "from the Coq theorem Checker/Prim.c10_check_sound evaluated by vm_compute on exact rationals (witnesses untrusted; quick tier: "
          "corpus + every case the Python oracle rejects + the first 10 per function, the rest by the exact Python oracle alone; thorough: "
          "all); a second pass re-uses the same argument arrays overwritten in place (result must be bit-identical). Routing to known findings "
          "is by input-class predicate AND failure kind: F20 explains 'off-primitive' and 'inconsistent', F21 / FD4 / FD5 / FD8 'off-primitive' "
          "only; exception in compiled or interpreted mode / NaN / d < 0 / modified argument / dependence on the call history = failure and is "
          "never credited to a known finding. NOT proved: float rounding (measured "
          "by (2)); for 6 functions universality over inputs comes from generation only. Known findings (open): F20, F21, FD4, FD5, FD8; FD7 "
          "is fixed in /repo by 5e40c4a: no routing any more, its replay in corpus/C10 must pass. The default arguments of all 34 functions (19 "
          "values: epsilon, max_iter, distance_to_surface, signed) are re-read from the source on every run by a fail-closed ast reader and "
          "compared with what the models assume; every pooled candidate (about 8000 per quick run) is executed in the tracing run and screened "
          "by an untrusted float oracle, up to 16 suspicious candidates per function are always selected and then judged exactly."),
    design_ref="DESIGN.md section 5, C10",
    technique="Coq proof over R about a hand-written Gallina model + binary64 model/implementation correspondence (vm_compute) + Coq-proven result checker on generated inputs",
    note=TB + "; " + RA + "; harness/primlib.py (generators, witness construction, second-opinion exact Python oracle, which alone judges the non-sampled quick-tier cases)",
)
CHECKS["C11"] = dict(
    category="proof",
    text=("PROVED, Coq theorems for ALL inputs (Props/C11.v, 35: 28 function theorems, 2 general lemmas, 5 refutations; same models and "
          "preconditions as C10; real-number axioms only): no pair of points of the two primitives is closer than the returned d - for 28 of "
          "the 34 functions (the same 28 as C10: the 16 leaf functions, plane_to_rectangle / box / ellipsoid / cylinder, and 8 combinators via "
          "C11_clamp_of_convex_line_min - the convexity argument the code comments cite, proved abstractly -, the polygon-pair edge lemmas "
          "and, for C11_rectangle_to_box, 'a segment from a point inside a box to a point outside meets a face'). "
          "Every theorem carries the epsilon bands of the code's own tests as explicit hypotheses; inside the bands optimality is REFUTED with "
          "witnesses (C11_point_to_circle_in_band_refuted, C11_line_to_line_in_band_refuted, C11_line_to_line_segment_eps1_refuted, "
          "C11_line_to_rectangle_break_band_refuted, C11_line_segment_to_rectangle_break_band_refuted; the last two: error < 1e-6, inside the "
          "tolerance). No theorem: point_to_ellipsoid, line_to_circle, line_segment_to_circle, line_to_box, line_segment_to_box, disk_to_disk. "
          "JUDGED PER GENERATED INPUT only (documented epsilon bands excluded), all 34 functions, the streams and path-guided selection of C10 "
          "(incl. small / coplanar / axis / aniso): a separating-direction optimality certificate checked by the Coq-proven checker (sep_cert_sound; rational "
          "sqrt bounds for round shapes) evaluated by vm_compute on exact rationals - quick tier: corpus, every case the Python oracle rejects "
          "and the first 10 per function, the rest by the exact Python oracle alone; thorough: all - else a closer pair found by search (a "
          "targeted search over variants follows a broken correspondence) and re-verified exactly (=> failure), else 'undecided' (circle "
          "functions only; counted). TIE to the code, every run: the binary64 correspondence of the 34 models shared with C10 (d within 1e-9 "
          "L; the models follow /repo's fixes 257a214 and 5e40c4a). A failure is credited to a known finding only if the input is in the "
          "entry's class AND the binary64 model - a transliteration "
          "of the code, defects included - reproduces the implementation's result AND the failing result shows the defect's own signature "
          "(F10: clamp arm taken and the refuting pair sits at another point of the segment, model agreement may be 'unclear' under a 2-ulp "
          "perturbation; F11: one more round of the function's own alternating projection still decreases the distance; F22: d equals "
          "r1 + r2 - |c1 - c2|; F23: class predicate 0 < |d x n|^2 < 1e-20 only). NOT proved: float rounding; "
          "optimality for the 6 functions above rests on generation, for the non-convex circle functions on an exhaustive fine search "
          "(untrusted oracle). Known findings (open): F10, F11, F22, F23; FD6 is fixed in /repo by 257a214: no routing any more, its replay in "
          "corpus/C11 must pass. Case selection, the default-argument pin and the float-screened candidate pools are those of C10; a changed "
          "default also starts a targeted search (600 cases) on the functions it names; the aniso stream draws the sizes of ellipsoids, boxes, "
          "cylinders and rectangles independently over [0.01, 100]."),
    design_ref="DESIGN.md section 5, C11",
    technique="Coq proof of optimality over R about the Gallina model + Coq-proven separating-direction certificate checker on generated inputs + binary64 model/implementation correspondence",
    note=TB + "; " + RA + "; circle functions (non-convex): exhaustive fine search as untrusted oracle, labelled in the evidence; exact Python oracle alone for the non-sampled quick-tier cases",
)

CHECKS["C18"] = dict(
    category="proof",
    text=("PROVED in Coq (Props/C18.v, 28 theorems) about hand-written models of both solvers (Model/Simplex.v = Jolt "
          "get_closest_point_to_origin, Model/SimplexOrig.v = backup procedure of the original GJK with its cofactor table) in exact "
          "arithmetic. (1) Jolt closest_point_line, ALL real inputs: exact minimum-norm point outside the degenerate arm, which is within "
          "EPSILON and refuted as exact. (2) Jolt closest_point_triangle, non-degenerate branch, ALL real inputs: each of the 7 Voronoi arms "
          "returns the exact minimum-norm point and a subset whose hull contains it; degenerate branch (_partial): best of the three edges up "
          "to EPSILON; exactly collinear points: within EPSILON of the minimum. (3) Jolt tetrahedron, ALL real inputs: structure theorem; exact "
          "when the origin is strictly inside beyond the EPSILON band; _partial: exact for non-degenerate tetrahedra with the origin strictly "
          "outside and for flat tetrahedra with non-degenerate faces. (4) Original solver, 1-4 points, ALL real inputs: weights >= 0, sum 1, "
          "reproduce the returned point in the returned order, v in the hull (C18_orig_backup_valid); minimum-norm point for 2 and 3 points "
          "incl. collinear / duplicate points (Johnson's theorem), for EVERY flat tetrahedron, and (_partial) for every non-degenerate "
          "tetrahedron when the origin is not strictly inside or all four cofactors exceed EPSILON. (5) Finite domain, inside Coq (vm_compute + "
          "proven checker kkt_cert, slack 0): on ALL 551 880 configurations of 1-4 points with coordinates in {-1,0,1} both models return, in "
          "exact rational arithmetic, the exact minimum-norm point, a carrier subset and (original) exact weights. (6) REFUTED: the property is "
          "FALSE for both models on small regular tetrahedra around the origin (C18_orig_backup_refuted, C18_jolt_refuted = the two EPS-ABS "
          "findings). NOT proved for all reals: the zones of (6) (Jolt: origin inside the EPSILON band; original: origin strictly inside with a "
          "cofactor <= EPSILON - false there), Jolt tetrahedra with degenerate faces, triangles with 0 < |n|^2 < EPSILON^2; float rounding. "
          "JUDGED PER GENERATED INPUT only: every result of both solvers is judged by the Coq-proven integer certificates c18_z / bary_z "
          "evaluated by vm_compute on the exact binary64 inputs / outputs; witnesses: untrusted Python oracle. TIE to the code, every run: "
          "model = implementation on all outputs (bit-exact on exact streams where the model flags no near tie, stability-gated otherwise, "
          "ILLCOND classes skipped); model branch coverage 39/39 + 43/43. Known findings: C18-ORIG-EPS-ABS, C18-ORIG-ILLCOND, C18-JOLT-ILLCOND, "
          "C18-JOLT-EPS-ABS."),
    design_ref="DESIGN.md section 5, C18",
    technique="Coq proofs (R: lra/nra/field; Q/Z: vm_compute + proven certificate checkers) about Gallina models of both simplex solvers + per-run correspondence model(PrimFloat)/implementation on lattice, grid and real inputs",
    note=TB + "; Checker/KktZ.f2z decodes binary64 literals via the kernel's Prim2SF (per-case checksum recomputed in Python); untrusted Python oracle supplies witnesses only; BLAS/numba rounding differences are tolerated only where the model flags a near tie or is unstable under 2^-50 input perturbations; coqchk excludes the libraries that depend on the lattice enumerations (said in the evidence)",
)

CHECKS["C15"] = dict(
    category="proof",
    text=("PROVED in Coq (Props/C15.v, 25 theorems + 6 examples, PrimFloat-free; real-number axioms only). (a) Result checker: "
          "C15_poly_cert_sound - if the integer checker accepts the exact rationals of a returned tetrahedron-pair result, every polygon vertex "
          "lies on the reported plane, has barycentric coordinates >= -1e-9 in BOTH tetrahedra, the polygon is convex and counter-clockwise "
          "about the normal, the force is parallel to the normal and points along it; C15_sep_cert_sound certifies disjoint hulls. (b) About "
          "the Gallina model Model/Hydro.v (transliteration of _tetrahedron_intersection / _halfplanes / _forces: contact_plane, pre-check, "
          "make_halfplanes, intersect_halfplanes with its point buffer, filter_unique_points, polygon projection, same-tetrahedron branch, "
          "contact force), for ALL inputs - in ANY arithmetic: halfplanes_compact (returned rows = the valid half-planes in order), "
          "intersect_halfplanes_total (no out-of-bounds write or assertion failure; since f6c3926), intersect_halfplanes_sound / _complete: the "
          "returned points are exactly the pairwise intersections accepted by the model's OWN (in binary64: rounded) outside-test - NOT "
          "geometric completeness in binary64 (finding F26); over the reals: the plane has a unit normal and is exactly the equal-pressure set; "
          "every vertex of a reported polygon lies on the contact plane, has barycentric coordinate >= -EPSILON for every face with a "
          "half-plane row and > 0 for every exactly parallel face (_partial: projected normals of norm in (0, EPSILON] not covered); the 3-D "
          "arrangement vertices do not depend on the order of the two tetrahedra; one-sided pairs give intersection = False; the "
          "same-tetrahedron branch returns a point of the tetrahedron on its plane; the force is parallel to the normal; integrated pressure >= "
          "0 ONLY IF every polygon vertex is inside tetrahedron 1 and potentials / modulus are >= 0. JUDGED PER GENERATED INPUT only (the "
          "implementation): every reported pair (11 classes of single pairs; factory bodies through find_contact_surface, both broad phases, "
          "after call histories too) by poly_cert inside coqc on exact rationals, disjoint inputs by sep_cert; completeness (area = area of the "
          "exact rational intersection polygon) and order independence by Python oracles. TIE to the code, every run: the binary64 model run "
          "must reproduce every stage (scalar stages bit for bit, BLAS stages within 1e-9..1e-12, exact ties in a unit stream). A failure is "
          "credited to F26 only if the exact polygon has a vertex on >= 3 face planes AND the binary64 model reproduces the result bit for bit. "
          "Known findings: F26."),
    design_ref="DESIGN.md section 5, C15",
    technique="Coq-proven result checker (vm_compute on exact rationals of the implementation's output) + Coq proofs about a hand-written Gallina model + per-run stage-wise correspondence model(PrimFloat) vs implementation + exact rational reference polygon",
    note=TB + "; " + RA + "; harness/hydrogen.py (generators, exact rational reference polygon, F26 predicate concurrent_lines), harness/impl/c15.py, Python comparisons for order independence / completeness, coverage.py; pinv and the arctan2 ordering are inputs of the model",
)

CHECKS["C09"] = dict(
    category="translation_validation",
    text=("PROVED in Coq for all inputs (Props/C09.v, 10 theorems + 3 non-vacuity examples; real-number axioms only): (1) the collider-TYPE "
          "DISPATCH of gjk_nesterov_accelerated (Model/Nesterov.v: _has_specialized_support, select_support's found flag, which radii enter "
          "`inflation`, the exits that assign `distance` - `finish` is the single definition of all exits, EMaxIter = the cap exit of b028d6b, "
          "EDuplicate = the repeated-vertex exit of 6f5b38a -, the max(.,0) wrapper) is consistent for EVERY pair of the 11 collider classes "
          "(C09_dispatch_table, 121 type pairs): each collider equals the set handed to the loop inflated by its share of `inflation` "
          "(C09_nesterov_inflation_consistent), hence IF the loop converges to the true distance of the sets it was given THEN the wrapper "
          "returns the true distance of the original pair (C09_nesterov_distance_exact_if_loop_exact, via dist(S+B(r0),T+B(r1)) = "
          "max(dist(S,T)-r0-r1,0); conditional, speaks about the converged exit only); the hypotheses hold for the Spec/Shapes sphere and "
          "capsule sets (C09_sphere_wf, C09_capsule_wf); the logic before commit 4366de3 (F3) is REFUTED (C09_nesterov_inflation_old_refuted: "
          "unit sphere vs one-vertex hull returns 3, truth 4). (2) For the loop model (Model/NesterovLoop.v, which uses the same `finish`; "
          "over the reals, arbitrary set D given through the support pair of a pass): the early exit `omega > upper_bound` returns a lower "
          "bound of the distance of D (C09_nesterov_omega_exit_sound); PARTIAL: at the convergence exit the returned ray_len is within the "
          "relative tolerance of the distance of D GIVEN the two loop invariants - the current ray is a point of D of norm ray_len, alpha is a "
          "lower bound - whose preservation by the simplex projections is NOT proved (C09_nesterov_converged_exit_partial, with a concrete run "
          "as non-vacuity, C09_loop_exit_nonvacuous). (3) Soundness of the two result certificates: dist_cert "
          "(C09_original_result_certificate_sound, for gjk_distance_original: a, b within tau of their colliders, ||a-b|-d| <= tau, no pair "
          "closer than d - tau) and dist_values_cert (C09_value_certificate_sound: certified enclosure [lo,up] of the true distance from two "
          "untrusted member witnesses and one untrusted direction; every judged value within tau + (up-lo) of ANY g that is the distance). NOT "
          "proved: convergence / accuracy of the Frank-Wolfe loop and of Johnson's sub-algorithm (abstracted), the specialised support "
          "functions (box / ellipsoid / cylinder inflate factors abstracted in wf). TIED TO THE CODE on every run: Model/NesterovLoop.v (the "
          "whole loop: momentum branches, duality-gap and convergence exits, cap exit b028d6b, zero-direction fallback 41496a5, acceleration "
          "cut-off at max_interations // 4 (6bd22f2), repeated-support-vertex exit (6f5b38a), project_line / triangle / tetra_to_origin with "
          "all 46 leaves of the tree as repaired by e324618) is (a) replayed in binary64 inside coqc on the support pairs recorded from "
          "gjk_nesterov_accelerated, with `inflation` computed by the model's dispatch (every direction, number of passes, contact, distance "
          "to 1e-9, iteration count), (b) RUN as a full executable model of gjk_nesterov_accelerated_primitives (type-coded supports + loop) "
          "from get_minkowski_diff's tuple, (c) compared function by function with both modules' three projection routines on simplices "
          "directed at every reachable leaf of the tetrahedron tree (45 of 46; rewritten rows exactly); near-ties (the model's own discrete "
          "outcome changes under 1-10 ulp input perturbation) are excused and counted. JUDGED PER GENERATED INPUT only: gjk_distance_original "
          "by dist_cert at tau = 1e-3 L; gjk_nesterov_accelerated with / without acceleration, gjk_nesterov_accelerated_distance and the three "
          "*_primitives analogues by dist_values_cert (accepted within 1.02e-3 L; where gjk_distance_jolt's witnesses do not certify an "
          "enclosure - class of F-J2 - the original's or the construction's witnesses are used and the pair is printed as a note); iteration "
          "helpers == main entry. Generation: all 100 ordered kind pairs at TRUE distances {1e-6..100} and overlapping, every mixed "
          "specialised / generic pair incl. Margin-wrapped primitives (F3), 25 primitive pairs, needle / plate colliders (aspect 1e4; F-N1), "
          "exact lattice placements with parallel faces / shared axes (backup procedure of the original GJK), small smooth colliders in front "
          "of a big hull face (bigface; F-O1), general streams; a SEARCH stream in the class of F-N3 (moved_lattice: lattice scenes - cube "
          "mesh / hull / box against flat ellipse / disk and the other kinds - at plane gaps +-1e-6 / +-1e-3 / 0 / 1e-9 / 0.1 under one "
          "random rigid motion: 2400 quick / 24000 thorough candidates are run through gjk_distance_jolt and the two Nesterov settings only; "
          "every candidate on which they differ by more than tau/2 or one raises, plus a sample of 40 / 400 others, becomes an ordinary case "
          "judged by the Coq certificates with all operations - the search chooses what is judged, never the verdict); corpus = F-N1 (5), "
          "F-N2 (6), F-N3 (13), F-N4 (3), F-N5 (2) regressions. INVARIANT MONITOR for the partial theorem (measured on the code, not a proof "
          "of the invariants): on tetrahedra in GJK-reachable states (previous triangle projection interior, rows in the order "
          "origin_to_triangle leaves, new vertex strictly improving) directed at every leaf of the tree, |ray| returned by "
          "project_tetra_to_origin of BOTH modules must be the distance of the simplex from the origin, judged by dist_values_cert on "
          "Hull(simplex) vs {0} at tau = 1e-6 * size (92 quick / ~700 thorough tetrahedra, 37-41 of the 46 leaves; on the tree before "
          "e324618 it rejects all four wrong leaves). Known findings: none (F-N1 .. F-N5 and F-O1 are fixed in /repo and kept as corpus "
          "regressions)."),
    design_ref="DESIGN.md section 5, C09",
    technique="Coq proof of the Nesterov type dispatch (121 type pairs, F3 refuted) + Coq-proven result certificates (dist_cert, certified distance enclosure) evaluated by vm_compute on exact rationals of the implementations' outputs + executable Gallina model of the Nesterov loop replayed/run in binary64 against the code (traces, full primitives model, per-leaf unit correspondence of the simplex projections)",
    note=TB + "; " + RA + "; harness/narrow.py parts()/sh_expr/wit_expr (witnesses untrusted); harness/impl/narrowb*.py workers (recorders wrap module attributes of the worker process only); specialised supports of sphere/capsule modelled as core point/segment",
)
CHECKS["C19"] = dict(
    category="other",
    text=("THEOREM (Props/C19.v, 6 theorems + 2 non-vacuity examples, for all inputs; every data-dependent test of a loop body is an arbitrary "
          "oracle in Model/GjkCaps.v, so the bounds hold whatever geometry and floating point decide - a counting abstraction, not a model of "
          "the computations): the capped loops terminate and make at most f(caps) support evaluations (C19_capped_loops_bounded): "
          "gjk_intersection_libccd <= 2*pairs*max_iterations; epa <= evals_per_pass*max_iter; MPR portal discovery <= 2*pre + 2*cap_passes; "
          "mpr_penetration's _find_penetration_info <= 2*pen_passes; both Nesterov loops <= 2*(max_interations+1) (at most one `continue` "
          "ever: all three - duality gap, convergence test, repeated support vertex (6f5b38a) - switch the acceleration off, the cut-off of "
          "6bd22f2 only switches it off, nothing switches it on). TIE to the code: caps (default arguments), the comparison operator of every "
          "cap test, evaluations per pass (loop body AND module-level callees, both call forms; pinned counters), the continue structure "
          "(every `continue` under `if use_nesterov_acceleration:` after `use_nesterov_acceleration = False`; the flag is never assigned "
          "anything but False in the loop; the only other loop allowed inside is an inert `for k in range(..)` scan: no call, no break / "
          "continue / return, assigns scratch names only) and the absence of a cap in _refine_portal (C19_refine_portal_is_uncapped) are "
          "RE-READ from /repo on every run by a fail-closed ast reader (harness/narrow_caps.py -> Gen/NarrowCaps.v) and f(declared caps) <= "
          "1000 is re-proved (C19_default_caps_within_1000; today 200, 128, 204, 204+204, 258, 258). For the Jolt loop over exact REALS (the "
          "lead's Model/JoltLoop.v; real-number axioms): the loop continues only on a strict decrease of |v|^2 "
          "(C19_jolt_continues_only_on_strict_decrease, with a concrete continuing step) and, PARTIAL, it never runs out of fuel if the "
          "solver's values lie in a finite list (C19_jolt_terminates_if_finitely_many_values_partial; hypothesis true for polytopes by C18 but "
          "not discharged; bound far above 1000). NOT A THEOREM: termination / the 1000 bound of the `while True` loops of gjk_distance_jolt, "
          "gjk_intersection_jolt, gjk_distance_original and mpr._refine_portal in floating point - C19_uncapped_loops_unbounded proves that "
          "their control structure admits any number of evaluations; liveness there is MONITORED only. MONITORED PER GENERATED PAIR and entry "
          "point (10-12 per pair; self_collision.detect / detect_any on small BVHs): support evaluations <= 1000 and <= the proven bound of "
          "the capped loops (counter wrapping support_function); 20 s alarm per call (a timeout / dead worker / numba cache race is re-run "
          "alone with 120 s before it counts); every returned number finite except the documented MAX_FLOAT clip; no exception except EPA's "
          "`n_faces < max_faces` assertion on smooth shapes (on a pair of polytopes with a full simplex the same assertion is a failure: no "
          "finding is registered for it) - also when the same entry points run INTERPRETED (NUMBA_DISABLE_JIT=1, subset incl. primitive "
          "pairs), where the statement coverage of the seven narrow-phase modules reached by the generators is measured and printed (85-96 "
          "%); an interpreted batch of 1500 (quick) / 12000 (thorough) flat-ellipsoid primitive pairs runs both accelerated Nesterov loops "
          "with NUMBA_DISABLE_JIT=1 (index errors / unchecked stores of the jitted loops are only observable there). Streams: D, aspect "
          "ratios to 1e4, identical (copy / same object), nested, touching at 0, +-1e-12 .. 1e-4, zero-volume (vertex, segment, triangle, "
          "planar hull, disk, ellipse), lattice placements, big meshes with a small collider in front of a face (F-M1), axis-aligned boxes / "
          "cube meshes / cube hulls on a 0.25 grid (lattice_boxes), overlapping boxes / cubes in SYMMETRIC relative poses "
          "(symmetric_polytopes: concentric or 0.25-grid offsets, one rotated by 30..180 degrees about an axis / face diagonal / space "
          "diagonal: many faces of EPA's polytope visible at once in every order of the face array); corpus = F-J1 (fixed by 3066ace), F-M1, "
          "F-L1 (5), F-N2 (6), F-P1 (fixed by fdadc7f) regressions. Known findings: F2-C19, narrowed to EPA after a GJK exit with n_points < 4 "
          "whose returned work array contains UNINITIALISED rows (rows that are not differences of support points of that run; observed "
          "exactly; its manifestation depends on the heap and is shown on every run by a corpus input with a poisoned heap). A quarter of the pairs "
          "have one or both colliders brought to their placement by update_pose instead of the constructor."),
    design_ref="DESIGN.md section 5, C19",
    technique="Coq proof that every capped narrow-phase loop makes at most f(caps) support evaluations for arbitrary oracles, with caps and loop shapes re-extracted from the source each run (fail-closed ast reader); strict-decrease theorem for the Jolt loop over the reals; liveness / finiteness / exception policy of all entry points monitored on generated degenerate inputs, compiled and interpreted",
    note=TB + "; " + RA + " for the two Jolt theorems only; harness/narrow_caps.py (ast reader; counts support evaluations through module-level callees and pins every counter; NOT seen: calls through objects other than `<expr>.support_function`, dynamically bound names, callables passed as data); the support-evaluation counter wraps collider.support_function (the specialised Nesterov supports bypass it: there the returned iteration count is bounded instead)",
)

CHECKS["C07"] = dict(
    category="translation_validation",
    text=("Every success=True result of gjk -> epa is judged by Coq-proven result checkers (Checker/Pen.v; Props/C07.v, 9 theorems over R + 2 "
          "non-vacuity examples, real-number axioms only) evaluated by vm_compute on the exact rationals of the returned vector; A and B are the exact shape "
          "expressions of the floats given to the constructors. PROVED for ALL inputs: (1) touch_cert = true => after translating B by mtv some "
          "direction sees an extent of A-(B+mtv) of at most tau (residual overlap), a certified pair of points is within tau (remaining gap) "
          "and depth(A,B) <= |mtv| + tau; (2) depth_ge_cert = true => for EVERY direction n there are a in A, b in B with (a-b).n >= rho |n| "
          "(cone tree over the 8 octants, children provably covering the parent, each leaf closed by one certified point of A-B); with rho = "
          "|mtv| - tau no translation shorter than |mtv| - tau separates (C07_no_shorter_translation); (3) failure verdicts are certified too "
          "(too_long_cert, sep_cert). tau = 1e-6 L. About the hand-written model Model/Epa.v of the WHOLE loop (initial tetrahedron with the "
          "orientation step of 3c14c49, closest face, convergence test, visibility test, loose-edge bookkeeping, face removal, extension, "
          "fix_ccw, capacities as error values) over R, for all inputs, support mappings and capacities: C07_epa_exit_separates and "
          "C07_epa_success_upper (on success mtv = 0 or mtv lies along a unit direction n with no residual overlap along n and |mtv| = extent "
          "of A-B along n: an UPPER bound of the depth, given true support mappings), C07_epa_initial_polytope_outward. NOT proved: minimality "
          "of the exit direction (no polytope invariant of the expansion), Euclidean gap 0, termination, anything about EPA in floating point - "
          "decided per run by the certificates. TIE to the code: binary64 run of the model (Model/EpaRun.v) on vertex-hull pairs with 4 live "
          "simplex rows only (a minority of the cases, 226 of 1653 in the thorough tier; the hull x hull pairs of the `big` stream included): "
          "success flag, mtv (1e-9 L) and face count must agree where the "
          "model is stable under 1-4 ulp perturbations and np.argmin's margin exceeds 1e-9 L, otherwise only |mtv| (1e-6 L); about 1/3 unstable "
          "(lattice). JUDGED PER GENERATED INPUT only: everything else; trees, split directions, points and touching pairs are untrusted "
          "witnesses. Streams: depth / lattice / deep / nested / small / aligned and `big` (18 % of the cases: feature sizes 15 .. 100, "
          "penetration 1 .. 50 in ABSOLUTE units, so that a relative slack in one of EPA's absolute tests exceeds tau; curved x curved, curved "
          "x polytope, 12-30-vertex hulls / meshes / boxes, and `nearly_aligned` = a polytope against a slightly smaller copy of itself turned "
          "by 1e-6 .. 3e-4 rad or with every vertex moved by that relative amount: nearly - not exactly - coplanar vertex families of A-B), "
          "judged exactly like every other case. The depth LOWER bound is proven only for polytope pairs (tree size limit per tier); for smooth "
          "pairs only a certified "
          "refutation is searched. 'Small polytopes must succeed' is judged per case; both windings are run. Routing: F2 only if GJK stopped "
          "with n_points < 4 AND the same query re-run with the dead rows replaced by proper support points passes every certificate (or no "
          "tetrahedron exists and a dead row is bitwise not a support difference of this run). F19, NARROWED: capacity assertion on a "
          "polytope pair AND the rerun with enlarged capacities passes every certificate AND the face array returned by that rerun is a "
          "closed, duplicate-free triangle surface (every edge shared by exactly two triangles); otherwise VIOLATION ('the 64-slot face "
          "buffer was exhausted by faces that should have been removed'). Known findings: F2, F19."),
    design_ref="DESIGN.md section 5, C07",
    technique="Coq-proven result checkers (cone-tree certificate for the penetration depth, support-value bounds) evaluated by vm_compute on the implementation's exact outputs + theorems about a Gallina model of the EPA loop tied to the code by a binary64 correspondence run",
    note=TB + "; " + RA + "; harness/narrow.py parts(); the worker (harness/impl/narrowp.py) observes n_points by wrapping _distance_loop and reports duplicate triangles / open edges of the face array returned by epa (used by the F19 predicate); scipy only builds untrusted witnesses",
)
CHECKS["C08"] = dict(
    category="translation_validation",
    text=("Every mpr_penetration answer is judged by the Coq-proven checker pen_cert (Checker/PenMpr.v; Props/C08.v, 7 theorems + 2 non-vacuity "
          "examples, real-number axioms only) on exact rationals: depth t >= 0; ||u|^2 - 1| <= 1e-9, or u = 0 and t <= 2^-52; B moved by the exact rational t*u: "
          "some direction sees an extent <= tol (residual overlap); depth(A,B) <= t + tol (t is bounded from below only, by one witness "
          "direction: over-long depths are allowed by the property); the contact position within tol of a certified point of A and of B; 'not "
          "intersecting' answers: depth(A,B) <= tol. tol = 2e-3 L. PROVED for all inputs: soundness of pen_cert (C08_direction_sound, "
          "C08_result_certificate_sound, C08_not_intersecting_sound, C08_depth_lower_bound_sound). A failure needs the certificate rejected AND "
          "the harness' float oracle confirming with 1 % margin; it carries a proven refutation where one exists (sep_cert for the contact "
          "position, cone-tree depth_ge_cert for a too small depth on polytope pairs). Proved about the hand-written model Model/Mpr.v of the "
          "result-producing functions (_penetration_info, _find_penetration_touch / _segment, _contact_position, final norm_vector; "
          "point_to_triangle is the C10 model) over R, for all inputs: C08_mpr_depth_nonneg; C08_mpr_dir_unit_or_zero; "
          "C08_mpr_contact_in_both_partial (with non-negative weights the contact position is the midpoint of a point of A and a point of B - "
          "the sign of the weights and the distance of those points are NOT proved; the per-run certificate bounds them). TIE to the code, "
          "every run: the portal the query ended with (captured from the Simplex object) is replayed through the binary64 instance "
          "Model/MprRun.v; depth, direction and position must agree within 1e-9 L; and the HYPOTHESES of C08_mpr_contact_in_both_partial are "
          "checked on that final portal: every live row satisfies v = v1 - v2 (1e-12 L) with v1 within 1e-6 L of the first and v2 within "
          "1e-6 L of the second collider (harness float oracle); a violation is reported as a broken correspondence. NOT proved / not "
          "modelled here: portal discovery and "
          "refinement (C02 replays mpr_intersection traces through Model/GjkLibccd.v; here there is no branch trace to compare, the arms "
          "taken are only observed and counted), termination of _refine_portal (C19), float rounding. "
          "JUDGED PER GENERATED INPUT only: all of the above on generated overlapping and separated pairs (streams depth / lattice / deep / "
          "nested / small / aligned as in C07, concentric, coaxial, lattice_boxes, touch, gap, and `fewvert` = 20 % of the cases: tetrahedra, "
          "hulls / meshes with 5-8 vertices, boxes, aspect ratios down to 0.15, generic overlapping poses, BALANCED over the arms of the first "
          "_iterate_discover_portal call - replace v2 / replace v1 / portal complete, weights 2:1:1 - by redrawing candidates until a "
          "harness-side float replica of the discovery, untrusted and only steering generation, predicts the drawn arm); results are read only "
          "after two further unrelated MPR queries in the same process (aliasing of internal state is "
          "observed). F20 / F22 are credited only on the arm origin_on_v0v1_segment when nothing but the contact position fails (F20: centres "
          "within 1e-9 L; F22: a collider thinner than depth/2 along the direction). Known findings: F20, F22."),
    design_ref="DESIGN.md section 5, C08",
    technique="Coq-proven result checker evaluated by vm_compute on the implementation's exact outputs + theorems about a Gallina model of the result-producing functions tied to the code by a binary64 correspondence run on the final portal, whose rows are checked against the partial theorem's hypotheses",
    note=TB + "; " + RA + "; harness/narrow.py parts(); per-arm observation (incl. the replacement arms of _iterate_discover_portal) by wrapping module-level functions in the worker; the harness' float oracle gates failures (1 % margin) and checks the portal witness rows; c08.discovery_first_arm (float replica of portal discovery) only steers generation",
)

NA_DEFAULT = "no check registered yet: machinery under construction in this session (DESIGN.md section 5 has the plan); not claimed"
NA = {}


def main():
    checks = []
    for pid, c in CHECKS.items():
        checks.append(dict(
            property_id=pid,
            quick_cmd=f"./check {pid} --tier quick",
            thorough_cmd=f"./check {pid} --tier thorough",
            evidence_file=f"/verif/evidence/{pid}.json",
            replay_cmd_template=f"./check {pid} --replay {{path}}",
            engine="coq-model+correspondence",
            level_claimed=dict(category=c["category"], text=c["text"], design_ref=c["design_ref"]),
            level_note=c["note"],
            technique=c["technique"],
        ))
    m = dict(
        version=1,
        setup_cmd="./setup.sh",
        hooks=dict(
            guard="DISTANCE3D_VERIF",
            enable="no source hooks are needed: worker processes import /repo's modules directly (PYTHONPATH=/repo); DISTANCE3D_VERIF=1 is exported for them but nothing in /repo reads it",
            baseline_off_cmd="cd /repo && /venv/bin/python -m pytest -ra -q -p no:cacheprovider --timeout=900 --continue-on-collection-errors",
            source_commits=[], add_only=True),
        engines=[dict(name="coq-model+correspondence", path="/verif/check",
                      serves_properties=sorted(CHECKS),
                      kind_free_text="Coq 8.16 theorems about a hand-written Gallina model (coq/theories); the model is tied to /repo on every run by a correspondence check (model evaluated by vm_compute inside coqc vs implementation in worker processes) and by ast-extracted tables; Coq-proven result checkers judge outputs of iterative solvers")],
        checks=checks,
        notes="see DESIGN.md; fixes made in /repo are listed in known_findings.json",
        not_applicable=[dict(property_id=p["id"], reason=NA.get(p["id"], NA_DEFAULT))
                        for p in props if p["id"] not in CHECKS],
    )
    (V / "MANIFEST.json").write_text(json.dumps(m, indent=1))


if __name__ == "__main__":
    main()
