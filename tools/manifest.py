#!/usr/bin/env python3
"""Regenerate MANIFEST.json from the table below (keeps it valid and in sync)."""
import json
from pathlib import Path

V = Path(__file__).resolve().parent.parent
props = [json.loads(l) for l in open(V / "properties.jsonl")]

TB = ("Coq 8.16.1 kernel + vm_compute; axioms as printed by Print Assumptions in the evidence; "
      "hand-written Gallina model tied to /repo by the correspondence check run on every invocation "
      "(harness/*.py, worker processes importing /repo through harness/compat.py); numpy/numba/CPython")

CHECKS = {
    "C05": dict(
        category="proof",
        text=("Full-strength theorem on the model: for every history of insertion batches (any sizes incl. 0, any "
              "permutation order = none/sort/shuffle, with/without payload, any descent heuristic, any coordinate type "
              "with a transitive order and bounding min/max) box queries and tree-vs-tree queries return exactly the "
              "overlapping inserted (box, datum) multiset / pair set, without duplicates, never index outside the arrays "
              "and never run out of fuel (Props/C05.v, closed under the global context). The model is tied to "
              "distance3d/aabb_tree.py by exact structural correspondence on every run: after every batch root, "
              "filled_len, nodes, external data and boxes, and every query answer including its order, must be "
              "bit-identical between the PrimFloat instance evaluated inside coqc and the implementation; an "
              "independent brute-force oracle judges the implementation's answers and produces the replay."),
        design_ref="DESIGN.md section 5, C05",
        technique="Coq proof (zipper refinement of index arrays to binary trees) + exact structural correspondence",
        note=TB + "; float comparisons are a total preorder only without NaN (hypothesis; instance proved for Z); "
                  "the cost assertion inside insert_leaf is modelled as an error value and not proved unreachable",
    ),
}

CHECKS["C01"] = dict(
    category="translation_validation",
    text=("Proof-carrying results: every (d, a, b) returned by gjk_distance_jolt on generated pairs (all 10 collider kinds, Margin, "
          "lattice/degenerate/constructed-gap placements, polytope pairs in contact, flat/needle primitives, small colliders in front of big "
          "faces) is converted to exact rationals and judged inside coqc by dist_cert (Checker/Narrow.v); its Coq soundness theorem (Props/C01.v, "
          "over the reals, for arbitrary shape expressions) gives for that input exactly C01: a within tau of A, b within tau of B, "
          "||a-b|-d| <= tau, no pair of points closer than d - tau, some pair within d + 3 tau, tau = 1e-5 L. Theorems about the Gallina model "
          "of the loop itself (Model/JoltLoop.v: _distance_loop, calculate_closest_points, the driver), over the reals and for ARBITRARY sets "
          "given through support mappings: the P/Q/Y row relation and v_len_sq = |dir|^2 are invariants of every execution; the Clipped exit "
          "is sound; the duality-gap lower bound; the two classical GJK lemmas; the no-improvement exit reports the exact distance (partial: "
          "under two hypotheses about the simplex solver - its result is a minimum-norm point of the hull of its rows, the current closest point "
          "lies in the hull of the current rows - which C18 proves for the line and the non-degenerate triangle arms and REFUTES inside the "
          "solver's epsilon bands (C18_jolt_refuted); not discharged here). Tie model/code: the support points the implementation obtained in "
          "iteration i are replayed through step i of the model, which must reproduce every search direction, the iteration count, the exit and "
          "(d, a, b); a difference is excused only if the model's own discrete behaviour changes under ~1-10 ulp perturbations of the trace. "
          "NOT proved: accuracy of the relative-progress exit in binary64 (DESIGN section 7). Known finding F-J2 (the Jolt simplex solver's "
          "ill-conditioned classes reach the distance query), routed by replaying the trace and applying C18's exact predicates."),
    design_ref="DESIGN.md section 5, C01; sections 2.3, 9",
    technique="Coq-proven certificate checker evaluated by vm_compute on the implementation's outputs + Coq theorems about a Gallina model of the GJK loop tied to the code by support-trace replay",
    note=TB + "; harness/narrow.py parts() (collider spec -> shape expression) is trusted; witnesses are untrusted",
)

CHECKS["C03"] = dict(
    category="proof",
    text=("Proved in Coq for ALL inputs about the real-arithmetic instance of the hand-written model Model/Support.v of geometry.py / "
          "colliders.py / mesh.py (Props/C03.v, 41 theorems): for sphere, cylinder, capsule, ellipsoid, cone, disk, ellipse, box (np.sign form "
          "and 8-vertex Box collider), vertex hulls (first-maximal-index argmax) and Margin the returned point is a point of the closed set AND "
          "maximises x.d over it exactly, for every direction (d = 0 and zero components included) and every pose matrix (only the disk needs a "
          "unit normal); first_vertex() and center() of all ten kinds lie in the set. MeshGraph: the hill climb stops only at a vertex without a "
          "better neighbour and terminates on a closed adjacency; global maximality and independence of the cached start vertex are proved only "
          "under the explicit hypothesis LocalMaxGlobal on the input mesh (C03_mesh_*_partial; missing: that edge graphs of convex polytopes "
          "satisfy it). Per generated input (not universal): the implementation's answers are judged by an exact rational oracle (membership and "
          "s.d within 1e-9 L of the exact maximum) and compared with the binary64 run of the same model evaluated inside coqc (support value, "
          "full point where unique, vertex index, shortcut table, first_vertex, center; mesh query histories vs fresh objects)."),
    design_ref="DESIGN.md section 5, C03",
    technique="Coq proof over R about a hand-written Gallina model + model/implementation correspondence by vm_compute (PrimFloat) + exact rational oracle",
    note=TB + "; the per-input property oracle is an exact Python Fraction oracle (not Coq-extracted); IEEE rounding is measured, not modelled",
)
CHECKS["C04"] = dict(
    category="proof",
    text=("Proved in Coq for ALL inputs about the real-arithmetic model Model/Aabb.v of containment.py / the aabb() methods (Props/C04.v, 21 "
          "theorems): for sphere, box, cylinder, capsule, cone, disk, ellipse, vertex hulls, MeshGraph and Margin the returned box encloses the "
          "set and each of the six bounds is attained by a point of the set (orthonormal pose / unit normal, sizes >= 0); bounds equal the "
          "coordinates of support points along +-e_k; two sets that meet have overlapping boxes (broad-phase completeness). Ellipsoid: exact for "
          "the 48 signed permutation matrices; for general rotations the code's value never exceeds the true half extent and "
          "C04_ellipsoid_refuted exhibits a rotation where the box does not enclose (known finding F9). RigidBody.aabb(): exact for the stored "
          "body-frame vertices, C04_rigid_body_world_refuted (known finding RB-AABB). Per generated input: exact rational oracle on the six "
          "bounds (1e-9 L) and comparison with the binary64 model run inside coqc."),
    design_ref="DESIGN.md section 5, C04",
    technique="Coq proof over R about a hand-written Gallina model + model/implementation correspondence by vm_compute (PrimFloat) + exact rational oracle",
    note=TB + "; the per-input property oracle is an exact Python Fraction oracle; RigidBody.aabb() modelled as merge of per-tetrahedron boxes (C05 gives root box = merge)",
)
CHECKS["C13"] = dict(
    category="proof",
    text=("Proved in Coq for ALL inputs about the real-arithmetic model Model/Contain.v of containment_test.py (Props/C13.v, 21 theorems): for "
          "orthonormal poses, predicate = true <-> point of the closed set for sphere, capsule, ellipsoid, cylinder, cone, box; the disk predicate "
          "accepts exactly the slab of half width 10 eps around the disk; points_in_convex_mesh is exactly the intersection of the face "
          "half-spaces and accepts every point of the hull when faces are outward (PARTIAL: the converse needs the H=V representation theorem "
          "for the input triangulation). Cross-agreement with the models of point_to_box / point_to_cylinder / point_to_disk (distance 0 <-> "
          "contained) and with the support mappings of C03 (no contained point projects beyond the support value). Per generated input: exact "
          "rational classification in / out / band at 1e-9 L of the implementation's booleans, batch = single = reversed order, cross-checks "
          "against the implementation's own point_to_<shape> and support_function, comparison with the binary64 model run inside coqc."),
    design_ref="DESIGN.md section 5, C13",
    technique="Coq proof over R about a hand-written Gallina model + model/implementation correspondence by vm_compute (PrimFloat) + exact rational oracle",
    note=TB + "; convex meshes: faces from scipy ConvexHull verified exactly as supporting half-spaces; flat disk: only the False side is judged",
)
CHECKS["C14"] = dict(
    category="proof",
    text=("State-machine proof (Props/C14.v, closed under the global context): for every collider class incl. nested Margin wrappers, every "
          "construction pose and every finite history of update_pose / support / aabb / center / first_vertex / collider2origin operations with "
          "C-contiguous poses (fresh or item of a stack), the surviving object holds the same attribute data as one constructed at the last pose, "
          "all queries return equal results and none raises (no_type_error); the pre-fix Disk/Ellipse configuration is refuted. The numba "
          "signatures, update_pose bodies and call-site wrappers are re-extracted from /repo's sources on every run (Gen/CollidersTables.v) so the "
          "theorems are re-checked against the current code; numpy view/layout and numba dispatch rules are modelled and validated per run against "
          "arr.flags and raised exception types on generated histories, and observables are compared bitwise with fresh objects."),
    design_ref="DESIGN.md section 5, C14",
    technique="Coq proof by induction over operation histories on a model regenerated from the source (ast reader) + history correspondence",
    note=TB + "; harness/tables_c14.py (ast reader) is trusted; numerical kernels are abstract functions of attribute data in the model",
)
CHECKS["C17"] = dict(
    category="proof",
    text=("Proved in Coq (Props/C17.v, 25 theorems) about the Gallina model Model/TetMesh*.v whose tables (Gen/TetTables.v) are re-extracted from "
          "the source by a fail-closed ast reader on every run - FOR ALL INPUTS: (a) make_tetrahedral_box (all sizes > 0, all 7 reachable topology "
          "classes) and cube: every element has non-zero volume of the factory's orientation sign, volumes sum to sx*sy*sz, all vertices in the "
          "box, NO TWO ELEMENTS OVERLAP, potential = distance to the boundary (0 on corners, min half size on medial vertices) ('exact tiling' = "
          "disjoint + contained + equal volume; the measure-theoretic step 'hence no gaps' is not formalised); (b) icosphere, EVERY order: closed "
          "consistently oriented surface, cache key injective, vertices on the sphere; (c) cylinder, ANY n, arbitrary counter-clockwise rim "
          "points, all three classes: elements positively oriented, volumes sum to len * polygon area, no two elements overlap, potentials = "
          "inradius; capsule, any n and any number of cap circles: elements positive with explicit volume sum; (d) helpers: volumes, tightest "
          "AABBs, centre of mass = their definitions; RigidBody: after ANY sequence of reads / express_in the cached com / aabbs / "
          "tetrahedra_points / aabb() equal a direct computation on the current vertices; mesh_cert is sound. PER GENERATED INPUT only: volume "
          "sum = convex-hull volume for sphere/ellipsoid, libm cos/sin values, the rim-point hypotheses of the cylinder/capsule theorems, RigidBody "
          "read/express_in histories. Tie, every run: bit-exact binary64 run of the model vs the implementation for EVERY factory (vertices, "
          "elements, potentials), helpers, RigidBody twins and histories, class boundaries hit exactly; line coverage of the implementation "
          "measured (328/328, 12/12, 51/60)."),
    design_ref="DESIGN.md section 5, C17",
    technique="Coq proofs about a Gallina model (polynomial reflection, induction over sectors / subdivision order) with tables re-extracted from the source + bit-exact binary64 correspondence + proven certificate checker",
    note=TB + "; harness/tables_c17.py (ast reader) and harness/c17_oracle.py are trusted; numpy cos/sin evaluated by the harness for the model's trig inputs; scipy ConvexHull only as untrusted witness",
)

CHECKS["C02"] = dict(
    category="translation_validation",
    text=("Proved in Coq for all inputs (Props/C02.v): every collider shape expression denotes a convex set; para_cert (8 exact corners of a "
          "parallelepiped around p certified as members) and Deep.deep_cert (last Minkowski summand a ball) each imply that the ball of radius "
          "delta around p lies in the collider; overlap_cert = true => p is >= delta inside both colliders; gap_cert = true => all point pairs "
          "are >= delta apart; no pair carries both certificates; the separating-axis exit of the Jolt boolean loop model is sound. Judged per "
          "generated input only: for each pair whose certificate evaluates to true inside coqc (exact rationals of the constructor floats, "
          "untrusted witnesses), gjk_intersection_jolt, gjk_intersection_libccd, mpr_intersection, gjk_nesterov_accelerated_intersection (and the "
          "primitives variant on its accepted kinds) must answer True (overlap class) / False (gap class) and agree with gjk_distance_jolt. "
          "Tie to the code beyond the answers: Gallina models of gjk_intersection_libccd, mpr_intersection and the Jolt loop replay the support "
          "traces recorded from the implementation (every search direction, iteration count and answer must agree). The algorithms' accuracy in "
          "floating point is not proved."),
    design_ref="DESIGN.md section 5, C02; section 2.3",
    technique="Coq-proven ground-truth certificates (ball-in-collider by convexity, separating direction) evaluated by vm_compute + trace-replay correspondence of Gallina loop models",
    note=TB + "; harness/narrow.py parts()/sh_expr (collider -> shape expression) is trusted; witnesses are untrusted",
)
CHECKS["C06"] = dict(
    category="proof",
    text=("Machine-checked (Props/C06.v; the generic theorems are closed under the global context, the five theorems over the reals - no AssertionError in update_collider_poses / add_collider in exact arithmetic, real_order_ok, narrow_hypothesis_from_enclosure - use the standard-library real-number axioms) about the Gallina model Model/Bvh.v of BoundingVolumeHierarchy / "
          "self_collision.detect / detect_any / urdf_utils.self_collision_whitelists on top of the proven AABB-tree model, for ALL inputs and "
          "histories: (1) poses_current: after any sequence of add_collider, transform changes, whitelist updates and update_collider_poses ending "
          "with update_collider_poses, the tree holds exactly one leaf per registered collider with its current aabb and payload and every "
          "collider is at the transform manager's current transform (refuted with a witness when one object is registered under two frames); "
          "(2) the three broad-phase queries return exactly the entries / ordered pairs whose current AABBs overlap, without duplicates, minus "
          "whitelisted frames; (3) detect_spec / detect_spec_symmetric / detect_any_spec exactly as the property words them, completeness under "
          "the named hypothesis narrow_implies_aabb_overlap (C04's corollary; false for Ellipsoid colliders in /repo: known finding F9); (4) the generated whitelists = own link + last parent + last "
          "child. Judged per generated input: that the model IS the code - the real classes run on generated URDF chains/trees/stars with "
          "set_joint histories and every answer IN ORDER is compared with the model evaluated by vm_compute, plus an independent all-pairs "
          "brute force oracle. Collider kernels, IEEE rounding and pytransform3d are parameters of the model."),
    design_ref="DESIGN.md section 5, C06",
    technique="Coq proof of BVH/self-collision exactness (generic theorems without axioms) over the proven AABB-tree model + order-exact model/implementation correspondence + brute-force oracle",
    note=TB + "; pytransform3d (URDF parser, TransformManager) as source of poses; Python dict order = insertion order",
)
CHECKS["C12"] = dict(
    category="proof",
    text=("Theorems over the reals (Props/C12.v): dist_ge, dist_le, intersect, is_support and the distance given by its two defining inequalities "
          "are invariant under one rigid motion applied to both sets, symmetric in the arguments and scale with a uniform scaling; hence any "
          "function validated to return the distance within tau on a scene and tau' on its moved / swapped / scaled copy returns values that "
          "differ by at most tau + tau' (the formal reason the iterative solvers, validated per input by C01, C07-C09, inherit C12). Pose algebra "
          "of utils.py: round-trip, involution, composition laws. For the modelled closed-form layer the model's output is equivariant as an "
          "equality (support functions of all kinds, vertex hull argmax, Margin, mesh hill climbing, containment predicates, distance leaves); "
          "AABBs are not invariant (stated). Per generated input (not a theorem): every scene (all collider kinds through all GJK flavours, MPR, "
          "EPA; the 34 distance functions) is run in four forms - original, swapped, moved, scaled - and distances, depths, booleans outside the "
          "band, points, directions and mtv are compared with the tolerance of the specifying property; where the optimum is not unique the "
          "verdict uses consequences that hold for any optimal answer (membership by the Coq-proven in_shape_tol)."),
    design_ref="DESIGN.md section 5, C12",
    technique="Coq proofs of spec-level invariance + model equivariance; metamorphic differential of paired implementation runs with Coq-proven membership checker",
    note=TB + "; harness transform_spec / primlib.rigid build the moved scene in floats; known-finding input classes of C07/C10/C11 are skipped and counted",
)
CHECKS["C16"] = dict(
    category="proof",
    text=("Proved for all inputs (Coq, over the reals, about the Gallina model Model/HydroWrench.v of accumulate_wrenches / _transform_wrenches): "
          "the two world-frame forces are exactly opposite for every contact surface and every frame2world (C16_action_reaction) and the further "
          "wrench-algebra statements exported in Props/C16.v. Judged per generated input (pairs of RigidBody.make_* bodies at arbitrary poses of "
          "both bodies, common rigid motions, swapped order, repeated and interleaved calls, both broad phases): swap symmetry, equivariance "
          "under a common motion, reproducibility of repeated calls within 5 % of the force magnitude with unchanged intersection flag; tree and "
          "brute-force broad phase give identical pair sets. Tie to the code: the binary64 instance of the model's accumulate_wrenches is run in "
          "coqc on the implementation's own contact surface, express_in on vertex samples, f12 == -f21 bit for bit, every cached property of "
          "body 1 equals that of a body rebuilt from its current vertices after every call. Known finding F17 (rounding-noise plane normal)."),
    design_ref="DESIGN.md section 5, C16",
    technique="Coq proof about a Gallina model of the wrench accumulation + per-run correspondence (PrimFloat model vs implementation) + 5 % symmetry/equivariance measurements",
    note=TB + "; harness/hydrogen.py generators; Python comparisons for the 5 % verdicts",
)
CHECKS["C20"] = dict(
    category="other",
    text=("Differential between two executions of one serialised call list - numba JIT as installed vs NUMBA_DISABLE_JIT=1, separate processes - "
          "over every family of jitted public code (utils, geometry support functions, containment boxes and predicates, AABB helpers, GJK simplex "
          "kernels, half-plane kernels, the 34 distance functions, collider pairs through all GJK flavours / MPR / EPA, MeshGraph support "
          "sequences, AABB tree histories incl. empty-tree queries, and cases of the C06 / C14 / C15 / C16 generators): closed forms agree to 1e-9 "
          "relative, iterative solvers within the tolerance of C01/C07-C09, booleans / index sets / result structure / exception types identical; "
          "a crash, hang or exception in one mode only is a failure. Static side (every run, fail-closed ast scan): every njit function with the "
          "module-level globals it captures; none is rebound or mutated; no jit option other than cache=True. Theorems (Props/C20.v): for every "
          "insertion history the AABB tree model never indexes outside its arrays (the side condition under which checked and unchecked indexing "
          "coincide), the empty tree is answered without indexing. Equivalence of arbitrary compiled code is out of reach (no numba/LLVM "
          "semantics). Known finding C20-NORM-UNDERFLOW."),
    design_ref="DESIGN.md section 5, C20",
    technique="two-mode differential of a serialised call list + fail-closed ast scan of captured globals/jit options + Coq index-safety theorems",
    note=TB + "; numpy's and numba's argsort order equal keys differently: order of tree-query pairs is not compared when a 'sort' batch has ties",
)

CHECKS["C10"] = dict(
    category="proof",
    text=("(1) Coq theorems about the Gallina transliterations Model/DistPrim.v + DistPrimComb.v in exact real arithmetic, for ALL inputs meeting "
          "the documented preconditions: the returned points lie exactly on their primitives, d = |p1-p2| >= 0, and d = 0 => a common point - "
          "for 26 of the 34 functions (16 leaves incl. point_to_triangle's 7 Ericson arms and the unconditional 9-arm segment/segment function, "
          "plane_to_rectangle/box, and 8 combinators through every enumeration order and early exit); Props/C10.v. (2) Tie to /repo on every "
          "run: ALL 34 functions are modelled (incl. the line/box case tree, the line/circle root finder, the ellipsoid Newton loop, "
          "disk_to_disk) and evaluated in binary64 inside coqc on the very inputs of the implementation; d and every coordinate of every "
          "returned point must agree within 1e-9 L; model arm coverage and line/branch coverage of distance/*.py reached by the generated "
          "calls are printed. (3) Per generated input, all 34 functions: 'points within 1e-9 L of their primitives, ||p1-p2| - d| <= 1e-6 L, "
          "d >= 0' is a consequence of the Coq theorem Checker/Prim.c10_check_sound evaluated by vm_compute on exact rationals (witnesses "
          "untrusted); an exact Python oracle runs as second opinion. Exception / NaN / modified argument = failure. NOT proved: float "
          "rounding (measured by (2)); for 8 functions universality over inputs comes from generation only. Known findings F20 F21 FD4 FD5."),
    design_ref="DESIGN.md section 5, C10",
    technique="Coq proof over R about a hand-written Gallina model + binary64 model/implementation correspondence (vm_compute) + Coq-proven result checker on every generated input",
    note=TB + "; harness/primlib.py (generators, witness construction, second-opinion oracle)",
)
CHECKS["C11"] = dict(
    category="proof",
    text=("Theorems for ALL inputs (same models and preconditions as C10): no pair of points of the two primitives is closer than the returned d, "
          "for 25 of the 34 functions (the 16 leaf functions, plane_to_rectangle/box, and 7 combinators via clamp_of_convex_line_min - the "
          "convexity argument the code comments cite, proved abstractly - and the polygon-pair edge lemmas); every theorem carries the epsilon "
          "bands of the code's own tests as explicit hypotheses, inside the bands the failure is refuted with a witness (Props/C11.v). Per "
          "generated input (documented epsilon bands excluded), all 34 functions: a separating-direction optimality certificate checked by the "
          "Coq-proven checker (sep_cert_sound; rational sqrt bounds for round shapes), else a closer pair found by search and re-verified "
          "exactly (=> failure), else 'undecided' (circle functions only; counted). Known findings F10 F11 F22 F23 (circle / disk functions)."),
    design_ref="DESIGN.md section 5, C11",
    technique="Coq proof of optimality over R about the Gallina model + Coq-proven separating-direction certificate checker on every generated input",
    note=TB + "; circle functions (non-convex): exhaustive fine search as untrusted oracle, labelled in the evidence",
)

CHECKS["C18"] = dict(
    category="proof",
    text=("Proved in Coq about hand-written models of both simplex solvers (Model/Simplex.v = Jolt get_closest_point_to_origin with all helpers, "
          "Model/SimplexOrig.v = backup procedure of the original GJK with the cofactor table, from_*, reorder) in exact arithmetic: (1) Jolt "
          "closest_point_line is the exact minimum-norm point of the segment for ALL real inputs; (2) Jolt closest_point_triangle, non-degenerate "
          "branch: for ALL real inputs each of the 7 Voronoi arms returns the exact minimum-norm point and a subset whose hull contains it; "
          "(3) original solver, 1-4 points, ALL real inputs: weights >= 0, sum 1, reproduce the returned point from the selected points in the "
          "returned order, v in the hull; its backup procedure is OPTIMAL for all real inputs with 2 and 3 points (collinear / duplicate points "
          "included; Johnson's theorem) and for 4 points on every non-degenerate tetrahedron when the origin is not strictly inside or all four "
          "cofactors exceed EPSILON (partial: the excluded zone is exactly where C18_orig_backup_refuted shows the code wrong); Jolt tetrahedron: "
          "exact when the origin is strictly inside beyond the band or strictly outside a non-degenerate tetrahedron (ray argument); (4) finite-domain theorems checked inside Coq (vm_compute + proven checker, slack 0): for EVERY "
          "configuration of 1-4 points with coordinates in {-1,0,1} (551 880 configurations) both models return the exact minimum-norm point, a "
          "carrier subset and (original) exact weights; (5) the property is FALSE for both models in exact arithmetic on small regular tetrahedra "
          "around the origin (C18_orig_backup_refuted, C18_jolt_refuted = known findings C18-*-EPS-ABS). NOT proved for all reals: degenerate / in-band tetrahedra of both solvers "
          "(covered by (4) on the lattice and per generated input). Judged per generated input: every implementation result of both solvers "
          "is accepted / rejected by the Coq-proven integer certificate (c18_z / bary_z) evaluated by vm_compute on the exact values of the "
          "binary64 inputs / outputs; model = code is checked per input on all outputs (bit-exact on exact streams, stability-gated otherwise), "
          "model branch coverage 39/39 + 43/43 on every quick run."),
    design_ref="DESIGN.md section 5, C18",
    technique="Coq proofs (R: lra/nra/field; Q/Z: vm_compute + proven certificate checkers) about Gallina models of both simplex solvers + per-run model/implementation correspondence",
    note=TB + "; Checker/KktZ.f2z decodes binary64 literals via the kernel's Prim2SF; untrusted Python oracle supplies witnesses only",
)

CHECKS["C15"] = dict(
    category="proof",
    text=("Proved in Coq (Props/C15.v). (a) Result checker poly_cert_sound: whenever the integer checker accepts the exact rationals of what the "
          "implementation returned for a tetrahedron pair, every polygon vertex lies on the reported plane, has barycentric coordinates >= -1e-9 "
          "in BOTH tetrahedra, the polygon is convex and counter-clockwise about the normal with fan area >= 0, the force is parallel to the normal "
          "with pressure >= 0; sep_cert_sound certifies disjoint hulls. (b) About the Gallina model Model/Hydro.v (line-by-line transliteration of "
          "contact_plane, the plane-crossing pre-check, make_halfplanes with its row bookkeeping, intersect_halfplanes, filter_unique_points, "
          "project_polygon_to_3d, intersect_tetrahedron_pair, compute_contact_force), for ALL inputs: halfplanes_compact (the F14 property), "
          "intersect_halfplanes sound and complete in exact arithmetic, the vertex set is characterised without the 2-D basis and is identical "
          "for the swapped call, the plane is the equal-pressure set with unit normal, every reported vertex lies on the plane and inside every "
          "non-parallel face of both tetrahedra (parallel faces: pre-check theorem; _partial), one-sided pairs give intersection = False, pressure "
          ">= 0. Judged per generated input: every reported pair (11 classes of single pairs, factory bodies through find_contact_surface with "
          "both broad phases) by poly_cert in coqc on exact rationals; completeness against the exact rational intersection polygon and order "
          "independence by Python oracles; the binary64 model run must reproduce every stage. Known finding F26 (vertices on concurrent face "
          "lines lost by the absolute tolerance)."),
    design_ref="DESIGN.md section 5, C15",
    technique="Coq-proven result checker (vm_compute on exact rationals) + Coq proofs about a hand-written Gallina model + stage-wise model/implementation correspondence + exact rational reference polygon",
    note=TB + "; harness/hydrogen.py (generators, exact reference polygon, F26 predicate); pinv and arctan2 ordering are inputs of the model",
)

CHECKS["C09"] = dict(
    category="translation_validation",
    text=("Proved in Coq for all inputs (Props/C09.v): (1) the collider-type dispatch of gjk_nesterov_accelerated (Model/Nesterov.v: "
          "specialised supports, found flag, inflation, the exits that assign `distance`, the max(.,0) wrapper) is consistent for EVERY pair of "
          "the 11 collider classes: each collider equals the set handed to the loop inflated by its share of `inflation`, hence IF the loop "
          "converges to the true distance of the sets it was given THEN the wrapper returns the true distance of the original pair; the logic "
          "before commit 4366de3 (F3) is refuted with a witness; (2) soundness of the result certificates dist_cert (gjk_distance_original) and "
          "dist_values_cert (certified enclosure of the true distance from untrusted witnesses). Tie to the code: executable Gallina models of the "
          "whole Nesterov loop (three projections incl. the tetrahedron tree, acceleration branches, cap exit) and of "
          "gjk_nesterov_accelerated_primitives replay the support traces recorded from the implementation (every pass must agree). The "
          "Frank-Wolfe convergence and Johnson's sub-algorithm are not proved. Judged per generated input only: gjk_distance_original by dist_cert "
          "at 1e-3 L; the Nesterov family with and without acceleration and the primitives analogues by dist_values_cert; iteration helpers == "
          "main entry; all 100 ordered kind pairs at prescribed true distances and overlapping, every mixed specialised/generic pair, "
          "needle/plate colliders."),
    design_ref="DESIGN.md section 5, C09",
    technique="Coq proof of the Nesterov type dispatch + Coq-proven result certificates evaluated by vm_compute on exact rationals + trace-replay correspondence of Gallina loop models",
    note=TB + "; harness/narrow.py parts()/sh_expr/wit_expr (witnesses untrusted); specialised supports of sphere/capsule modelled as core point/segment",
)
CHECKS["C19"] = dict(
    category="other",
    text=("THEOREM (Props/C19.v, for all inputs; every data-dependent test of a loop body is an arbitrary oracle in Model/GjkCaps.v): the capped "
          "loops terminate and make at most f(caps) support evaluations (libccd, EPA, MPR portal discovery, mpr_penetration, both Nesterov "
          "loops); the caps (default arguments), the comparison operator of every cap test, the evaluations per pass and the absence of a cap in "
          "_refine_portal are RE-READ from /repo on every run by a fail-closed ast reader (Gen/NarrowCaps.v) and f(declared caps) <= 1000 is "
          "re-proved. NOT A THEOREM: termination of the `while True` loops of the Jolt GJK, the original GJK and mpr._refine_portal - "
          "C19_uncapped_loops_unbounded proves that their control structure admits any number of evaluations; for the Jolt loop model over exact "
          "reals it IS proved that the loop continues only on a strict decrease of |v|^2 and (partial) that it never runs out of fuel if the "
          "solver's values lie in a finite list; floating-point liveness is MONITORED only. Monitored per generated pair and entry point (all GJK "
          "flavours, boolean tests, Nesterov, MPR, EPA, self-collision on small BVHs): support evaluations <= 1000 and <= the proven bound of "
          "the capped loops, per-call alarm (a timeout is re-run alone before it counts), every returned number finite except the documented "
          "MAX_FLOAT clip, no exception except EPA's capacity assertion; streams: aspect ratios to 1e4, identical, nested, touching, zero-volume, "
          "lattice placements, big meshes with a face-normal direction (F-M1). Known finding F2-C19."),
    design_ref="DESIGN.md section 5, C19",
    technique="Coq proof that every capped narrow-phase loop makes at most f(caps) support evaluations for arbitrary oracles, caps and loop shapes re-extracted from the source each run; liveness/finiteness/exception policy monitored on generated degenerate inputs",
    note=TB + "; harness/narrow_caps.py (ast reader); the support-evaluation counter wraps collider.support_function",
)

CHECKS["C07"] = dict(
    category="translation_validation",
    text=("Every success=True result of gjk -> epa is judged by Coq-proven result checkers (Checker/Pen.v, theorems in Props/C07.v) evaluated by "
          "vm_compute on the exact rationals of the returned vector; A and B are the exact shape expressions of the floats given to the "
          "constructors. Proved for ALL inputs: (1) touch_cert = true => after translating B by mtv some direction sees an extent of A-(B+mtv) of "
          "at most tau (residual overlap), a certified pair of points is within tau (remaining gap), and depth(A,B) <= |mtv| + tau; (2) "
          "depth_ge_cert = true => for EVERY direction n there are a in A, b in B with (a-b).n >= rho |n| (a cone-tree certificate: the octants are "
          "split until one certified point of A-B serves a whole cone; the children provably cover the parent) - with rho = |mtv| - tau: no "
          "translation shorter than |mtv| - tau separates; (3) failure verdicts are certified too (too_long_cert, sep_cert). tau = 1e-6 L. Judged "
          "per generated input only: everything about EPA itself - there is no model of the EPA loop; trees, split directions, points and touching "
          "pairs are untrusted witnesses. The depth LOWER bound is proven only for polytope pairs; for smooth pairs only a certified refutation is "
          "searched. 'Hulls, boxes and small meshes must succeed' is judged per case; both simplex windings are run. Known findings F2, F19."),
    design_ref="DESIGN.md section 5, C07",
    technique="Coq-proven result checkers (cone-tree certificate for the penetration depth, support-value bounds) evaluated by vm_compute on the implementation's exact outputs",
    note=TB + "; harness/narrow.py parts(); the worker observes n_points by wrapping _distance_loop; scipy only builds untrusted witnesses",
)
CHECKS["C08"] = dict(
    category="translation_validation",
    text=("Every mpr_penetration answer is judged by the Coq-proven checker pen_cert (Checker/PenMpr.v, Props/C08.v) on exact rationals: depth "
          "t >= 0, ||u|^2 - 1| <= 1e-9 or (t = 0 and u = 0); B moved by the exact rational t*u: some direction sees an extent <= tol (residual "
          "overlap); depth(A,B) <= t + tol; the contact position within tol of a certified point of A and of B; 'not intersecting' answers: "
          "depth(A,B) <= tol. tol = 2e-3 L. Soundness of pen_cert is proved for all inputs; failure verdicts carry a proven refutation where one "
          "exists (sep_cert, cone-tree depth_ge_cert on polytope pairs). Proved about the hand-written model Model/Mpr.v of the result-producing "
          "functions over R, for all inputs: mpr_depth_nonneg; mpr_dir_unit_or_zero; mpr_contact_in_both_partial (if the weights are >= 0 the "
          "contact position is the midpoint of a point of A and a point of B - sign and distance are what the per-run certificate bounds). No "
          "model of portal discovery / refinement in this check (C02 replays mpr_intersection traces). Results are read only after two further "
          "unrelated MPR queries in the same process (aliasing of internal state is observed). Known findings F20, F22."),
    design_ref="DESIGN.md section 5, C08",
    technique="Coq-proven result checker evaluated by vm_compute on the implementation's exact outputs + theorems about a Gallina model of the result-producing functions",
    note=TB + "; harness/narrow.py parts(); per-arm observation by wrapping module-level functions in the worker",
)

NA_DEFAULT = "no check registered yet: machinery under construction in this session (DESIGN.md section 5 has the plan); not claimed"
NA = {}


def main():
    checks = []
    for pid, c in CHECKS.items():
        checks.append(dict(
            property_id=pid,
            quick_cmd=f"./check {pid} --tier quick",
            thorough_cmd=f"./check {pid} --tier thorough",
            evidence_file=f"/verif/evidence/{pid}.json",
            replay_cmd_template=f"./check {pid} --replay {{path}}",
            engine="coq-model+correspondence",
            level_claimed=dict(category=c["category"], text=c["text"], design_ref=c["design_ref"]),
            level_note=c["note"],
            technique=c["technique"],
        ))
    m = dict(
        version=1,
        setup_cmd="./setup.sh",
        hooks=dict(
            guard="DISTANCE3D_VERIF",
            enable="no source hooks are needed: worker processes import /repo's modules directly (PYTHONPATH=/repo); DISTANCE3D_VERIF=1 is exported for them but nothing in /repo reads it",
            baseline_off_cmd="cd /repo && /venv/bin/python -m pytest -ra -q -p no:cacheprovider --timeout=900 --continue-on-collection-errors",
            source_commits=[], add_only=True),
        engines=[dict(name="coq-model+correspondence", path="/verif/check",
                      serves_properties=sorted(CHECKS),
                      kind_free_text="Coq 8.16 theorems about a hand-written Gallina model (coq/theories); the model is tied to /repo on every run by a correspondence check (model evaluated by vm_compute inside coqc vs implementation in worker processes) and by ast-extracted tables; Coq-proven result checkers judge outputs of iterative solvers")],
        checks=checks,
        notes="see DESIGN.md; fixes made in /repo are listed in known_findings.json",
        not_applicable=[dict(property_id=p["id"], reason=NA.get(p["id"], NA_DEFAULT))
                        for p in props if p["id"] not in CHECKS],
    )
    (V / "MANIFEST.json").write_text(json.dumps(m, indent=1))


if __name__ == "__main__":
    main()
