#!/usr/bin/env python3
"""Regenerate MANIFEST.json from the table below (keeps it valid and in sync)."""
import json
from pathlib import Path

V = Path(__file__).resolve().parent.parent
props = [json.loads(l) for l in open(V / "properties.jsonl")]

TB = ("Coq 8.16.1 kernel + vm_compute; axioms as printed by Print Assumptions in the evidence; "
      "hand-written Gallina model tied to /repo by the correspondence check run on every invocation "
      "(harness/*.py, worker processes importing /repo through harness/compat.py); numpy/numba/CPython")

CHECKS = {
    "C05": dict(
        category="proof",
        text=("Full-strength theorem on the model: for every history of insertion batches (any sizes incl. 0, any "
              "permutation order = none/sort/shuffle, with/without payload, any descent heuristic, any coordinate type "
              "with a transitive order and bounding min/max) box queries and tree-vs-tree queries return exactly the "
              "overlapping inserted (box, datum) multiset / pair set, without duplicates, never index outside the arrays "
              "and never run out of fuel (Props/C05.v, closed under the global context). The model is tied to "
              "distance3d/aabb_tree.py by exact structural correspondence on every run: after every batch root, "
              "filled_len, nodes, external data and boxes, and every query answer including its order, must be "
              "bit-identical between the PrimFloat instance evaluated inside coqc and the implementation; an "
              "independent brute-force oracle judges the implementation's answers and produces the replay."),
        design_ref="DESIGN.md section 5, C05",
        technique="Coq proof (zipper refinement of index arrays to binary trees) + exact structural correspondence",
        note=TB + "; float comparisons are a total preorder only without NaN (hypothesis; instance proved for Z); "
                  "the cost assertion inside insert_leaf is modelled as an error value and not proved unreachable",
    ),
}

CHECKS["C01"] = dict(
    category="translation_validation",
    text=("Proof-carrying results: every (d, a, b) returned by gjk_distance_jolt on generated pairs (all 10 collider kinds, "
          "Margin, lattice/degenerate/constructed-gap placements) is converted to exact rationals and judged inside coqc by "
          "dist_cert (Checker/Narrow.v); its Coq soundness theorem (Props/C01.v, over the reals, for arbitrary shape expressions) "
          "gives for that input exactly C01: a within tau of A, b within tau of B, ||a-b|-d| <= tau, no pair of points closer "
          "than d - tau, some pair within d + 3 tau, tau = 1e-5 L. The checker and its soundness are proved once for all inputs; "
          "universality over inputs comes from generation. No theorem about the floating-point GJK loop itself (DESIGN section 7)."),
    design_ref="DESIGN.md section 5, C01; section 2.3",
    technique="Coq-proven certificate checker (separating direction + membership witnesses) evaluated by vm_compute on the implementation's outputs",
    note=TB + "; harness/narrow.py parts() (collider spec -> shape expression) is trusted; witnesses are untrusted",
)

INTERIM = " (Props file being completed in this session: the listed theorems are those already exported there; further proved lemmas live in Proofs/*.v)"
CHECKS["C03"] = dict(
    category="proof",
    text=("Theorems over the reals about the Gallina transliteration Model/Support.v of every support mapping (is_support: membership and "
          "extremality, all directions incl. zero components) exported in Props/C03.v; mesh hill climbing under the explicit hypothesis "
          "LocalMaxGlobal on the input mesh (partial). Tie to /repo: the binary64 instance of the same model is compared with "
          "collider.support_function / first_vertex / center on generated colliders (10 kinds, Margin, lattice and sign-boundary directions, "
          "mesh query histories vs fresh objects) at 1e-9 L, and an exact rational oracle judges the implementation's answers." + INTERIM),
    design_ref="DESIGN.md section 5, C03",
    technique="Coq proof over R about a hand-written model + model/implementation correspondence by vm_compute (PrimFloat) + exact rational oracle",
    note=TB + "; the per-input property oracle is an exact Python Fraction oracle (not Coq-extracted); IEEE rounding is measured, not modelled",
)
CHECKS["C04"] = dict(
    category="proof",
    text=("Theorems over the reals about Model/Aabb.v (transliteration of containment.*_aabb and the aabb() wrappers): enclosure and per-axis "
          "tightness for orthonormal poses, and the corollary that intersecting sets have overlapping AABBs (Props/C04.v). ellipsoid_aabb for "
          "general rotations and RigidBody.aabb() in the world frame are refuted in Coq and recorded as known findings F9 / RB-AABB. Tie to "
          "/repo: binary64 instance of the model vs collider.aabb()/containment functions on generated colliders (six bounds at 1e-9 L) and "
          "an exact rational oracle (support values along +-e_k)." + INTERIM),
    design_ref="DESIGN.md section 5, C04",
    technique="Coq proof over R about a hand-written model + model/implementation correspondence by vm_compute (PrimFloat) + exact rational oracle",
    note=TB + "; the per-input property oracle is an exact Python Fraction oracle; RigidBody.aabb() modelled as merge of per-tetrahedron boxes (C05 gives root box = merge)",
)
CHECKS["C13"] = dict(
    category="proof",
    text=("Theorems over the reals about Model/Contain.v (the eight points_in_* predicates per point): predicate = true <-> point in the closed "
          "shape, for orthonormal poses (Props/C13.v). Tie to /repo: binary64 instance of the model vs the implementation on generated shapes "
          "and point batches (features, boundary pushes at +-k 1e-9 L), booleans compared wherever an exact rational oracle certifies the "
          "1e-9 L margin; cross-agreement with point_to_<shape> distances and support functions is checked per input." + INTERIM),
    design_ref="DESIGN.md section 5, C13",
    technique="Coq proof over R about a hand-written model + model/implementation correspondence by vm_compute (PrimFloat) + exact rational oracle",
    note=TB + "; convex meshes: faces from scipy ConvexHull verified exactly as supporting half-spaces; flat disk: only the False side is judged",
)
CHECKS["C14"] = dict(
    category="proof",
    text=("State-machine proof (Props/C14.v, closed under the global context): for every collider class incl. nested Margin wrappers, every "
          "construction pose and every finite history of update_pose / support / aabb / center / first_vertex / collider2origin operations with "
          "C-contiguous poses (fresh or item of a stack), the surviving object holds the same attribute data as one constructed at the last pose, "
          "all queries return equal results and none raises (no_type_error); the pre-fix Disk/Ellipse configuration is refuted. The numba "
          "signatures, update_pose bodies and call-site wrappers are re-extracted from /repo's sources on every run (Gen/CollidersTables.v) so the "
          "theorems are re-checked against the current code; numpy view/layout and numba dispatch rules are modelled and validated per run against "
          "arr.flags and raised exception types on generated histories, and observables are compared bitwise with fresh objects."),
    design_ref="DESIGN.md section 5, C14",
    technique="Coq proof by induction over operation histories on a model regenerated from the source (ast reader) + history correspondence",
    note=TB + "; harness/tables_c14.py (ast reader) is trusted; numerical kernels are abstract functions of attribute data in the model",
)
CHECKS["C17"] = dict(
    category="proof",
    text=("Coq-proven certificate checker mesh_cert (Checker/TetMesh.v: all signed volumes of one sign and non-zero, exact sum) with soundness "
          "over the reals (Props/C17.v), evaluated on every mesh the factories return; literal vertex/tetrahedron tables are re-extracted from the "
          "source on every run (Gen/TetTables.v) and the binary64 run of Model/TetMesh.v is compared bit-exactly with the implementation; an exact "
          "rational oracle verifies hull volume (scipy facets as untrusted witness), vertices inside the analytic shape, potentials and the mesh "
          "helpers. Universal theorems over all sizes for box/cube/cylinder are in progress (partial)."),
    design_ref="DESIGN.md section 5, C17",
    technique="Coq-proven mesh certificate checker + tables regenerated from source + bit-exact model correspondence + exact rational oracle",
    note=TB + "; harness/tables_c17.py (ast reader) and harness/c17_oracle.py are trusted; scipy ConvexHull facets are an untrusted witness verified exactly",
)

NA_DEFAULT = "no check registered yet: machinery under construction in this session (DESIGN.md section 5 has the plan); not claimed"
NA = {}


def main():
    checks = []
    for pid, c in CHECKS.items():
        checks.append(dict(
            property_id=pid,
            quick_cmd=f"./check {pid} --tier quick",
            thorough_cmd=f"./check {pid} --tier thorough",
            evidence_file=f"/verif/evidence/{pid}.json",
            replay_cmd_template=f"./check {pid} --replay {{path}}",
            engine="coq-model+correspondence",
            level_claimed=dict(category=c["category"], text=c["text"], design_ref=c["design_ref"]),
            level_note=c["note"],
            technique=c["technique"],
        ))
    m = dict(
        version=1,
        setup_cmd="./setup.sh",
        hooks=dict(
            guard="DISTANCE3D_VERIF",
            enable="no source hooks are needed: worker processes import /repo's modules directly (PYTHONPATH=/repo); DISTANCE3D_VERIF=1 is exported for them but nothing in /repo reads it",
            baseline_off_cmd="cd /repo && /venv/bin/python -m pytest -ra -q -p no:cacheprovider --timeout=900 --continue-on-collection-errors",
            source_commits=[], add_only=True),
        engines=[dict(name="coq-model+correspondence", path="/verif/check",
                      serves_properties=sorted(CHECKS),
                      kind_free_text="Coq 8.16 theorems about a hand-written Gallina model (coq/theories); the model is tied to /repo on every run by a correspondence check (model evaluated by vm_compute inside coqc vs implementation in worker processes) and by ast-extracted tables; Coq-proven result checkers judge outputs of iterative solvers")],
        checks=checks,
        notes="see DESIGN.md; fixes made in /repo are listed in known_findings.json",
        not_applicable=[dict(property_id=p["id"], reason=NA.get(p["id"], NA_DEFAULT))
                        for p in props if p["id"] not in CHECKS],
    )
    (V / "MANIFEST.json").write_text(json.dumps(m, indent=1))


if __name__ == "__main__":
    main()
