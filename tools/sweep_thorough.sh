#!/bin/sh
# tools/sweep_thorough.sh <seed> <checks...>: run thorough tiers sequentially with a private work dir and a private evidence dir copy
seed=$1; shift
cd /verif
mkdir -p work/sweep
for p in "$@"; do
  cp evidence/$p.json work/sweep/$p.evidence.before.json 2>/dev/null
  start=$(date +%s)
  VERIF_WORK=${SWEEP_WORK:-/verif/work/lead_sweep_t} timeout 7200 ./check $p --tier thorough --seed $seed > work/sweep/${p}_t$seed.log 2>&1
  rc=$?
  cp evidence/$p.json work/sweep/$p.evidence.thorough.json 2>/dev/null
  cp work/sweep/$p.evidence.before.json evidence/$p.json 2>/dev/null
  echo "THOROUGH seed=$seed $p rc=$rc wall=$(( $(date +%s) - start ))s viol=$(grep -c '^VIOLATION' work/sweep/${p}_t$seed.log) $(tail -1 work/sweep/${p}_t$seed.log | cut -c1-150)"
done
