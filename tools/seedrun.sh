#!/bin/sh
# Run checks against a seeded (mutated) copy of /repo WITHOUT touching /repo or /verif:
#   tools/seedrun.sh <patch.diff> <lab-name> <Cxx> [<Cxx> ...]
# A private copy of /verif (with its Coq build) is synchronised to /tmp/mutlab/<lab>/verif, a scratch
# worktree of /repo's HEAD is created at /tmp/mutlab/<lab>/repo, the patch is applied there, and each
# check's quick command is run with VERIF_REPO pointing at it.  Output: /tmp/mutlab/<lab>/<Cxx>.log.
# (Used while several checks are running against /repo concurrently; equivalent to
#  `git -C /repo apply` + check + `git -C /repo checkout -- .` when nothing else is running.)
set -u
patch=$(readlink -f "$1"); lab=$2; shift 2
L=/tmp/mutlab/$lab
mkdir -p "$L"
rsync -a --delete --exclude '.git' --exclude 'work' /verif/ "$L/verif/"; mkdir -p "$L/verif/work"
if [ -d "$L/repo" ]; then git -C /repo worktree remove --force "$L/repo" 2>/dev/null; rm -rf "$L/repo"; fi
git -C /repo worktree add --detach -q "$L/repo" HEAD || exit 2
if [ "$patch" != "/dev/null" ]; then git -C "$L/repo" apply "$patch" || { echo "patch does not apply"; exit 2; }; fi
rc_all=0
for p in "$@"; do
  ( cd "$L/verif" && VERIF_REPO="$L/repo" timeout "${SEED_TIMEOUT:-1500}" ./check "$p" --tier "${SEED_TIER:-quick}" ) > "$L/$p.log" 2>&1
  rc=$?
  echo "$lab $p rc=$rc $(grep -c '^VIOLATION' "$L/$p.log") violation lines"
  grep '^VIOLATION\|^KNOWN-FINDING' "$L/$p.log" | cut -c1-220 | head -6
done
git -C /repo worktree remove --force "$L/repo" 2>/dev/null
rm -rf "$L/verif/coq" "$L/verif/work"   # keep only logs, evidence and replays of the lab
