#!/venv/bin/python
"""Regenerate the seeded-changes table of DESIGN.md section 11 from seeded/*/meta.json (tools/seedtable.py prints it)."""
import json, subprocess, re
from pathlib import Path
tab = subprocess.check_output(["/venv/bin/python", "/verif/tools/seedtable.py"], text=True)
metas = [json.load(open(d / "meta.json")) for d in sorted(Path("/verif/seeded").iterdir())]
n = len(metas)
conc = sum(1 for m in metas if any("failing input" in r["outcome"] and r["outcome"].startswith("detected with") for r in m.get("checks_run", [])))
own = sum(1 for m in metas if any(r["check"] == m["breaks_property"] and r["outcome"].startswith("detected with") for r in m.get("checks_run", [])))
broken = sum(1 for m in metas if not any(r["outcome"].startswith("detected with") for r in m.get("checks_run", []))
             and any(r["outcome"].startswith("detected (") for r in m.get("checks_run", [])))
missed = [m["id"] for m in metas if not any(r["outcome"].startswith("detected") for r in m.get("checks_run", []))]
summary = (f"\nSummary of the final re-run ({n} changes): {conc} detected with a concrete failing input by at least one check "
           f"({own} of them by the check of the property they were written against), {broken} detected only as a broken proof / correspondence "
           f"(VIOLATION ... no-failing-input-found), not detected: {', '.join(missed) if missed else 'none'}.\n")
p = Path("/verif/DESIGN.md")
s = p.read_text()
i = s.index("| id | property | change | result of the quick tier |")
j = s.index("What the misses taught")
s = s[:i] + tab + summary + "\n" + s[j:]
p.write_text(s)
print(summary)
