#!/bin/sh
# Confirm a seeded change independently: tools/seedconfirm.sh <outdir> <i> <seed-id> <property>
#  - patch<i>.diff applies to /repo's HEAD in a scratch worktree
#  - the pinned suite's 62 baseline tests still pass with it
#  - demo<i>.py exits non-zero with the change and 0 without
# On success the change is stored as /verif/seeded/<seed-id>/{patch.diff,demo.py,meta.json(stub)}.
out=$1; i=$2; id=$3; prop=$4
# the demos assert that the library is imported from the seeder's own worktree, so that path is reused
W=${SEED_WT:-/tmp/mut-$prop}
[ -d $W ] || git -C /repo worktree add --detach -q $W HEAD || exit 2
cd $W; git checkout -q -- . ; [ -z "$(git status --short)" ] || { echo "$W not clean"; exit 2; }
run_demo() { PYTHONPATH=$W NUMBA_CACHE_DIR=/tmp/seedconfirm-cache-$id timeout 900 /venv/bin/python $out/demo$i.py >/tmp/seedconfirm-$id.demo.log 2>&1; echo $?; }
orig=$(run_demo)
git apply $out/patch$i.diff || { echo "$id: patch does not apply"; exit 2; }
mut=$(run_demo)
/venv/bin/python -m pytest -q -p no:cacheprovider --timeout=900 --continue-on-collection-errors --junitxml=/tmp/seedconfirm-$id.xml >/dev/null 2>&1
missing=$(/venv/bin/python - <<PY
import json, xml.etree.ElementTree as ET
b=json.load(open('/root/.vp/BASELINE.json'))
t=ET.parse('/tmp/seedconfirm-$id.xml').getroot()
passed=set()
for tc in t.iter('testcase'):
    if not any(ch.tag in ('failure','error','skipped') for ch in tc):
        passed.add(tc.get('classname')+'::'+tc.get('name'))
print(len([x for x in b['stable_pass'] if x not in passed]))
PY
)
git checkout -q -- .; cd /; rm -rf /tmp/seedconfirm-cache-$id /tmp/seedconfirm-$id.xml
echo "$id ($prop): demo on original exit=$orig, with change exit=$mut, baseline tests missing with change=$missing"
if [ "$orig" = "0" ] && [ "$mut" != "0" ] && [ "$missing" = "0" ]; then
  mkdir -p /verif/seeded/$id
  cp $out/patch$i.diff /verif/seeded/$id/patch.diff
  cp $out/demo$i.py /verif/seeded/$id/demo.py
  echo "$id CONFIRMED"
else
  echo "$id NOT CONFIRMED"; tail -5 /tmp/seedconfirm-$id.demo.log
fi
