"""Entry point: ./check <Cxx> [--tier quick|thorough] [--seed N] [--replay file]"""
import argparse
import importlib
import os
import sys


def main():
    ap = argparse.ArgumentParser()
    ap.add_argument("prop")
    ap.add_argument("--tier", default=os.environ.get("VERIF_TIER", "quick"))
    ap.add_argument("--seed", type=int, default=int(os.environ.get("VERIF_SEED", "0") or 0))
    ap.add_argument("--replay", default=None)
    a = ap.parse_args()
    if a.tier not in ("quick", "thorough"):
        a.tier = "quick"
    mod = importlib.import_module(f"harness.props.{a.prop.lower()}")
    sys.exit(mod.run(a.tier, a.seed, a.replay))


if __name__ == "__main__":
    main()
