"""Harness side of the penetration checks (C07, C08): overlapping-pair generators, the
harness' own (untrusted, float) oracles -- closest pair, minimum extent direction, facets
of conv(A - B) -- and the builders of the witnesses the Coq checkers of
coq/theories/Checker/Pen.v consume (cone trees for depth lower bounds)."""
import math
from fractions import Fraction as Fr

import numpy as np

from . import common as cm
from . import narrow as nw

COQ_HEADER = nw.COQ_HEADER + "From D3 Require Import Checker.Narrow Checker.Pen.\n"
POLY = ("box", "hull", "mesh")
SMOOTH_BALL = ("sphere", "capsule")


def is_polytope(spec):
    return spec["kind"] in POLY and "margin" not in spec


def run_cases(pid, cases, tag="impl", timeout=1500, jit=True, per_worker_min=6):
    """like narrow.run_cases but with the worker harness/impl/narrowp.py"""
    nwk = min(cm.NCPU, max(1, len(cases) // per_worker_min))
    chunks = [cases[i::nwk] for i in range(nwk)]
    res = cm.run_impl_parallel(pid, "narrowp", [dict(cases=c) for c in chunks], timeout=timeout, jit=jit, tag=tag)
    out = [None] * len(cases)
    for w, (rr, ch) in enumerate(zip(res, chunks)):
        idxs = list(range(w, len(cases), nwk))
        if rr["status"] == "ok":
            for i, x in zip(idxs, rr["result"]["results"]):
                out[i] = x
        else:
            singles = cm.run_impl_parallel(pid, "narrowp", [dict(cases=[c]) for c in ch], timeout=180, jit=jit,
                                           tag=tag + "_iso")
            for i, s, c in zip(idxs, singles, ch):
                if s["status"] == "ok":
                    out[i] = s["result"]["results"][0]
                else:
                    out[i] = [dict(fn=o["fn"], exc=f"PROCESS-{s['status'].upper()}",
                                   exc_msg=f"rc={s.get('rc')} {s.get('log', '')[-200:]}", support_calls=0, arms={})
                              for o in c["ops"]]
    return out


def run_cases_confirmed(pid, cases, tag="impl"):
    """run_cases, then every case that ended in a time limit or a dead worker is run again ALONE with a
    generous limit (300 s per call): wall-clock verdicts must not fire because the machine is busy"""
    out = run_cases(pid, cases, tag=tag)
    redo = [i for i, rr in enumerate(out)
            if any(str(r.get("exc", "")).startswith(("TIMEOUT", "PROCESS-")) for r in rr)]
    for i in redo:
        c = dict(cases[i], ops=[dict(o, timeout=300) for o in cases[i]["ops"]])
        res = cm.run_impl(pid, "narrowp", dict(cases=[c]), timeout=900, tag=tag + "_confirm")
        if res["status"] == "ok":
            out[i] = res["result"]["results"][0]
            for r in out[i]:
                r["confirmed_alone"] = True
        else:
            out[i] = [dict(fn=o["fn"], exc=f"PROCESS-{res['status'].upper()}", exc_msg=f"confirmed alone with a 900 s limit: rc={res.get('rc')} {res.get('log', '')[-200:]}",
                           support_calls=0, arms={}, confirmed_alone=True) for o in c["ops"]]
    return out


def par_map(pid, module, func, args, tag="prep", timeout=1500):
    """[harness.props.<module>.<func>(a) for a in args], spread over worker processes (common.run_impl slots)"""
    args = list(args)
    if not args:
        return []
    nwk = min(cm.NCPU, max(1, len(args) // 4))
    chunks = [args[i::nwk] for i in range(nwk)]
    res = cm.run_impl_parallel(pid, "penprep", [dict(module=module, func=func, args=c) for c in chunks],
                               timeout=timeout, tag=tag)
    out = [None] * len(args)
    for w, rr in enumerate(res):
        if rr["status"] != "ok":
            raise RuntimeError(f"harness oracle worker {w} ended with {rr['status']}: {rr.get('log', '')[-400:]}")
        for i, x in zip(range(w, len(args), nwk), rr["result"]["results"]):
            out[i] = x
    return out


# ----------------------------------------------------------------------------- exact vertices of polytopes
def poly_vertices(spec):
    """[(vertex as 3 Fractions, point witness string of type Pen.pwit)] of a box / hull / mesh collider,
    in the exact rational semantics of narrow.sh_expr."""
    ps = nw.parts(spec)
    if spec["kind"] == "box":
        c = [Fr(float(x)) for x in ps[0][1]]
        segs = [[Fr(float(x)) for x in p[1]] for p in ps[1:4]]
        out = []
        for s1 in (1, -1):
            for s2 in (1, -1):
                for s3 in (1, -1):
                    v = [c[i] + s1 * segs[0][i] + s2 * segs[1][i] + s3 * segs[2][i] for i in range(3)]
                    q = lambda s: "1" if s > 0 else "(-1)"
                    out.append((v, f"(PW (WSum WPt (WSum (WSeg {q(s1)}) (WSum (WSeg {q(s2)}) (WSeg {q(s3)})))))"))
        return out
    W = ps[0][1]
    out = []
    for i, v in enumerate(W):
        out.append(([Fr(x) for x in v], f"(PV {i})"))
    return out


def vfloat(v):
    return np.array([float(x) for x in v])


# ----------------------------------------------------------------------------- float oracles
def closest_pair(sA, sB, iters=300):
    """harness' own GJK (Frank-Wolfe with an NNLS min-norm step) on closed-form support points:
    returns (a, b, dist) with a in A, b in B (floats, untrusted)."""
    from scipy.optimize import nnls
    v = nw.center_of(sA) - nw.center_of(sB)
    if float(np.linalg.norm(v)) == 0.0:
        v = np.array([1.0, 0.0, 0.0])
    As, Bs = [], []
    lam = None
    scale = max(1.0, nw.feature_size(sA), nw.feature_size(sB))
    for _ in range(iters):
        a = nw.support_point(sA, -v)
        b = nw.support_point(sB, v)
        w = a - b
        vv = float(v @ v)
        if As and vv - float(v @ w) <= 1e-14 * max(vv, 1e-300) + 1e-30:
            break
        As.append(a)
        Bs.append(b)
        W = np.array(As) - np.array(Bs)
        big = 1e3 * scale
        M = np.vstack([W.T, big * np.ones((1, len(W)))])
        rhs = np.concatenate([np.zeros(3), [big]])
        lam, _ = nnls(M, rhs, maxiter=5000)
        s = lam.sum()
        if s <= 0:
            lam = np.zeros(len(W))
            lam[-1] = 1.0
            s = 1.0
        lam = lam / s
        keep = lam > 1e-15
        if keep.sum() < len(lam):
            As = [x for x, k in zip(As, keep) if k]
            Bs = [x for x, k in zip(Bs, keep) if k]
            lam = lam[keep]
            lam = lam / lam.sum()
        v = (np.array(As) - np.array(Bs)).T @ lam
        if float(np.linalg.norm(v)) <= 1e-13 * scale:
            break
    if lam is None:
        a = nw.support_point(sA, -v)
        b = nw.support_point(sB, v)
        return a, b, float(np.linalg.norm(a - b))
    a = np.array(As).T @ lam
    b = np.array(Bs).T @ lam
    return a, b, float(np.linalg.norm(a - b))


def extent(sA, sB, n):
    """h_{A-B}(n) for a unit n (float)"""
    return nw.support_value(sA, n) + nw.support_value(sB, -np.asarray(n))


_FIB = None


def fib_dirs(k=600):
    global _FIB
    if _FIB is None or len(_FIB) != k:
        i = np.arange(k) + 0.5
        phi = np.arccos(1 - 2 * i / k)
        th = np.pi * (1 + 5 ** 0.5) * i
        _FIB = np.stack([np.cos(th) * np.sin(phi), np.sin(th) * np.sin(phi), np.cos(phi)], axis=1)
    return _FIB


def diff_hull(sA, sB):
    """facets of conv(A - B) for two polytopes (scipy, float, untrusted): dict(V exact vertex
    differences with witness pairs, Vf floats, hull)."""
    from scipy.spatial import ConvexHull
    VA, VB = poly_vertices(sA), poly_vertices(sB)
    pts, wit = [], []
    for (va, wa) in VA:
        for (vb, wb) in VB:
            pts.append([va[i] - vb[i] for i in range(3)])
            wit.append((wa, wb))
    Pf = np.array([[float(x) for x in p] for p in pts])
    try:
        H = ConvexHull(Pf)
    except Exception:
        H = ConvexHull(Pf, qhull_options="QJ")
    return dict(P=pts, W=wit, Pf=Pf, hull=H)


def min_extent(sA, sB, extra_dirs=(), DH=None):
    """(depth estimate, direction): minimum over unit n of h_{A-B}(n).  Polytope pairs: exact up to
    rounding from the facets of conv(A - B).  Otherwise: sampled directions + local refinement (an
    upper bound of the depth)."""
    if is_polytope(sA) and is_polytope(sB):
        DH = DH or diff_hull(sA, sB)
        eq = DH["hull"].equations
        k = int(np.argmin(-eq[:, 3]))
        n = eq[k, :3] / np.linalg.norm(eq[k, :3])
        return float(extent(sA, sB, n)), n
    from scipy.optimize import minimize
    dirs = list(fib_dirs()) + [np.asarray(d, float) / np.linalg.norm(d) for d in extra_dirs if np.linalg.norm(d) > 0]
    vals = [extent(sA, sB, d) for d in dirs]
    order = np.argsort(vals)[:4]
    best = (vals[order[0]], dirs[order[0]])

    def f(x):
        nn = np.linalg.norm(x)
        return extent(sA, sB, x / nn) if nn > 0 else 1e300
    for k in order:
        try:
            r = minimize(f, dirs[k], method="Nelder-Mead", options=dict(xatol=1e-12, fatol=1e-14, maxiter=600))
            if r.fun < best[0]:
                best = (float(r.fun), r.x / np.linalg.norm(r.x))
        except Exception:
            pass
    return float(best[0]), np.asarray(best[1], float)


def rat_dir(v, pad=1e-12):
    """rational direction (3 Fractions) parallel to v up to rounding with n.n >= 1"""
    v = np.asarray(v, float)
    n = v / np.linalg.norm(v) * (1.0 + pad)
    q = [Fr(float(x)) for x in n]
    while sum(x * x for x in q) < 1:
        q = [x * Fr(1000001, 1000000) for x in q]
    return q


# ----------------------------------------------------------------------------- cone trees
class TreeFail(Exception):
    pass


def _fdet(a, b, c):
    return (a[0] * (b[1] * c[2] - b[2] * c[1]) + a[1] * (b[2] * c[0] - b[0] * c[2]) + a[2] * (b[0] * c[1] - b[1] * c[0]))


class ConeTreeBuilder:
    """Builds, per coordinate octant, a split tree whose leaves lie (up to a few `tol`) inside one
    normal cone of the polytope conv(P).  Split directions are (i) facet normals inside the cone,
    (ii) crossing points of fan arcs (great-circle arcs between the normals of adjacent facets) with
    cone edges; a split direction that lies on an edge of the cone is pushed slightly OUTSIDE across
    that edge, so that no sliver child arises (the children then overlap the neighbour cone, which
    is harmless: children only have to cover the parent).  All generators are floats, i.e. short
    exact rationals; child existence is decided with exact determinants, as the Coq checker does."""

    def __init__(self, Pf, hull, rho, tol=1e-9, max_nodes=60000, max_level=200):
        self.Pf = Pf
        self.rho = rho
        self.tol = tol
        self.max_nodes = max_nodes
        self.max_level = max_level
        self.nodes = 0
        self.leaves = 0
        self.bisections = 0
        self.used = {}
        eq = hull.equations
        N = eq[:, :3] / np.linalg.norm(eq[:, :3], axis=1)[:, None]
        key = {}
        gid = []
        reps = []
        for i, n in enumerate(N):
            k = tuple(np.round(n, 8))
            if k not in key:
                key[k] = len(reps)
                reps.append(n)
            gid.append(key[k])
        self.N = np.array(reps)
        arcs = set()
        for s_, nb in enumerate(hull.neighbors):
            for t in nb:
                a, b = gid[s_], gid[t]
                if a != b:
                    arcs.add((min(a, b), max(a, b)))
        self.arcs = np.array(sorted(arcs), dtype=int).reshape(-1, 2)
        A = self.N[self.arcs[:, 0]]
        B = self.N[self.arcs[:, 1]]
        M = np.cross(A, B)
        nm = np.linalg.norm(M, axis=1)
        ok = nm > 1e-12
        self.arcs = self.arcs[ok]
        self.arcM = M[ok] / nm[ok][:, None]
        self.hv = hull.vertices
        self.V = Pf[self.hv]
        self.scale = max(1.0, float(np.max(np.abs(Pf))))

    def build_all(self):
        trees = []
        for (s1, s2, s3) in [(1, 1, 1), (1, 1, -1), (1, -1, 1), (1, -1, -1), (-1, 1, 1), (-1, 1, -1), (-1, -1, 1), (-1, -1, -1)]:
            G = np.array([[float(s1), 0.0, 0.0], [0.0, float(s2), 0.0], [0.0, 0.0, float(s3)]])
            trees.append(self.build(G, np.arange(len(self.N)), np.arange(len(self.arcs)), 0))
        return trees

    def leaf_point(self, Gf):
        cen = Gf.sum(axis=0)
        cen = cen / np.linalg.norm(cen)
        dirs = np.vstack([Gf, cen[None]])
        cand = set(int(np.argmax(self.V @ d)) for d in dirs)
        best = None
        for c in cand:
            m = float(np.min(Gf @ self.V[c]))
            if best is None or m > best[0]:
                best = (m, int(self.hv[c]))
        return best

    def build(self, G, nid, aid, level):
        """G: 3x3 float array, rows = generators (any orientation)"""
        self.nodes += 1
        if self.nodes > self.max_nodes or level > self.max_level:
            raise TreeFail(f"budget exceeded (nodes={self.nodes}, level={level})")
        ln = np.linalg.norm(G, axis=1)
        Gf = G / ln[:, None]
        m, p = self.leaf_point(Gf)
        if m >= self.rho + 1e-11 * self.scale:
            self.leaves += 1
            self.used.setdefault(p, len(self.used))
            return ("L", p)
        tol = self.tol
        nid_in = nid
        det = abs(float(np.linalg.det(Gf)))
        # 1. facet normals inside the cone (not at a generator)
        if len(nid) and det > 1e-7:
            Nn = self.N[nid]
            C = np.linalg.solve(Gf.T, Nn.T).T        # rows: coefficients of each normal
            inside = np.all(C >= -tol, axis=1)
            Cc = np.where(C < tol, 0.0, C)
            npos = (Cc > 0).sum(axis=1)
            close = (Nn @ Gf.T).max(axis=1) > 1 - 1e-15
            cand = np.where(inside & (npos >= 2) & ~close)[0]
            nid_in = nid[inside]
            if len(cand):
                srt = np.sort(Cc[cand], axis=1)
                k = cand[int(np.argmax(srt[:, 0] + 1e-3 * srt[:, 1]))]
                zero = [j for j in range(3) if Cc[k, j] == 0.0]
                g = Nn[k] - sum((C[k, j] * Gf[j] for j in zero), np.zeros(3))
                return self.split(G, g, zero, nid_in[nid_in != nid[k]], aid, level)
        # 2. fan arcs crossing the cone
        aid2 = aid
        if len(aid):
            Mx = self.arcM[aid]
            S = Mx @ Gf.T                      # signs of the generators w.r.t. each great circle
            pos = S > 2.0 * tol
            neg = S < -2.0 * tol
            crossing = pos.any(axis=1) & neg.any(axis=1)
            aid2 = aid[crossing]
            for idx in np.where(crossing)[0]:
                a = self.N[self.arcs[aid[idx], 0]]
                b = self.N[self.arcs[aid[idx], 1]]
                mm = Mx[idx]
                s_ = S[idx]
                for (i, j, k) in ((0, 1, 2), (1, 2, 0), (0, 2, 1)):
                    if (pos[idx, i] and neg[idx, j]) or (neg[idx, i] and pos[idx, j]):
                        u = abs(s_[j]) * Gf[i] + abs(s_[i]) * Gf[j]
                        u = u / np.linalg.norm(u)
                        if float(np.cross(a, u) @ mm) > tol and float(np.cross(u, b) @ mm) > tol and float(u @ (a + b)) > 0:
                            return self.split(G, u, [k], nid_in, aid2, level)
        # 3. sliver (or numerically odd) cone: bisect the longest edge
        self.bisections += 1
        if self.bisections > 4000:
            raise TreeFail(f"too many bisections; a cone's best point reaches {m!r} < rho={self.rho!r} (level {level})")
        best = max(((0, 1, 2), (1, 2, 0), (0, 2, 1)), key=lambda t: -float(Gf[t[0]] @ Gf[t[1]]))
        i, j, k = best
        u = Gf[i] + Gf[j]
        u = u / np.linalg.norm(u)
        return self.split(G, u, [k], nid_in, aid2, level)

    def split(self, G, g, zero, nid, aid, level):
        """split at direction g; for k in `zero` the direction lies on the face opposite to generator k
        (up to rounding) and is pushed across it until the exact determinant says so"""
        Gq = [[Fr(float(x)) for x in row] for row in G]
        D = _fdet(Gq[0], Gq[1], Gq[2])
        Gf = G / np.linalg.norm(G, axis=1)[:, None]
        g = np.array(g, float)
        g = g / np.linalg.norm(g)
        found = False
        for K in (40, 46, 52):
            eps = 4.0 / float(1 << K)
            while eps <= 1e-8 and not found:
                g2 = g.copy()
                for k in zero:
                    g2 = g2 - eps * Gf[k]
                # integer coordinates (only the direction matters): keeps the checker's exact arithmetic short
                g2 = np.round(g2 * float(1 << K))
                gq = [Fr(int(x)) for x in g2]
                d = [_fdet(gq, Gq[1], Gq[2]) * D, _fdet(Gq[0], gq, Gq[2]) * D, _fdet(Gq[0], Gq[1], gq) * D]
                if all(d[k] <= 0 for k in zero):
                    found = True
                eps *= 10.0
            if found:
                break
        if not found:
            raise TreeFail("could not push a split direction across a cone face")
        if not any(x > 0 for x in d):
            raise TreeFail("split direction not in front of the cone")
        kids = []
        for k in range(3):
            if d[k] > 0:
                G2 = G.copy()
                G2[k] = g2
                kids.append(self.build(G2, nid, aid, level + 1))
            else:
                kids.append(None)
        return ("S", [float(x) for x in g2], kids)


def tree_expr(t, remap):
    if t is None:
        return "(CLeaf 0)"
    if t[0] == "L":
        return f"(CLeaf {remap[t[1]]})"
    _, g, kids = t
    return "(CSplit " + nw.vq(g) + " " + " ".join(tree_expr(k, remap) for k in kids) + ")"


def depth_ge_args(sA, sB, rho, DH=None, tol=1e-9):
    """witness arguments `ws trees` of Pen.depth_ge_cert for a polytope pair, or raises TreeFail.
    Returns (ws_expr, trees_expr, stats)."""
    DH = DH or diff_hull(sA, sB)
    b = ConeTreeBuilder(DH["Pf"], DH["hull"], float(rho), tol=tol)
    trees = b.build_all()
    remap = dict(b.used)
    order = sorted(remap, key=lambda k: remap[k])
    ws = "[" + "; ".join(f"({DH['W'][i][0]}, {DH['W'][i][1]})" for i in order) + "]"
    te = "[" + "; ".join(tree_expr(t, remap) for t in trees) + "]"
    return ws, te, dict(nodes=b.nodes, leaves=b.leaves, bisections=b.bisections, points=len(order), facets=int(len(b.N)), arcs=int(len(b.arcs)))


# ----------------------------------------------------------------------------- overlapping pairs
DEPTHS = [1e-6, 1e-4, 1e-3, 1e-2, 0.1, 0.3, 1.0]


def gen_overlapping(rng, tier, kinds, margin_prob=0.0, stream=None):
    """(s1, s2, meta): a pair that overlaps (as far as the harness' own float oracle can tell).
    streams: depth (B placed along a direction so that the extent of the overlap along it is
    delta*L), lattice (exact coincidences), deep (random poses with nearby centres), nested, small
    (feature sizes 1e-2 .. 5e-2), aligned (equally oriented boxes, scaled copies of one shape)"""
    for _ in range(200):
        stream_ = stream or rng.choice(["depth", "depth", "depth", "lattice", "lattice", "deep", "nested", "small", "aligned", "aligned"])
        k1, k2 = rng.choice(kinds), rng.choice(kinds)
        meta = dict(stream=stream_, kinds=[k1, k2])
        if stream_ == "depth":
            st = rng.choice(["moderate", "moderate", "random", "lattice"])
            s1 = nw.gen_collider(rng, k1, st, spread=3.0, margin_prob=margin_prob)
            s2 = nw.gen_collider(rng, k2, st, spread=3.0, margin_prob=margin_prob)
            u = nw.rand_unit(rng, st)
            delta = rng.choice(DEPTHS) * max(1.0, min(nw.feature_size(s1), nw.feature_size(s2)))
            dc = nw.center_of(s1) - nw.center_of(s2)
            lat = dc - float(dc @ u) * u
            if st != "lattice":
                jit = np.array([rng.uniform(-1, 1) for _ in range(3)]) * 0.3 * min(nw.feature_size(s1), nw.feature_size(s2))
                lat = lat + jit - float(jit @ u) * u
            s2 = nw.translate_spec(s2, lat)
            # extent of the overlap along u becomes delta
            s = nw.support_value(s1, u) + nw.support_value(s2, -u) - delta
            s2 = nw.translate_spec(s2, s * u)
            meta.update(delta=delta, dir=u.tolist())
        elif stream_ == "lattice":
            s1 = nw.gen_collider(rng, k1, "lattice", margin_prob=margin_prob)
            s2 = nw.gen_collider(rng, k2, "lattice", margin_prob=margin_prob)
            if rng.random() < 0.7:
                off = [rng.choice([-1.0, -0.5, -0.25, 0.0, 0.0, 0.25, 0.5, 1.0]) for _ in range(3)]
                s2 = nw.translate_spec(s2, (nw.center_of(s1) - nw.center_of(s2)) + np.array(off))
        elif stream_ == "aligned":
            # equally oriented boxes with generic sizes / a shape against a scaled copy of itself: many exactly
            # parallel faces of A - B, exactly equal support values in several directions
            if rng.random() < 0.6 or not (set(kinds) & {"hull", "mesh"}):
                R = np.eye(3) if rng.random() < 0.5 else nw.rand_rotation(rng, rng.choice(["lattice", "random"]))
                if rng.random() < 0.5:
                    sz1 = [round(rng.uniform(0.4, 2.0), 2) for _ in range(3)]
                    sz2 = [round(rng.uniform(0.4, 2.0), 2) for _ in range(3)]
                    off = np.array([round(rng.uniform(-0.45, 0.45) * (a + b), 2) for a, b in zip(sz1, sz2)])
                else:       # lattice numbers: collinear / coplanar vertices of A - B
                    sz1 = [rng.choice([0.5, 1.0, 2.0, 4.0]) for _ in range(3)]
                    sz2 = [rng.choice([0.5, 1.0, 2.0, 4.0]) for _ in range(3)]
                    off = np.array([rng.choice([-1.0, -0.5, -0.25, 0.0, 0.25, 0.5, 1.0]) for _ in range(3)])
                    off = np.clip(off, [-0.45 * (a + b) for a, b in zip(sz1, sz2)], [0.45 * (a + b) for a, b in zip(sz1, sz2)])
                c1 = [rng.uniform(-1, 1) for _ in range(3)] if rng.random() < 0.5 else [0.0, 0.0, 0.0]
                s1 = dict(kind="box", pose=nw.pose_of(R, c1), size=sz1)
                s2 = dict(kind="box", pose=nw.pose_of(R, (np.array(c1) + R @ off).tolist()), size=sz2)
                k1 = k2 = "box"
            else:
                k1 = k2 = rng.choice([k for k in kinds if k in ("hull", "mesh")])
                s1 = nw.gen_collider(rng, k1, "moderate", spread=1.0, margin_prob=0.0)
                sc = rng.choice([0.5, 1.0, 1.0, 1.5, 2.0])
                c1 = nw.center_of(s1)
                s2 = nw.transform_spec(nw.translate_spec(s1, -c1), np.eye(3), np.zeros(3), scale=sc)
                off = np.array([rng.uniform(-1, 1) for _ in range(3)]) * 0.3 * nw.feature_size(s1) * rng.choice([0.0, 0.3, 1.0])
                s2 = nw.translate_spec(s2, c1 + off)
            meta["kinds"] = [k1, k2]
        elif stream_ == "small":
            # feature sizes of a few 1e-2 (lower end of the declared domain): tiny polytope faces
            sz = [0.01, 0.01, 0.0125, 0.015, 0.02, 0.03, 0.05]     # weighted towards the lower end of the domain
            s1 = nw.gen_collider(rng, k1, "moderate", spread=1.0, margin_prob=margin_prob, sizes=sz)
            s2 = nw.gen_collider(rng, k2, "moderate", spread=1.0, margin_prob=margin_prob, sizes=sz)
            f = min(nw.feature_size(s1), nw.feature_size(s2))
            off = np.array([rng.uniform(-1, 1) for _ in range(3)]) * f * rng.choice([0.2, 0.6, 1.0])
            s2 = nw.translate_spec(s2, nw.center_of(s1) - nw.center_of(s2) + off)
        elif stream_ == "deep":
            s1 = nw.gen_collider(rng, k1, "moderate", spread=1.0, margin_prob=margin_prob)
            s2 = nw.gen_collider(rng, k2, "moderate", spread=1.0, margin_prob=margin_prob)
        else:
            s1 = nw.gen_collider(rng, k1, "moderate", spread=1.0, margin_prob=margin_prob, sizes=[2.0, 4.0, 8.0])
            s2 = nw.gen_collider(rng, k2, "moderate", spread=0.3, margin_prob=margin_prob, sizes=[0.1, 0.25, 0.5])
            s2 = nw.translate_spec(s2, nw.center_of(s1) - nw.center_of(s2) + np.array([rng.uniform(-0.3, 0.3) for _ in range(3)]))
        meta["L"] = nw.scene_scale([s1, s2])
        a, b, dist = closest_pair(s1, s2)
        if dist <= 1e-9 * meta["L"]:
            return s1, s2, meta
    raise RuntimeError("could not generate an overlapping pair")
