"""Generators shared by the hydroelastic checks C15 / C16 (bodies from the RigidBody
factories, poses, tetrahedron pairs).  All randomness comes from the `rng` passed in
(random.Random seeded by the Run)."""
import math


# ----------------------------------------------------------------- linear algebra (lists)
def matmul(a, b):
    return [[sum(a[i][k] * b[k][j] for k in range(len(b))) for j in range(len(b[0]))] for i in range(len(a))]


def rot_from_quat(q):
    w, x, y, z = q
    n = math.sqrt(w * w + x * x + y * y + z * z)
    w, x, y, z = w / n, x / n, y / n, z / n
    return [[1 - 2 * (y * y + z * z), 2 * (x * y - z * w), 2 * (x * z + y * w)],
            [2 * (x * y + z * w), 1 - 2 * (x * x + z * z), 2 * (y * z - x * w)],
            [2 * (x * z - y * w), 2 * (y * z + x * w), 1 - 2 * (x * x + y * y)]]


def rand_rot(rng):
    while True:
        q = [rng.gauss(0, 1) for _ in range(4)]
        if sum(x * x for x in q) > 1e-6:
            return rot_from_quat(q)


def lattice_rot(rng):
    """one of the 24 proper signed permutation matrices"""
    import itertools
    perms = list(itertools.permutations(range(3)))
    while True:
        p = rng.choice(perms)
        s = [rng.choice([-1.0, 1.0]) for _ in range(3)]
        m = [[0.0] * 3 for _ in range(3)]
        for i in range(3):
            m[i][p[i]] = s[i]
        det = (m[0][0] * (m[1][1] * m[2][2] - m[1][2] * m[2][1])
               - m[0][1] * (m[1][0] * m[2][2] - m[1][2] * m[2][0])
               + m[0][2] * (m[1][0] * m[2][1] - m[1][1] * m[2][0]))
        if det > 0:
            return m


def pose(Rm, t):
    return [Rm[0] + [float(t[0])], Rm[1] + [float(t[1])], Rm[2] + [float(t[2])], [0.0, 0.0, 0.0, 1.0]]


IDENT = [[1.0, 0.0, 0.0], [0.0, 1.0, 0.0], [0.0, 0.0, 1.0]]


def rand_unit(rng):
    while True:
        v = [rng.gauss(0, 1) for _ in range(3)]
        n = math.sqrt(sum(x * x for x in v))
        if n > 1e-6:
            return [x / n for x in v]


def apply(Rm, v):
    return [sum(Rm[i][k] * v[k] for k in range(3)) for i in range(3)]


def logu(rng, lo, hi):
    return math.exp(rng.uniform(math.log(lo), math.log(hi)))


# ----------------------------------------------------------------- bodies
SHAPES = ["sphere", "ellipsoid", "cube", "box", "cylinder", "capsule"]


def body_params(rng, shape, scale, fine=False):
    """parameters of one factory body of overall size ~scale; returns (params, r_in, r_out):
    radii of a ball contained in / containing the body (centre = body origin)."""
    s = scale
    if shape == "sphere":
        r = s * rng.uniform(0.5, 1.0)
        return dict(radius=r, order=rng.choice([1, 2] if not fine else [2, 3])), 0.8 * r, r
    if shape == "ellipsoid":
        radii = [s * rng.uniform(0.4, 1.0) for _ in range(3)]
        return dict(radii=radii, order=rng.choice([1, 2] if not fine else [2, 3])), 0.8 * min(radii), max(radii)
    if shape == "cube":
        a = s * rng.uniform(0.8, 2.0)
        return dict(size=a), a / 2, a * math.sqrt(3) / 2
    if shape == "box":
        sz = [s * rng.uniform(0.6, 2.0) for _ in range(3)]
        return dict(size=sz), min(sz) / 2, math.sqrt(sum(x * x for x in sz)) / 2
    if shape == "cylinder":
        r = s * rng.uniform(0.4, 1.0)
        ln = s * rng.uniform(0.5, 3.0)
        hint = r * rng.uniform(0.5, 1.2) * (0.5 if fine else 1.0)
        return dict(radius=r, length=ln, resolution_hint=hint), 0.8 * min(r, ln / 2), math.hypot(r, ln / 2)
    if shape == "capsule":
        r = s * rng.uniform(0.4, 1.0)
        h = s * rng.uniform(0.5, 2.0)
        hint = r * rng.uniform(0.7, 1.3) * (0.6 if fine else 1.0)
        return dict(radius=r, height=h, resolution_hint=hint), 0.8 * r, r + h / 2
    raise ValueError(shape)


def body_pair(rng, mode="random", fine=False, shapes=None):
    """two body specs with world poses.  mode: random (general rotations of both bodies,
    overlapping by a random amount), separated (gap between bounding balls), lattice
    (axis-aligned, exactly representable offsets), stacked (axis-aligned boxes/cubes resting
    on each other: faces parallel to the contact plane)."""
    shapes = shapes or SHAPES
    if mode == "stacked":
        a = rng.choice([0.25, 0.5, 1.0, 2.0])
        k1, k2 = rng.choice(["cube", "box"]), rng.choice(["cube", "box"])

        def mk(kind):
            if kind == "cube":
                return dict(size=a), a / 2
            sz = [a * rng.choice([0.5, 1.0, 2.0]) for _ in range(3)]
            return dict(size=sz), sz[2] / 2
        p1, h1 = mk(k1)
        p2, h2 = mk(k2)
        pen = a * rng.choice([0.0625, 0.125, 0.25, 0.1, 0.01])
        c2 = [rng.choice([0.0, 0.5, -1.0, 3.0]) for _ in range(3)]
        off = [a * rng.choice([0.0, 0.0, 0.25, -0.125]), a * rng.choice([0.0, 0.0, 0.25, -0.125]), h1 + h2 - pen]
        c1 = [c2[i] + off[i] for i in range(3)]
        E1, E2 = rng.choice([1.0, 1.0, 0.01, 100.0]), rng.choice([1.0, 1.0, 0.01, 100.0])
        return (dict(shape=k1, params=p1, pose=pose(IDENT, c1), E=E1),
                dict(shape=k2, params=p2, pose=pose(IDENT, c2), E=E2))
    scale = logu(rng, 0.05, 20.0) if mode != "lattice" else rng.choice([0.25, 0.5, 1.0, 2.0, 4.0])
    s1, s2 = rng.choice(shapes), rng.choice(shapes)
    p1, in1, out1 = body_params(rng, s1, scale * rng.uniform(0.6, 1.6), fine)
    p2, in2, out2 = body_params(rng, s2, scale, fine)
    if mode == "lattice":
        R1, R2 = lattice_rot(rng), lattice_rot(rng)
        c2 = [scale * rng.choice([-2.0, -1.0, 0.0, 0.5, 1.0, 3.0]) for _ in range(3)]
        d = rng.choice([[1.0, 0.0, 0.0], [0.0, 1.0, 0.0], [0.0, 0.0, 1.0], [0.0, 0.0, -1.0], [1.0, 1.0, 0.0]])
        dist = round((in1 + in2) * rng.choice([0.5, 0.75, 1.0]) * 8) / 8.0
        c1 = [c2[i] + d[i] * dist for i in range(3)]
    else:
        R1, R2 = rand_rot(rng), rand_rot(rng)
        c2 = [rng.uniform(-1, 1) * 10 * scale for _ in range(3)]
        d = rand_unit(rng)
        if mode == "separated":
            dist = (out1 + out2) * rng.uniform(1.02, 1.5)
        else:
            # from deep overlap (inner balls overlap) to grazing (outer balls barely overlap)
            lo, hi = 0.35 * (in1 + in2), 0.5 * (in1 + in2) + 0.5 * (out1 + out2)
            dist = rng.uniform(lo, hi)
        c1 = [c2[i] + d[i] * dist for i in range(3)]
    E1, E2 = logu(rng, 1e-2, 1e2), logu(rng, 1e-2, 1e2)
    if rng.random() < 0.3:
        E1 = E2 = 1.0
    return (dict(shape=s1, params=p1, pose=pose(R1, c1), E=E1),
            dict(shape=s2, params=p2, pose=pose(R2, c2), E=E2))


def rigid_motion(rng, scale=1.0, lattice=False):
    if lattice:
        return pose(lattice_rot(rng), [rng.choice([-2.0, 0.0, 1.0, 0.5]) for _ in range(3)])
    return pose(rand_rot(rng), [rng.uniform(-1, 1) * 5 * scale for _ in range(3)])


def body_size(spec):
    p = spec["params"]
    vals = []
    for v in p.values():
        if isinstance(v, (list, tuple)):
            vals += [float(x) for x in v]
        elif isinstance(v, float):
            vals.append(float(v))
    return max(vals) if vals else 1.0


# ----------------------------------------------------------------- single tetrahedron pairs (C15)
def _vol6(t):
    a, b, c, d = t
    u = [b[i] - a[i] for i in range(3)]
    v = [c[i] - a[i] for i in range(3)]
    w = [d[i] - a[i] for i in range(3)]
    return (u[0] * (v[1] * w[2] - v[2] * w[1]) - u[1] * (v[0] * w[2] - v[2] * w[0])
            + u[2] * (v[0] * w[1] - v[1] * w[0]))


def _diam(t):
    return max(math.dist(p, q) for p in t for q in t)


def rand_tet(rng, scale=1.0, center=(0.0, 0.0, 0.0)):
    """a random, not too flat tetrahedron (either orientation)"""
    while True:
        t = [[center[i] + scale * rng.uniform(-1, 1) for i in range(3)] for _ in range(4)]
        if abs(_vol6(t)) > 0.05 * _diam(t) ** 3:
            return t


def rand_pot(rng, scale=1.0):
    """non-negative vertex potentials, not all zero; factory-like patterns (zeros on the
    surface vertices, one or two positive) are frequent"""
    k = rng.random()
    if k < 0.35:
        e = [0.0] * 4
        e[rng.randrange(4)] = scale * rng.uniform(0.2, 1.0)
    elif k < 0.55:
        e = [0.0] * 4
        for i in rng.sample(range(4), 2):
            e[i] = scale * rng.uniform(0.2, 1.0)
    elif k < 0.65:
        e = [scale * 0.5] * 4
    else:
        e = [scale * rng.uniform(0.0, 1.0) for _ in range(4)]
    if max(e) <= 0.0:
        e[0] = scale
    return e


def _moduli(rng):
    k = rng.random()
    if k < 0.4:
        return 1.0, 1.0
    if k < 0.5:
        E = logu(rng, 1e-2, 1e2)
        return E, E
    return logu(rng, 1e-2, 1e2), logu(rng, 1e-2, 1e2)


CUBE_CORNERS = [[x, y, z] for x in (0.0, 1.0) for y in (0.0, 1.0) for z in (0.0, 1.0)]
# the 12 tetrahedra of a cube split through its centre: one face diagonal per face
CUBE_FACES = [(0, 1, 3, 2), (4, 6, 7, 5), (0, 4, 5, 1), (2, 3, 7, 6), (0, 2, 6, 4), (1, 5, 7, 3)]


def cube_tets(a, origin):
    """12 axis-aligned tetrahedra (corner, corner, corner, centre) of the cube
    origin + [0,a]^3 with potentials 0 on the corners and a/2 at the centre"""
    c = [origin[i] + a / 2 for i in range(3)]
    P = [[origin[i] + a * q[i] for i in range(3)] for q in CUBE_CORNERS]
    out = []
    for f in CUBE_FACES:
        for tri in ((f[0], f[1], f[2]), (f[0], f[2], f[3])):
            out.append(([P[tri[0]], P[tri[1]], P[tri[2]], c], [0.0, 0.0, 0.0, a / 2]))
    return out


PAIR_CLASSES = ["random", "random_near", "aligned", "lattice", "shared_face", "identical", "same_field",
                "touching", "disjoint", "tiny_scale", "big_offset"]


def tet_pair(rng, cls):
    """one single-pair case of class cls (see PAIR_CLASSES)"""
    E1, E2 = _moduli(rng)
    c = dict(kind="pair", cls=cls)
    if cls in ("random", "tiny_scale", "big_offset"):
        s = 1.0 if cls != "tiny_scale" else logu(rng, 1e-3, 1e-1)
        ctr = (0.0, 0.0, 0.0) if cls != "big_offset" else tuple(rng.uniform(-1, 1) * 50 for _ in range(3))
        t1 = rand_tet(rng, s, ctr)
        t2 = rand_tet(rng, s * rng.uniform(0.5, 1.5), tuple(ctr[i] + s * rng.uniform(-0.6, 0.6) for i in range(3)))
        e1, e2 = rand_pot(rng, s), rand_pot(rng, s)
    elif cls == "random_near":
        t1 = rand_tet(rng)
        t2 = [[x + 0.4 * rng.gauss(0, 1) for x in p] for p in t1]
        if abs(_vol6(t2)) < 1e-3:
            t2 = rand_tet(rng)
        e1, e2 = rand_pot(rng), rand_pot(rng)
    elif cls == "aligned":
        # two axis-aligned cubes split into 12 tetrahedra each, stacked along z with a small
        # penetration and a lattice offset: faces of the tetrahedra are parallel to the contact plane
        a = rng.choice([0.25, 0.5, 1.0, 2.0])
        b = a * rng.choice([1.0, 1.0, 0.5, 2.0])
        pen = a * rng.choice([0.0625, 0.125, 0.25, 0.1, 0.03])
        o1 = [rng.choice([0.0, -1.0, 0.5, 3.0]) for _ in range(3)]
        o2 = [o1[0] + a * rng.choice([0.0, 0.0, 0.25, -0.125, 0.5]), o1[1] + a * rng.choice([0.0, 0.0, 0.25, -0.125, 0.5]),
              o1[2] + a - pen]
        A1, A2 = cube_tets(a, o1), cube_tets(b, o2)
        # upper tetrahedra of cube 1 against lower tetrahedra of cube 2 (those are the ones in contact);
        # other combinations are drawn as well (most of them do not intersect)
        if rng.random() < 0.7:
            (t1, e1), (t2, e2) = rng.choice([A1[2], A1[3]] + A1[4:]), rng.choice([A2[0], A2[1]] + A2[4:])
        else:
            (t1, e1), (t2, e2) = rng.choice(A1), rng.choice(A2)
        if rng.random() < 0.5:
            E1 = E2 = 1.0
    elif cls == "lattice":
        vals = [-1.0, -0.5, 0.0, 0.5, 1.0, 1.5, 2.0]
        while True:
            t1 = [[rng.choice(vals) for _ in range(3)] for _ in range(4)]
            t2 = [[rng.choice(vals) for _ in range(3)] for _ in range(4)]
            if abs(_vol6(t1)) >= 0.125 and abs(_vol6(t2)) >= 0.125:
                break
        e1 = [rng.choice([0.0, 0.0, 0.5, 1.0]) for _ in range(4)]
        e2 = [rng.choice([0.0, 0.0, 0.5, 1.0]) for _ in range(4)]
        if max(e1) == 0.0:
            e1[3] = 0.5
        if max(e2) == 0.0:
            e2[3] = 0.5
        E1, E2 = rng.choice([(1.0, 1.0), (1.0, 1.0), (2.0, 1.0), (0.5, 4.0)])
    elif cls == "shared_face":
        t1 = rand_tet(rng)
        # reflect the 4th vertex through the face (0,1,2), or keep it on the same side
        a, b, cc, d = t1
        u = [b[i] - a[i] for i in range(3)]
        v = [cc[i] - a[i] for i in range(3)]
        n = [u[1] * v[2] - u[2] * v[1], u[2] * v[0] - u[0] * v[2], u[0] * v[1] - u[1] * v[0]]
        nn = sum(x * x for x in n)
        h = sum((d[i] - a[i]) * n[i] for i in range(3)) / nn
        k = rng.choice([-1.0, -0.5, 0.5, 1.5])      # negative: other side (only the face is shared)
        d2 = [d[i] + (k - 1.0) * h * n[i] + 0.2 * rng.uniform(-1, 1) * u[i] for i in range(3)]
        t2 = [a, b, cc, d2]
        perm = rng.sample(range(4), 4)
        t2 = [t2[i] for i in perm]
        e1, e2 = rand_pot(rng), rand_pot(rng)
    elif cls == "identical":
        t1 = rand_tet(rng) if rng.random() < 0.6 else rng.choice(cube_tets(1.0, [0.0, 0.0, rng.choice([0.0, 2.0])]))[0]
        t2 = [list(p) for p in t1]
        e1 = rand_pot(rng)
        e2 = list(e1)
        if rng.random() < 0.3:
            e2 = rand_pot(rng)
        if rng.random() < 0.6:
            E1 = E2 = rng.choice([1.0, 0.5, 3.0])
    elif cls == "same_field":
        # two different tetrahedra carrying (up to rounding) the same linear pressure field
        t1 = rand_tet(rng) if rng.random() < 0.5 else rng.choice(cube_tets(1.0, [0.0, 0.0, 0.0]))[0]
        g = [rng.uniform(-1, 1) for _ in range(3)]
        off = rng.uniform(1.5, 3.0) * 2
        e1 = [sum(g[i] * p[i] for i in range(3)) + off for p in t1]
        t2 = [[x + 0.3 * rng.uniform(-1, 1) for x in p] for p in t1]
        if rng.random() < 0.5:
            t2 = [[round(x * 4) / 4 for x in p] for p in t2]
            t1 = [[round(x * 4) / 4 for x in p] for p in t1]
            g = [round(x * 4) / 4 for x in g]
            e1 = [sum(g[i] * p[i] for i in range(3)) + 8.0 for p in t1]
            if abs(_vol6(t1)) < 0.05 or abs(_vol6(t2)) < 0.05:
                return tet_pair(rng, cls)
            e2 = [sum(g[i] * p[i] for i in range(3)) + 8.0 for p in t2]
        else:
            e2 = [sum(g[i] * p[i] for i in range(3)) + off for p in t2]
        E1 = E2 = rng.choice([1.0, 2.0])
    elif cls in ("touching", "disjoint"):
        # tetrahedron 2 has a vertex pointing at a face of tetrahedron 1 along the face normal,
        # penetrating by delta (touching: |delta| tiny, either sign) or separated by a gap
        t1 = rand_tet(rng) if rng.random() < 0.6 else [[0.0, 0.0, 0.0], [1.0, 0.0, 0.0], [0.0, 1.0, 0.0], [0.25, 0.25, -1.0]]
        a, b, cc, d = t1
        u = [b[i] - a[i] for i in range(3)]
        v = [cc[i] - a[i] for i in range(3)]
        n = [u[1] * v[2] - u[2] * v[1], u[2] * v[0] - u[0] * v[2], u[0] * v[1] - u[1] * v[0]]
        ln = math.sqrt(sum(x * x for x in n))
        n = [x / ln for x in n]
        if sum((d[i] - a[i]) * n[i] for i in range(3)) > 0:
            n = [-x for x in n]                     # outward normal of face (a,b,c)
        ctr = [(a[i] + b[i] + cc[i]) / 3 for i in range(3)]
        if cls == "touching":
            delta = rng.choice([1e-9, 1e-7, 9e-7, 1.1e-6, 2e-6, 1e-5, 1e-4, 0.0, -1e-9, -1e-6])
        else:
            delta = -rng.choice([1e-5, 1e-3, 0.1, 1.0])
        apex = [ctr[i] - delta * n[i] for i in range(3)]    # delta > 0: inside tetrahedron 1
        # base of tetrahedron 2 further out along n
        h = rng.uniform(0.5, 1.5)
        x_ax = [u[i] / math.sqrt(sum(q * q for q in u)) for i in range(3)]
        y_ax = [n[1] * x_ax[2] - n[2] * x_ax[1], n[2] * x_ax[0] - n[0] * x_ax[2], n[0] * x_ax[1] - n[1] * x_ax[0]]
        base = []
        for k in range(3):
            ang = 2 * math.pi * k / 3 + rng.uniform(-0.3, 0.3)
            r = rng.uniform(0.3, 1.0)
            base.append([apex[i] + h * n[i] + r * (math.cos(ang) * x_ax[i] + math.sin(ang) * y_ax[i]) for i in range(3)])
        if rng.random() < 0.3 and cls == "touching":
            # face against face instead of vertex against face
            base2 = [[apex[i] + 0.3 * (math.cos(2 * math.pi * k / 3) * x_ax[i] + math.sin(2 * math.pi * k / 3) * y_ax[i])
                      for i in range(3)] for k in range(3)]
            t2 = base2 + [[apex[i] + h * n[i] for i in range(3)]]
        else:
            t2 = [apex] + base
        e1, e2 = rand_pot(rng), rand_pot(rng)
        if rng.random() < 0.5:
            # factory-like: potential zero on the touching face / vertex
            e1 = [0.0, 0.0, 0.0, rng.uniform(0.2, 1.0)]
        if cls == "disjoint":
            c["expect_disjoint"] = dict(n=n)
    else:
        raise ValueError(cls)
    if max(e1) - min(e1) <= 0.0 and max(e2) - min(e2) <= 0.0:
        # two constant potentials: neither pressure field has a gradient, there is no equal-pressure plane
        e1 = list(e1)
        e1[rng.randrange(4)] = 0.0
    c.update(t1=[[float(x) for x in p] for p in t1], e1=[float(x) for x in e1],
             t2=[[float(x) for x in p] for p in t2], e2=[float(x) for x in e2], E1=float(E1), E2=float(E2))
    return c


def parse_coq_value(s):
    """Coq list/tuple syntax of floats / numbers -> nested Python lists"""
    import json
    import re
    s = s.replace("%Z", "").replace("%float", "").replace("%nat", "")
    s = re.sub(r"\((-[0-9][0-9.e+-]*)\)", r"\1", s)
    s = s.replace("(", "[").replace(")", "]").replace(";", ",")
    s = re.sub(r"\bneg_infinity\b", "-1e999", s)
    s = re.sub(r"\binfinity\b", "1e999", s)
    s = re.sub(r"\bnan\b", "NaN", s)
    s = re.sub(r"\btrue\b", "1", s)
    s = re.sub(r"\bfalse\b", "0", s)
    return json.loads(s)


# ----------------------------------------------------------------- exact reference polygon (Fractions)
def _fr(x):
    from fractions import Fraction
    return Fraction(float(x))


def exact_polygon(t1, t2, plane):
    """The exact intersection of the plane {n.x = d} (n, d: the binary64 numbers given) with
    both tetrahedra, computed in rational arithmetic: list of vertices (Fractions), possibly
    empty, in cyclic order.  Independent oracle for completeness of the reported polygon."""
    n = [_fr(x) for x in plane[:3]]
    d = _fr(plane[3])
    T1 = [[_fr(x) for x in p] for p in t1]
    T2 = [[_fr(x) for x in p] for p in t2]

    def dot(a, b):
        return a[0] * b[0] + a[1] * b[1] + a[2] * b[2]

    def sub(a, b):
        return [a[0] - b[0], a[1] - b[1], a[2] - b[2]]

    def cross(a, b):
        return [a[1] * b[2] - a[2] * b[1], a[2] * b[0] - a[0] * b[2], a[0] * b[1] - a[1] * b[0]]

    # cross-section of tetrahedron 1
    s = [dot(n, p) - d for p in T1]
    pts = []
    for i in range(4):
        if s[i] == 0:
            pts.append(T1[i])
        for j in range(i + 1, 4):
            if s[i] * s[j] < 0:
                t = s[i] / (s[i] - s[j])
                pts.append([T1[i][k] + (T1[j][k] - T1[i][k]) * t for k in range(3)])
    uniq = []
    for p in pts:
        if p not in uniq:
            uniq.append(p)
    if len(uniq) < 3:
        return []
    # order counter-clockwise about n: sort around the first point by exact orientation
    c = [sum(p[k] for p in uniq) / len(uniq) for k in range(3)]

    def half(p):
        # pseudo-angle bucket relative to the first direction
        v = sub(p, c)
        r = sub(uniq[0], c)
        cr = dot(n, cross(r, v))
        dt = dot(r, v)
        return (0 if (cr > 0 or (cr == 0 and dt > 0)) else 1, v)

    import functools

    def cmp(p, q):
        hp_, vp = half(p)
        hq, vq = half(q)
        if hp_ != hq:
            return -1 if hp_ < hq else 1
        cr = dot(n, cross(vp, vq))
        return -1 if cr > 0 else (1 if cr < 0 else 0)
    poly = [uniq[0]] + sorted(uniq[1:], key=functools.cmp_to_key(cmp))
    # clip by the four faces of tetrahedron 2
    for f in range(4):
        a, b, cc = [T2[k] for k in range(4) if k != f]
        nf = cross(sub(b, a), sub(cc, a))
        if dot(nf, sub(T2[f], a)) < 0:
            nf = [-x for x in nf]
        out = []
        m = len(poly)
        for i in range(m):
            p, q = poly[i], poly[(i + 1) % m]
            sp, sq = dot(nf, sub(p, a)), dot(nf, sub(q, a))
            if sp >= 0:
                out.append(p)
            if (sp > 0 and sq < 0) or (sp < 0 and sq > 0):
                t = sp / (sp - sq)
                out.append([p[k] + (q[k] - p[k]) * t for k in range(3)])
        poly = out
        if len(poly) < 3:
            return []
    res = []
    for p in poly:
        if p not in res:
            res.append(p)
    return res if len(res) >= 3 else []


def exact_area(poly, plane):
    """area of a planar polygon given by Fractions (0 for fewer than 3 vertices)"""
    if len(poly) < 3:
        return 0.0
    n = [_fr(x) for x in plane[:3]]
    A = [0, 0, 0]
    p0 = poly[0]
    for i in range(1, len(poly) - 1):
        u = [poly[i][k] - p0[k] for k in range(3)]
        v = [poly[i + 1][k] - p0[k] for k in range(3)]
        A[0] += u[1] * v[2] - u[2] * v[1]
        A[1] += u[2] * v[0] - u[0] * v[2]
        A[2] += u[0] * v[1] - u[1] * v[0]
    nn = math.sqrt(float(n[0] * n[0] + n[1] * n[1] + n[2] * n[2]))
    return abs(float(A[0] * n[0] + A[1] * n[1] + A[2] * n[2])) / (2.0 * nn)


def bary_exact(T, v):
    """barycentric coordinates (Fractions) of the point v (Fractions) in the tetrahedron T (floats)"""
    a, b, c, e = [[_fr(x) for x in p] for p in T]

    def sub(p, q):
        return [p[0] - q[0], p[1] - q[1], p[2] - q[2]]

    def det(u, w, z):
        return (u[0] * (w[1] * z[2] - w[2] * z[1]) - u[1] * (w[0] * z[2] - w[2] * z[0])
                + u[2] * (w[0] * z[1] - w[1] * z[0]))
    ba, ca, ea, va = sub(b, a), sub(c, a), sub(e, a), sub(v, a)
    d = det(ba, ca, ea)
    lb, lc, le = det(va, ca, ea) / d, det(ba, va, ea) / d, det(ba, ca, va) / d
    return [1 - lb - lc - le, lb, lc, le]


def concurrent_lines(t1, t2, plane, tol=1e-9):
    """does some vertex of the exact contact polygon (plane as given) lie on three or more of the
    eight face planes, i.e. are face lines coincident or concurrent in the contact plane?
    (input-class predicate of known finding F18)"""
    P = exact_polygon(t1, t2, plane)
    for v in P:
        bs = bary_exact(t1, v) + bary_exact(t2, v)
        if sum(1 for x in bs if abs(float(x)) <= tol) >= 3:
            return True
    return False


# ----------------------------------------------------------------- robust worker runs
def run_cases(cm, pid, script, cases, tag, per=8, timeout=1800, jit=True, trace=False, notes=None):
    """Run `cases` through harness/impl/<script>.py in parallel chunks (via cm.run_impl_parallel, i.e.
    under the machine-wide slot throttle).  A chunk whose worker crashed or timed out is re-run ALONE with
    twice the time limit; only if that fails too it is bisected down to the case(s) that make the worker
    fail, so that a busy machine or a cold numba cache never turns into a verdict on a case.
    Returns (results, coverage_reports); a case whose worker fails when run alone gets
    dict(exc='PROCESS-CRASH'|'PROCESS-TIMEOUT', ...)."""
    if not cases:
        return [], []
    nw = min(cm.NCPU, max(1, len(cases) // per))
    chunks = [cases[i::nw] for i in range(nw)]
    res = cm.run_impl_parallel(pid, script, [dict(cases=c, trace=trace) for c in chunks], timeout=timeout, jit=jit, tag=tag)
    out = [None] * len(cases)
    covs = []

    def solve(ch, idxs, depth):
        """re-run a failed chunk alone; bisect if it fails again"""
        rr = cm.run_impl(pid, script, dict(cases=ch, trace=False), timeout=2 * timeout, jit=jit, tag=f"{tag}_retry{depth}_{idxs[0]}")
        if rr["status"] == "ok":
            for i, x in zip(idxs, rr["result"]["results"]):
                out[i] = x
            if notes is not None:
                notes.append(f"worker chunk of {len(ch)} {script} cases failed under load and succeeded when re-run alone")
            return
        if len(ch) == 1:
            out[idxs[0]] = dict(exc=f"PROCESS-{rr['status'].upper()}", exc_msg=f"rc={rr.get('rc')} {rr.get('log', '')[-300:]}")
            return
        h = len(ch) // 2
        solve(ch[:h], idxs[:h], depth + 1)
        solve(ch[h:], idxs[h:], depth + 1)

    for w, (rr, ch) in enumerate(zip(res, chunks)):
        idxs = list(range(w, len(cases), nw))
        if rr["status"] == "ok":
            for i, x in zip(idxs, rr["result"]["results"]):
                out[i] = x
            if rr["result"].get("coverage"):
                covs.append(rr["result"]["coverage"])
        else:
            solve(ch, idxs, 0)
    return out, covs


def coq_eval(cm, pid, header, exprs, tag, per_file, timeout=1500, rebuild=None):
    """cm.coq_eval_lines made robust against the machine: a file that timed out (rc 124/137) is re-tried once in
    quarter-size files with twice the limit; "inconsistent assumptions" (somebody rebuilt a library we Require
    while our files were being compiled) triggers a rebuild of `rebuild` (targets under coq/) and one re-try.
    Neither may look like a broken proof or model."""
    if not exprs:
        return []
    try:
        return cm.coq_eval_lines(pid, header, exprs, tag=tag, per_file=per_file, timeout=timeout)
    except RuntimeError as e:
        msg = str(e)
        if "inconsistent assumptions" in msg or "Cannot find a physical path" in msg or "No such file" in msg:
            if rebuild:
                cm.coq_build(rebuild)
            return cm.coq_eval_lines(pid, header, exprs, tag=tag + "_retry", per_file=per_file, timeout=timeout)
        if "rc=124" in msg or "rc=137" in msg or "rc=-9" in msg:
            return cm.coq_eval_lines(pid, header, exprs, tag=tag + "_retry", per_file=max(1, per_file // 4), timeout=2 * timeout)
        raise
