"""Generators shared by the hydroelastic checks C15 / C16 (bodies from the RigidBody
factories, poses, tetrahedron pairs).  All randomness comes from the `rng` passed in
(random.Random seeded by the Run)."""
import math


# ----------------------------------------------------------------- linear algebra (lists)
def matmul(a, b):
    return [[sum(a[i][k] * b[k][j] for k in range(len(b))) for j in range(len(b[0]))] for i in range(len(a))]


def rot_from_quat(q):
    w, x, y, z = q
    n = math.sqrt(w * w + x * x + y * y + z * z)
    w, x, y, z = w / n, x / n, y / n, z / n
    return [[1 - 2 * (y * y + z * z), 2 * (x * y - z * w), 2 * (x * z + y * w)],
            [2 * (x * y + z * w), 1 - 2 * (x * x + z * z), 2 * (y * z - x * w)],
            [2 * (x * z - y * w), 2 * (y * z + x * w), 1 - 2 * (x * x + y * y)]]


def rand_rot(rng):
    while True:
        q = [rng.gauss(0, 1) for _ in range(4)]
        if sum(x * x for x in q) > 1e-6:
            return rot_from_quat(q)


def lattice_rot(rng):
    """one of the 24 proper signed permutation matrices"""
    import itertools
    perms = list(itertools.permutations(range(3)))
    while True:
        p = rng.choice(perms)
        s = [rng.choice([-1.0, 1.0]) for _ in range(3)]
        m = [[0.0] * 3 for _ in range(3)]
        for i in range(3):
            m[i][p[i]] = s[i]
        det = (m[0][0] * (m[1][1] * m[2][2] - m[1][2] * m[2][1])
               - m[0][1] * (m[1][0] * m[2][2] - m[1][2] * m[2][0])
               + m[0][2] * (m[1][0] * m[2][1] - m[1][1] * m[2][0]))
        if det > 0:
            return m


def pose(Rm, t):
    return [Rm[0] + [float(t[0])], Rm[1] + [float(t[1])], Rm[2] + [float(t[2])], [0.0, 0.0, 0.0, 1.0]]


IDENT = [[1.0, 0.0, 0.0], [0.0, 1.0, 0.0], [0.0, 0.0, 1.0]]


def rand_unit(rng):
    while True:
        v = [rng.gauss(0, 1) for _ in range(3)]
        n = math.sqrt(sum(x * x for x in v))
        if n > 1e-6:
            return [x / n for x in v]


def apply(Rm, v):
    return [sum(Rm[i][k] * v[k] for k in range(3)) for i in range(3)]


def logu(rng, lo, hi):
    return math.exp(rng.uniform(math.log(lo), math.log(hi)))


# ----------------------------------------------------------------- bodies
SHAPES = ["sphere", "ellipsoid", "cube", "box", "cylinder", "capsule"]


def body_params(rng, shape, scale, fine=False):
    """parameters of one factory body of overall size ~scale; returns (params, r_in, r_out):
    radii of a ball contained in / containing the body (centre = body origin)."""
    s = scale
    if shape == "sphere":
        r = s * rng.uniform(0.5, 1.0)
        return dict(radius=r, order=rng.choice([1, 2] if not fine else [2, 3])), 0.8 * r, r
    if shape == "ellipsoid":
        radii = [s * rng.uniform(0.4, 1.0) for _ in range(3)]
        return dict(radii=radii, order=rng.choice([1, 2] if not fine else [2, 3])), 0.8 * min(radii), max(radii)
    if shape == "cube":
        a = s * rng.uniform(0.8, 2.0)
        return dict(size=a), a / 2, a * math.sqrt(3) / 2
    if shape == "box":
        sz = [s * rng.uniform(0.6, 2.0) for _ in range(3)]
        return dict(size=sz), min(sz) / 2, math.sqrt(sum(x * x for x in sz)) / 2
    if shape == "cylinder":
        r = s * rng.uniform(0.4, 1.0)
        ln = s * rng.uniform(0.5, 3.0)
        hint = r * rng.uniform(0.5, 1.2) * (0.5 if fine else 1.0)
        return dict(radius=r, length=ln, resolution_hint=hint), 0.8 * min(r, ln / 2), math.hypot(r, ln / 2)
    if shape == "capsule":
        r = s * rng.uniform(0.4, 1.0)
        h = s * rng.uniform(0.5, 2.0)
        hint = r * rng.uniform(0.7, 1.3) * (0.6 if fine else 1.0)
        return dict(radius=r, height=h, resolution_hint=hint), 0.8 * r, r + h / 2
    raise ValueError(shape)


def body_pair(rng, mode="random", fine=False, shapes=None):
    """two body specs with world poses.  mode: random (general rotations of both bodies,
    overlapping by a random amount), separated (gap between bounding balls), lattice
    (axis-aligned, exactly representable offsets), stacked (axis-aligned boxes/cubes resting
    on each other: faces parallel to the contact plane)."""
    shapes = shapes or SHAPES
    if mode == "stacked":
        a = rng.choice([0.25, 0.5, 1.0, 2.0])
        k1, k2 = rng.choice(["cube", "box"]), rng.choice(["cube", "box"])

        def mk(kind):
            if kind == "cube":
                return dict(size=a), a / 2
            sz = [a * rng.choice([0.5, 1.0, 2.0]) for _ in range(3)]
            return dict(size=sz), sz[2] / 2
        p1, h1 = mk(k1)
        p2, h2 = mk(k2)
        pen = a * rng.choice([0.0625, 0.125, 0.25, 0.1, 0.01])
        c2 = [rng.choice([0.0, 0.5, -1.0, 3.0]) for _ in range(3)]
        off = [a * rng.choice([0.0, 0.0, 0.25, -0.125]), a * rng.choice([0.0, 0.0, 0.25, -0.125]), h1 + h2 - pen]
        c1 = [c2[i] + off[i] for i in range(3)]
        E1, E2 = rng.choice([1.0, 1.0, 0.01, 100.0]), rng.choice([1.0, 1.0, 0.01, 100.0])
        return (dict(shape=k1, params=p1, pose=pose(IDENT, c1), E=E1),
                dict(shape=k2, params=p2, pose=pose(IDENT, c2), E=E2))
    scale = logu(rng, 0.05, 20.0) if mode != "lattice" else rng.choice([0.25, 0.5, 1.0, 2.0, 4.0])
    s1, s2 = rng.choice(shapes), rng.choice(shapes)
    p1, in1, out1 = body_params(rng, s1, scale * rng.uniform(0.6, 1.6), fine)
    p2, in2, out2 = body_params(rng, s2, scale, fine)
    if mode == "lattice":
        R1, R2 = lattice_rot(rng), lattice_rot(rng)
        c2 = [scale * rng.choice([-2.0, -1.0, 0.0, 0.5, 1.0, 3.0]) for _ in range(3)]
        d = rng.choice([[1.0, 0.0, 0.0], [0.0, 1.0, 0.0], [0.0, 0.0, 1.0], [0.0, 0.0, -1.0], [1.0, 1.0, 0.0]])
        dist = round((in1 + in2) * rng.choice([0.5, 0.75, 1.0]) * 8) / 8.0
        c1 = [c2[i] + d[i] * dist for i in range(3)]
    else:
        R1, R2 = rand_rot(rng), rand_rot(rng)
        c2 = [rng.uniform(-1, 1) * 10 * scale for _ in range(3)]
        d = rand_unit(rng)
        if mode == "separated":
            dist = (out1 + out2) * rng.uniform(1.02, 1.5)
        else:
            # from deep overlap (inner balls overlap) to grazing (outer balls barely overlap)
            lo, hi = 0.35 * (in1 + in2), 0.5 * (in1 + in2) + 0.5 * (out1 + out2)
            dist = rng.uniform(lo, hi)
        c1 = [c2[i] + d[i] * dist for i in range(3)]
    E1, E2 = logu(rng, 1e-2, 1e2), logu(rng, 1e-2, 1e2)
    if rng.random() < 0.3:
        E1 = E2 = 1.0
    return (dict(shape=s1, params=p1, pose=pose(R1, c1), E=E1),
            dict(shape=s2, params=p2, pose=pose(R2, c2), E=E2))


def rigid_motion(rng, scale=1.0, lattice=False):
    if lattice:
        return pose(lattice_rot(rng), [rng.choice([-2.0, 0.0, 1.0, 0.5]) for _ in range(3)])
    return pose(rand_rot(rng), [rng.uniform(-1, 1) * 5 * scale for _ in range(3)])


def body_size(spec):
    p = spec["params"]
    vals = []
    for v in p.values():
        if isinstance(v, (list, tuple)):
            vals += [float(x) for x in v]
        elif isinstance(v, float):
            vals.append(float(v))
    return max(vals) if vals else 1.0
