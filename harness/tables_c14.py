"""Fail-closed ast reader for C14 -> coq/theories/Gen/CollidersTables.v.

Re-extracted from /repo's sources on every run of the C14 check:

* the declared numba signature layouts of every compiled entry point that collider
  methods call from interpreted code (`@numba.njit(<sig>, cache=True)` decorators in
  geometry.py / utils.py / mesh.py): per argument `Some true` (array that must be
  C-contiguous: `[::1]`, `[:, ::1]`), `Some false` (array of any layout: `[:]`, `[:, :]`)
  or `None` (not an array); `None` for the whole signature when the function is compiled
  lazily (no declared signature: any layout is accepted);
* what every `update_pose` stores: for the attributes that are views of the pose
  (`pose[:3, 3]`, `pose[:3, 2]`, `pose[:3, :2].T`) whether a contiguous copy
  (`np.ascontiguousarray(...)` / `.copy()`) is stored; every other statement of every
  `update_pose` must have exactly the shape the hand-written model
  (coq/theories/Model/Colliders.v) transliterates;
* every call of a compiled entry point made by a collider method, with the form of each
  argument (`self.attr`, `np.ascontiguousarray(self.attr)`, the search direction, the pose
  parameter); the set of calls must be exactly the expected one and each `self.attr`
  argument yields a `wrap_*` flag (wrapped in np.ascontiguousarray at the call site?).

Anything unexpected raises TablesError: the check then reports the obligations of C14 as
broken instead of silently proving theorems about a model of different code.
"""
import ast
from pathlib import Path

from .tables import TablesError

ENTRY_POINTS = {
    "geometry.py": ["convert_box_to_vertices", "support_function_cylinder", "support_function_capsule",
                    "support_function_ellipsoid", "support_function_sphere", "support_function_disk",
                    "support_function_ellipse", "support_function_cone"],
    "utils.py": ["norm_vector", "plane_basis_from_normal"],
    "mesh.py": ["hill_climb_mesh_extreme"],
}
ALL_FNS = [f for fs in ENTRY_POINTS.values() for f in fs]


# ------------------------------------------------------------------ signatures
def _dotted(node):
    if isinstance(node, ast.Name):
        return node.id
    if isinstance(node, ast.Attribute):
        return _dotted(node.value) + "." + node.attr
    raise TablesError(f"unexpected name expression {ast.dump(node)}")


def _is_full_slice(s):
    return isinstance(s, ast.Slice) and s.lower is None and s.upper is None and s.step is None


def _is_unit_slice(s):
    return (isinstance(s, ast.Slice) and s.lower is None and s.upper is None
            and isinstance(s.step, ast.Constant) and s.step.value == 1)


def _argtype(node):
    """-> None (not an array) | True (array, C-contiguous required) | False (array, any layout)."""
    if isinstance(node, ast.Attribute):
        nm = _dotted(node)
        if nm in ("numba.float64", "numba.int64", "numba.boolean", "numba.int32", "numba.float32"):
            return None
        raise TablesError(f"unknown scalar type {nm}")
    if isinstance(node, ast.Call):
        fn = _dotted(node.func)
        if fn == "numba.optional" and len(node.args) == 1:
            return _argtype(node.args[0])
        if fn == "numba.types.DictType":
            return None
        raise TablesError(f"unknown type constructor {fn}")
    if isinstance(node, ast.Subscript):
        base = _dotted(node.value)
        if base not in ("numba.float64", "numba.int64"):
            raise TablesError(f"unknown array element type {base}")
        sl = node.slice
        dims = list(sl.elts) if isinstance(sl, ast.Tuple) else [sl]
        if all(_is_full_slice(d) for d in dims):
            return False
        if all(_is_full_slice(d) for d in dims[:-1]) and _is_unit_slice(dims[-1]):
            return True
        raise TablesError(f"unsupported array layout in signature: {ast.unparse(node)}")
    raise TablesError(f"unsupported signature element: {ast.dump(node)}")


def read_signatures(repo):
    sigs = {}
    for fname, fns in ENTRY_POINTS.items():
        tree = ast.parse((Path(repo) / "distance3d" / fname).read_text())
        found = {n.name: n for n in tree.body if isinstance(n, ast.FunctionDef)}
        for fn in fns:
            if fn not in found:
                raise TablesError(f"{fname}: function {fn} not found")
            node = found[fn]
            nargs = len(node.args.args)
            if node.args.vararg or node.args.kwarg or node.args.kwonlyargs:
                raise TablesError(f"{fn}: unexpected parameter kinds")
            decos = node.decorator_list
            if len(decos) == 0:
                sigs[fn] = None           # interpreted: no layout requirement
                continue
            if len(decos) != 1 or not isinstance(decos[0], ast.Call) or \
                    _dotted(decos[0].func) not in ("numba.njit", "numba.jit"):
                raise TablesError(f"{fn}: unexpected decorator")
            d = decos[0]
            for kw in d.keywords:
                if kw.arg not in ("cache", "nopython", "fastmath", "nogil"):
                    raise TablesError(f"{fn}: unexpected decorator keyword {kw.arg}")
            if len(d.args) == 0:
                sigs[fn] = None           # lazily compiled: every layout gets its own specialisation
                continue
            if len(d.args) != 1 or not isinstance(d.args[0], ast.Call):
                raise TablesError(f"{fn}: unexpected signature form")
            s = d.args[0]                 # rettype(argtypes...)
            if s.keywords or len(s.args) != nargs:
                raise TablesError(f"{fn}: signature arity {len(s.args)} != {nargs} parameters")
            sigs[fn] = [_argtype(a) for a in s.args]
    return sigs


# ------------------------------------------------------------------ collider methods
def _is_self_attr(node):
    return isinstance(node, ast.Attribute) and isinstance(node.value, ast.Name) and node.value.id == "self"


def _index_ir(sub, param):
    """pose[:3, j] -> COLj ; pose[:3, :n].T -> COLS{n}T (param = name of the pose parameter)."""
    if isinstance(sub, ast.Attribute) and sub.attr == "T":
        inner = sub.value
        if (isinstance(inner, ast.Subscript) and isinstance(inner.value, ast.Name) and inner.value.id == param
                and isinstance(inner.slice, ast.Tuple) and len(inner.slice.elts) == 2):
            a, b = inner.slice.elts
            if _upto(a, 3) and isinstance(b, ast.Slice) and b.lower is None and b.step is None \
                    and isinstance(b.upper, ast.Constant):
                return f"COLS{b.upper.value}T"
    if (isinstance(sub, ast.Subscript) and isinstance(sub.value, ast.Name) and sub.value.id == param
            and isinstance(sub.slice, ast.Tuple) and len(sub.slice.elts) == 2):
        a, b = sub.slice.elts
        if _upto(a, 3) and isinstance(b, ast.Constant) and isinstance(b.value, int):
            return f"COL{b.value}"
    return None


def _upto(s, n):
    return (isinstance(s, ast.Slice) and s.lower is None and s.step is None
            and isinstance(s.upper, ast.Constant) and s.upper.value == n)


def _expr_ir(node, param):
    """IR of an expression in update_pose / of a call argument."""
    if isinstance(node, ast.Name):
        if node.id in ("search_direction", "search_direction_in_mesh"):
            return "DIR" if node.id == "search_direction" else "LOCALDIR"
        if node.id == param:
            return "POSE"
        return f"NAME({node.id})"
    if _is_self_attr(node):
        return f"ATTR({node.attr})"
    v = _index_ir(node, param)
    if v is not None:
        return v
    if isinstance(node, ast.Call):
        if isinstance(node.func, ast.Attribute) and node.func.attr == "copy" and not node.args and not node.keywords:
            return f"CONTIG({_expr_ir(node.func.value, param)})"
        fn = _dotted(node.func)
        if fn == "np.ascontiguousarray" and len(node.args) == 1 and not node.keywords:
            return f"CONTIG({_expr_ir(node.args[0], param)})"
        if fn in ALL_FNS and not node.keywords:
            return "CALL(" + ",".join([fn] + [_expr_ir(a, param) for a in node.args]) + ")"
    raise TablesError(f"unexpected expression: {ast.unparse(node)}")


def _is_artist_guard(st, param):
    """if self.artist_ is not None: self.artist_.set_data(<param>)"""
    try:
        return (isinstance(st, ast.If) and not st.orelse and len(st.body) == 1
                and ast.unparse(st.test) == "self.artist_ is not None"
                and ast.unparse(st.body[0]) == f"self.artist_.set_data({param})")
    except Exception:
        return False


def _update_ir(fn):
    """Normalised statement list of an update_pose method."""
    if len(fn.args.args) != 2:
        raise TablesError("update_pose must take (self, pose)")
    param = fn.args.args[1].arg
    out = []
    for st in fn.body:
        if isinstance(st, ast.Expr) and isinstance(st.value, ast.Constant) and isinstance(st.value.value, str):
            continue  # docstring
        if _is_artist_guard(st, param):
            continue
        if isinstance(st, ast.Assign) and len(st.targets) == 1 and _is_self_attr(st.targets[0]):
            out.append(f"{st.targets[0].attr}={_expr_ir(st.value, param)}")
            continue
        if isinstance(st, ast.Expr) and isinstance(st.value, ast.Call):
            c = st.value
            if (isinstance(c.func, ast.Attribute) and c.func.attr == "update_pose" and _is_self_attr(c.func.value)
                    and len(c.args) == 1 and isinstance(c.args[0], ast.Name) and c.args[0].id == param):
                out.append(f"SUB({c.func.value.attr})")
                continue
        if isinstance(st, ast.Raise):
            out.append("RAISE")
            continue
        raise TablesError(f"unexpected statement in update_pose: {ast.unparse(st)}")
    return out


def _calls_ir(fn):
    """All calls of compiled entry points inside a method, in source order."""
    param = fn.args.args[1].arg if len(fn.args.args) > 1 else "__none__"
    out = []
    for node in ast.walk(fn):
        if isinstance(node, ast.Call):
            try:
                nm = _dotted(node.func)
            except TablesError:
                continue
            if nm in ALL_FNS:
                out.append((node.lineno, node.col_offset, _expr_ir(node, param)))
    return [x[2] for x in sorted(out)]


def _state_writes(fn):
    """attribute / item writes through `self` (or setattr/__dict__ tricks) inside a method"""
    out = []
    for node in ast.walk(fn):
        targets = []
        if isinstance(node, ast.Assign):
            targets = node.targets
        elif isinstance(node, (ast.AugAssign, ast.AnnAssign)):
            targets = [node.target]
        elif isinstance(node, ast.Delete):
            targets = node.targets
        elif isinstance(node, ast.Call):
            try:
                nm = _dotted(node.func)
            except TablesError:
                nm = ""
            if nm in ("setattr", "delattr", "object.__setattr__") or nm.endswith(".__setattr__") \
                    or nm in ("self.__dict__.update", "self.__dict__.setdefault", "vars"):
                out.append(nm)
        elif isinstance(node, (ast.Global, ast.Nonlocal)):
            out.append("global")
        for t in targets:
            for sub in ast.walk(t):
                if isinstance(sub, ast.Attribute) and isinstance(sub.ctx, (ast.Store, ast.Del)) and _rooted_in_self(sub):
                    out.append(ast.unparse(sub))
                if isinstance(sub, ast.Subscript) and isinstance(sub.ctx, (ast.Store, ast.Del)) and _rooted_in_self(sub.value):
                    out.append(ast.unparse(sub))
    return out


def _rooted_in_self(node):
    while isinstance(node, (ast.Attribute, ast.Subscript)):
        node = node.value
    return isinstance(node, ast.Name) and node.id == "self"


def _classes(path):
    tree = ast.parse(Path(path).read_text())
    out = {}
    for n in tree.body:
        if isinstance(n, ast.ClassDef):
            out[n.name] = {m.name: m for m in n.body if isinstance(m, ast.FunctionDef)}
            out[n.name]["__bases__"] = [ast.unparse(b) for b in n.bases]
    return out


VIEW_ATTRS = {  # (class, attr) -> the view of the pose that update_pose must store
    ("Sphere", "c"): "COL3", ("Disk", "c"): "COL3", ("Disk", "normal"): "COL2",
    ("Ellipse", "c"): "COL3", ("Ellipse", "axes"): "COLS2T",
}
EXPECTED_UPDATE = {  # everything that is not a view attribute, exactly
    "ConvexHullVertices": ["RAISE"],
    "Box": ["box2origin=POSE", "vertices=CALL(convert_box_to_vertices,POSE,ATTR(size))"],
    "MeshGraph": ["mesh2origin=POSE", "SUB(_support_function)"],
    "Sphere": ["c=?"],
    "Capsule": ["capsule2origin=POSE"],
    "Ellipsoid": ["ellipsoid2origin=POSE"],
    "Cylinder": ["cylinder2origin=POSE"],
    "Disk": ["c=?", "normal=?"],
    "Ellipse": ["c=?", "axes=?"],
    "Cone": ["cone2origin=POSE"],
    "Margin": ["SUB(collider)"],
}
# (class, method) -> compiled calls, `?attr` marks an argument that may be wrapped
EXPECTED_CALLS = {
    ("Box", "__init__"): ["CALL(convert_box_to_vertices,POSE,NAME(size))"],
    ("Box", "update_pose"): ["CALL(convert_box_to_vertices,POSE,ATTR(size))"],
    ("Sphere", "support_function"): ["CALL(support_function_sphere,DIR,?c,ATTR(radius))"],
    ("Capsule", "support_function"): ["CALL(support_function_capsule,DIR,?capsule2origin,ATTR(radius),ATTR(height))"],
    ("Ellipsoid", "support_function"): ["CALL(support_function_ellipsoid,DIR,?ellipsoid2origin,?radii)"],
    ("Cylinder", "support_function"): ["CALL(support_function_cylinder,DIR,?cylinder2origin,ATTR(radius),ATTR(length))"],
    ("Disk", "first_vertex"): ["CALL(plane_basis_from_normal,?normal)"],
    ("Disk", "support_function"): ["CALL(support_function_disk,DIR,?c,ATTR(radius),?normal)"],
    ("Disk", "collider2origin"): ["CALL(plane_basis_from_normal,?normal)"],
    ("Ellipse", "support_function"): ["CALL(support_function_ellipse,DIR,?c,?axes,?radii)"],
    ("Cone", "support_function"): ["CALL(support_function_cone,DIR,?cone2origin,ATTR(radius),ATTR(height))"],
    ("Margin", "support_function"): ["CALL(norm_vector,DIR)"],
}
MESH_CALL = ("CALL(hill_climb_mesh_extreme,LOCALDIR,ATTR(first_idx),ATTR(vertices),ATTR(connections),"
             "ATTR(shortcut_connections))")


def _match_call(cls, meth, got, exp, flags):
    """Match a call IR against the expected pattern; record wrap flags of `?attr` arguments."""
    if not (got.startswith("CALL(") and exp.startswith("CALL(")):
        raise TablesError(f"{cls}.{meth}: {got} vs {exp}")
    g = _split_args(got[5:-1])
    e = _split_args(exp[5:-1])
    if len(g) != len(e) or g[0] != e[0]:
        raise TablesError(f"{cls}.{meth}: compiled call {got} does not have the expected shape {exp}")
    for ga, ea in zip(g[1:], e[1:]):
        if ea.startswith("?"):
            a = ea[1:]
            if ga == f"ATTR({a})":
                flags[(cls, meth, a)] = False
            elif ga == f"CONTIG(ATTR({a}))":
                flags[(cls, meth, a)] = True
            else:
                raise TablesError(f"{cls}.{meth}: argument {ga} is neither self.{a} nor a contiguous copy of it")
        elif ga != ea:
            raise TablesError(f"{cls}.{meth}: argument {ga}, expected {ea}")


def _split_args(s):
    out, depth, cur = [], 0, ""
    for ch in s:
        if ch == "," and depth == 0:
            out.append(cur)
            cur = ""
        else:
            depth += ch == "("
            depth -= ch == ")"
            cur += ch
    out.append(cur)
    return out


def read_colliders(repo):
    cl = _classes(Path(repo) / "distance3d" / "colliders.py")
    upd_contig = {}
    for cls, exp in EXPECTED_UPDATE.items():
        if cls not in cl or "update_pose" not in cl[cls]:
            raise TablesError(f"colliders.py: {cls}.update_pose not found")
        got = _update_ir(cl[cls]["update_pose"])
        if len(got) != len(exp):
            raise TablesError(f"{cls}.update_pose: statements {got}, expected shape {exp}")
        for g, e in zip(got, exp):
            if e.endswith("=?"):
                attr = e[:-2]
                view = VIEW_ATTRS[(cls, attr)]
                if g == f"{attr}={view}":
                    upd_contig[(cls, attr)] = False
                elif g.startswith(f"{attr}=CONTIG(") and g.replace("CONTIG(", "").rstrip(")") == f"{attr}={view}":
                    upd_contig[(cls, attr)] = True
                else:
                    raise TablesError(f"{cls}.update_pose: {g} is not (a contiguous copy of) the view {view}")
            elif g != e:
                raise TablesError(f"{cls}.update_pose: statement {g}, expected {e}")
    # classes with update_pose that the model does not know
    for cls, meths in cl.items():
        if "update_pose" in meths and cls not in EXPECTED_UPDATE and cls != "ConvexCollider":
            raise TablesError(f"colliders.py: unmodelled class with update_pose: {cls}")
    # no hidden state: outside __init__ / update_pose / make_artist no collider method may write an
    # attribute (a cache filled by a query would survive update_pose unnoticed by the model)
    for cls, meths in cl.items():
        for m, fn in meths.items():
            if m in ("__bases__", "__init__", "update_pose", "make_artist"):
                continue
            w = _state_writes(fn)
            if w:
                raise TablesError(f"colliders.py: {cls}.{m} writes object state ({', '.join(w)}): not modelled")
    # compiled calls made from collider methods
    wrap = {}
    for cls, meths in cl.items():
        for m, fn in meths.items():
            if m == "__bases__" or m == "make_artist":
                continue
            got = _calls_ir(fn)
            exp = EXPECTED_CALLS.get((cls, m), [])
            if len(got) != len(exp):
                raise TablesError(f"{cls}.{m}: compiled calls {got}, expected {exp}")
            for g, e in zip(got, exp):
                _match_call(cls, m, g, e, wrap)
    # the mesh functor
    mc = _classes(Path(repo) / "distance3d" / "mesh.py")
    f = mc.get("MeshHillClimbingSupportFunction")
    if f is None or _update_ir(f["update_pose"]) != ["mesh2origin=POSE"]:
        raise TablesError("mesh.py: MeshHillClimbingSupportFunction.update_pose has an unexpected shape")
    if _calls_ir(f["__call__"]) != [MESH_CALL]:
        raise TablesError(f"mesh.py: __call__ makes compiled calls {_calls_ir(f['__call__'])}")
    if _state_writes(f["__call__"]) != ["self.first_idx"]:
        raise TablesError(f"mesh.py: __call__ writes {_state_writes(f['__call__'])}, expected the vertex cache only")
    for m, fn in f.items():
        if m not in ("__bases__", "__init__", "update_pose", "__call__") and _state_writes(fn):
            raise TablesError(f"mesh.py: MeshHillClimbingSupportFunction.{m} writes object state")
    # containment.box_aabb (called by Box.aabb with self.box2origin, self.size)
    ct = ast.parse((Path(repo) / "distance3d" / "containment.py").read_text())
    ba = [n for n in ct.body if isinstance(n, ast.FunctionDef) and n.name == "box_aabb"]
    if len(ba) != 1 or _calls_ir(ba[0]) != ["CALL(convert_box_to_vertices,NAME(box2origin),POSE)"] \
            or [a.arg for a in ba[0].args.args] != ["box2origin", "size"]:
        raise TablesError("containment.box_aabb has an unexpected shape")
    if "box_aabb(self.box2origin, self.size)" not in ast.unparse(cl["Box"]["aabb"]):
        raise TablesError("Box.aabb does not call box_aabb(self.box2origin, self.size)")
    return upd_contig, wrap


# ------------------------------------------------------------------ output
def _b(x):
    return "true" if x else "false"


def _sig(s):
    if s is None:
        return "None"
    return "Some [" + "; ".join("None" if a is None else f"Some {_b(a)}" for a in s) + "]"


def render(repo):
    sigs = read_signatures(repo)
    upd, wrap = read_colliders(repo)
    L = ["(* GENERATED by harness/tables_c14.py from /repo/distance3d/{colliders,geometry,utils,mesh,containment}.py",
         "   on every run of the C14 check.  Do not edit. *)",
         "From Coq Require Import List.", "Import ListNotations.", "",
         "Module CollidersTables.",
         "  (* declared numba signatures: per argument Some true = array, C-contiguous required;",
         "     Some false = array, any layout; None = not an array.  None = compiled lazily. *)"]
    for fn in ALL_FNS:
        L.append(f"  Definition sig_{fn} : option (list (option bool)) := {_sig(sigs[fn])}.")
    L.append("  (* update_pose stores a contiguous copy (true) or the strided view itself (false) *)")
    for (cls, attr), v in sorted(upd.items()):
        L.append(f"  Definition upd_{cls}_{attr}_contig : bool := {_b(v)}.")
    L.append("  (* call sites: is self.<attr> wrapped in np.ascontiguousarray? *)")
    for (cls, meth, attr), v in sorted(wrap.items()):
        L.append(f"  Definition wrap_{cls}_{meth}_{attr} : bool := {_b(v)}.")
    L.append("End CollidersTables.")
    return "\n".join(L) + "\n"


def generate(repo, out):
    """Write the table; returns True when the file changed.  Raises TablesError."""
    txt = render(repo)
    out = Path(out)
    if out.exists() and out.read_text() == txt:
        return False
    out.parent.mkdir(parents=True, exist_ok=True)
    out.write_text(txt)
    return True


if __name__ == "__main__":
    import sys
    sys.path.insert(0, str(Path(__file__).resolve().parent.parent))
    from harness.common import REPO, COQ
    print("changed" if generate(REPO, COQ / "theories" / "Gen" / "CollidersTables.v") else "unchanged")
