"""Fail-closed ast reader for C14 -> coq/theories/Gen/CollidersTables.v.

Re-extracted from /repo's sources on every run of the C14 check:

* the declared numba signature layouts of every compiled entry point that collider
  methods call from interpreted code (`@numba.njit(<sig>, cache=True)` decorators in
  geometry.py / utils.py / mesh.py): per argument `Some true` (array that must be
  C-contiguous: `[::1]`, `[:, ::1]`), `Some false` (array of any layout: `[:]`, `[:, :]`)
  or `None` (not an array); `None` for the whole signature when the function is compiled
  lazily (no declared signature: any layout is accepted);
* what every `update_pose` stores: for the attributes that are views of the pose
  (`pose[:3, 3]`, `pose[:3, 2]`, `pose[:3, :2].T`) whether a contiguous copy
  (`np.ascontiguousarray(...)` / `.copy()`) is stored; every other statement of every
  `update_pose` must have exactly the shape the hand-written model
  (coq/theories/Model/Colliders.v) transliterates;
* every call of a compiled entry point made by a collider method, with the form of each
  argument (`self.attr`, `np.ascontiguousarray(self.attr)`, the search direction, the pose
  parameter); the set of calls must be exactly the expected one and each `self.attr`
  argument yields a `wrap_*` flag (wrapped in np.ascontiguousarray at the call site?).

Everything else is PINNED (harness/tables_pin.py):

* every method of every class of colliders.py and of mesh.MeshHillClimbingSupportFunction is
  compared as a whole (signature, decorators, body; docstrings / comments / blank lines
  normalised away, the flagged np.ascontiguousarray wrappers removed, make_artist bodies left
  open) with the texts REFERENCE_COLLIDERS / REFERENCE_MESH below = the code that
  Model/Colliders.v transliterates: the QUERY methods (support_function / aabb / center /
  first_vertex / collider2origin) and the constructors too, not only update_pose.  Unknown
  classes (a new subclass inherits update_pose), unknown or missing methods, class-level
  statements, changed bases, unknown top-level statements, names bound twice: refused;
* the callees of the pinned methods: containment.*_aabb must be undecorated (interpreted numpy:
  every layout accepted - a `[::1]` signature on sphere_aabb would re-create defect F15 on
  `self.c`); a conservative purity scan of the transitive closure of all callees (the compiled
  entry points and what they call, containment.*_aabb and what they call) refuses stores into
  (views of) arguments or non-local objects, in-place operators on them, out= arguments, calls
  of functions outside a short list of layout-insensitive numpy functions, and calls of
  compiled functions from interpreted callees other than box_aabb -> convert_box_to_vertices.

Anything unexpected raises TablesError - also when the reader itself trips over the source:
the check then reports ALL obligations of C14 as broken (nothing counted as discharged, the
correspondence run marked as a run of a stale model) instead of silently proving theorems
about a model of different code.

Limits: syntactic pins (a harmless refactoring is refused too); collider subclasses defined in
OTHER modules, monkeypatching from other modules, numpy / numba themselves and the numerical
content of the kernels (C03 / C04) are not seen; the purity scan is flow-insensitive and
trusts its list of numpy functions.
"""
import ast
from pathlib import Path

from .tables import TablesError
from . import tables_pin as tp

ENTRY_POINTS = {
    "geometry.py": ["convert_box_to_vertices", "support_function_cylinder", "support_function_capsule",
                    "support_function_ellipsoid", "support_function_sphere", "support_function_disk",
                    "support_function_ellipse", "support_function_cone"],
    "utils.py": ["norm_vector", "plane_basis_from_normal"],
    "mesh.py": ["hill_climb_mesh_extreme"],
}
ALL_FNS = [f for fs in ENTRY_POINTS.values() for f in fs]


# ------------------------------------------------------------------ signatures
def _dotted(node):
    if isinstance(node, ast.Name):
        return node.id
    if isinstance(node, ast.Attribute):
        return _dotted(node.value) + "." + node.attr
    raise TablesError(f"unexpected name expression {ast.dump(node)}")


def _is_full_slice(s):
    return isinstance(s, ast.Slice) and s.lower is None and s.upper is None and s.step is None


def _is_unit_slice(s):
    return (isinstance(s, ast.Slice) and s.lower is None and s.upper is None
            and isinstance(s.step, ast.Constant) and s.step.value == 1)


def _argtype(node):
    """-> None (not an array) | True (array, C-contiguous required) | False (array, any layout)."""
    if isinstance(node, ast.Attribute):
        nm = _dotted(node)
        if nm in ("numba.float64", "numba.int64", "numba.boolean", "numba.int32", "numba.float32"):
            return None
        raise TablesError(f"unknown scalar type {nm}")
    if isinstance(node, ast.Call):
        fn = _dotted(node.func)
        if fn == "numba.optional" and len(node.args) == 1:
            return _argtype(node.args[0])
        if fn == "numba.types.DictType":
            return None
        raise TablesError(f"unknown type constructor {fn}")
    if isinstance(node, ast.Subscript):
        base = _dotted(node.value)
        if base not in ("numba.float64", "numba.int64"):
            raise TablesError(f"unknown array element type {base}")
        sl = node.slice
        dims = list(sl.elts) if isinstance(sl, ast.Tuple) else [sl]
        if all(_is_full_slice(d) for d in dims):
            return False
        if all(_is_full_slice(d) for d in dims[:-1]) and _is_unit_slice(dims[-1]):
            return True
        raise TablesError(f"unsupported array layout in signature: {ast.unparse(node)}")
    raise TablesError(f"unsupported signature element: {ast.dump(node)}")


def read_signatures(repo):
    sigs = {}
    for fname, fns in ENTRY_POINTS.items():
        tree = ast.parse((Path(repo) / "distance3d" / fname).read_text())
        found = {n.name: n for n in tree.body if isinstance(n, ast.FunctionDef)}
        binds = tp.top_level_bindings(tree)
        if "*" in binds:
            raise TablesError(f"{fname}: star import")
        for fn in fns:
            if fn not in found:
                raise TablesError(f"{fname}: function {fn} not found")
            if binds.get(fn, 0) != 1:
                raise TablesError(f"{fname}: {fn} is bound {binds.get(fn, 0)} times at module level, expected once")
            node = found[fn]
            nargs = len(node.args.args)
            if node.args.vararg or node.args.kwarg or node.args.kwonlyargs:
                raise TablesError(f"{fn}: unexpected parameter kinds")
            decos = node.decorator_list
            if len(decos) == 0:
                sigs[fn] = None           # interpreted: no layout requirement
                continue
            if len(decos) != 1 or not isinstance(decos[0], ast.Call) or \
                    _dotted(decos[0].func) not in ("numba.njit", "numba.jit"):
                raise TablesError(f"{fn}: unexpected decorator")
            d = decos[0]
            for kw in d.keywords:
                if kw.arg not in ("cache", "nopython", "fastmath", "nogil"):
                    raise TablesError(f"{fn}: unexpected decorator keyword {kw.arg}")
            if len(d.args) == 0:
                sigs[fn] = None           # lazily compiled: every layout gets its own specialisation
                continue
            if len(d.args) != 1 or not isinstance(d.args[0], ast.Call):
                raise TablesError(f"{fn}: unexpected signature form")
            s = d.args[0]                 # rettype(argtypes...)
            if s.keywords or len(s.args) != nargs:
                raise TablesError(f"{fn}: signature arity {len(s.args)} != {nargs} parameters")
            sigs[fn] = [_argtype(a) for a in s.args]
    return sigs


# ------------------------------------------------------------------ collider methods
def _is_self_attr(node):
    return isinstance(node, ast.Attribute) and isinstance(node.value, ast.Name) and node.value.id == "self"


def _index_ir(sub, param):
    """pose[:3, j] -> COLj ; pose[:3, :n].T -> COLS{n}T (param = name of the pose parameter)."""
    if isinstance(sub, ast.Attribute) and sub.attr == "T":
        inner = sub.value
        if (isinstance(inner, ast.Subscript) and isinstance(inner.value, ast.Name) and inner.value.id == param
                and isinstance(inner.slice, ast.Tuple) and len(inner.slice.elts) == 2):
            a, b = inner.slice.elts
            if _upto(a, 3) and isinstance(b, ast.Slice) and b.lower is None and b.step is None \
                    and isinstance(b.upper, ast.Constant):
                return f"COLS{b.upper.value}T"
    if (isinstance(sub, ast.Subscript) and isinstance(sub.value, ast.Name) and sub.value.id == param
            and isinstance(sub.slice, ast.Tuple) and len(sub.slice.elts) == 2):
        a, b = sub.slice.elts
        if _upto(a, 3) and isinstance(b, ast.Constant) and isinstance(b.value, int):
            return f"COL{b.value}"
    return None


def _upto(s, n):
    return (isinstance(s, ast.Slice) and s.lower is None and s.step is None
            and isinstance(s.upper, ast.Constant) and s.upper.value == n)


def _expr_ir(node, param):
    """IR of an expression in update_pose / of a call argument."""
    if isinstance(node, ast.Name):
        if node.id in ("search_direction", "search_direction_in_mesh"):
            return "DIR" if node.id == "search_direction" else "LOCALDIR"
        if node.id == param:
            return "POSE"
        return f"NAME({node.id})"
    if _is_self_attr(node):
        return f"ATTR({node.attr})"
    v = _index_ir(node, param)
    if v is not None:
        return v
    if isinstance(node, ast.Call):
        if isinstance(node.func, ast.Attribute) and node.func.attr == "copy" and not node.args and not node.keywords:
            return f"CONTIG({_expr_ir(node.func.value, param)})"
        fn = _dotted(node.func)
        if fn == "np.ascontiguousarray" and len(node.args) == 1 and not node.keywords:
            return f"CONTIG({_expr_ir(node.args[0], param)})"
        if fn in ALL_FNS and not node.keywords:
            return "CALL(" + ",".join([fn] + [_expr_ir(a, param) for a in node.args]) + ")"
    raise TablesError(f"unexpected expression: {ast.unparse(node)}")


def _is_artist_guard(st, param):
    """if self.artist_ is not None: self.artist_.set_data(<param>)"""
    try:
        return (isinstance(st, ast.If) and not st.orelse and len(st.body) == 1
                and ast.unparse(st.test) == "self.artist_ is not None"
                and ast.unparse(st.body[0]) == f"self.artist_.set_data({param})")
    except Exception:
        return False


def _update_ir(fn):
    """Normalised statement list of an update_pose method."""
    if len(fn.args.args) != 2:
        raise TablesError("update_pose must take (self, pose)")
    param = fn.args.args[1].arg
    out = []
    for st in fn.body:
        if isinstance(st, ast.Expr) and isinstance(st.value, ast.Constant) and isinstance(st.value.value, str):
            continue  # docstring
        if _is_artist_guard(st, param):
            continue
        if isinstance(st, ast.Assign) and len(st.targets) == 1 and _is_self_attr(st.targets[0]):
            out.append(f"{st.targets[0].attr}={_expr_ir(st.value, param)}")
            continue
        if isinstance(st, ast.Expr) and isinstance(st.value, ast.Call):
            c = st.value
            if (isinstance(c.func, ast.Attribute) and c.func.attr == "update_pose" and _is_self_attr(c.func.value)
                    and len(c.args) == 1 and isinstance(c.args[0], ast.Name) and c.args[0].id == param):
                out.append(f"SUB({c.func.value.attr})")
                continue
        if isinstance(st, ast.Raise):
            out.append("RAISE")
            continue
        raise TablesError(f"unexpected statement in update_pose: {ast.unparse(st)}")
    return out


def _calls_ir(fn):
    """All calls of compiled entry points inside a method, in source order."""
    param = fn.args.args[1].arg if len(fn.args.args) > 1 else "__none__"
    out = []
    for node in ast.walk(fn):
        if isinstance(node, ast.Call):
            try:
                nm = _dotted(node.func)
            except TablesError:
                continue
            if nm in ALL_FNS:
                out.append((node.lineno, node.col_offset, _expr_ir(node, param)))
    return [x[2] for x in sorted(out)]


def _state_writes(fn):
    """attribute / item writes through `self` (or setattr/__dict__ tricks) inside a method"""
    out = []
    for node in ast.walk(fn):
        targets = []
        if isinstance(node, ast.Assign):
            targets = node.targets
        elif isinstance(node, (ast.AugAssign, ast.AnnAssign)):
            targets = [node.target]
        elif isinstance(node, ast.Delete):
            targets = node.targets
        elif isinstance(node, ast.Call):
            try:
                nm = _dotted(node.func)
            except TablesError:
                nm = ""
            if nm in ("setattr", "delattr", "object.__setattr__") or nm.endswith(".__setattr__") \
                    or nm in ("self.__dict__.update", "self.__dict__.setdefault", "vars"):
                out.append(nm)
        elif isinstance(node, (ast.Global, ast.Nonlocal)):
            out.append("global")
        for t in targets:
            for sub in ast.walk(t):
                if isinstance(sub, ast.Attribute) and isinstance(sub.ctx, (ast.Store, ast.Del)) and _rooted_in_self(sub):
                    out.append(ast.unparse(sub))
                if isinstance(sub, ast.Subscript) and isinstance(sub.ctx, (ast.Store, ast.Del)) and _rooted_in_self(sub.value):
                    out.append(ast.unparse(sub))
    return out


def _rooted_in_self(node):
    while isinstance(node, (ast.Attribute, ast.Subscript)):
        node = node.value
    return isinstance(node, ast.Name) and node.id == "self"


def _classes(path, tree=None):
    if tree is None:
        tree = ast.parse(Path(path).read_text())
    out = {}
    for n in tree.body:
        if isinstance(n, ast.ClassDef):
            out[n.name] = {m.name: m for m in n.body if isinstance(m, ast.FunctionDef)}
            out[n.name]["__bases__"] = [ast.unparse(b) for b in n.bases]
    return out


VIEW_ATTRS = {  # (class, attr) -> the view of the pose that update_pose must store
    ("Sphere", "c"): "COL3", ("Disk", "c"): "COL3", ("Disk", "normal"): "COL2",
    ("Ellipse", "c"): "COL3", ("Ellipse", "axes"): "COLS2T",
}
EXPECTED_UPDATE = {  # everything that is not a view attribute, exactly
    "ConvexHullVertices": ["RAISE"],
    "Box": ["box2origin=POSE", "vertices=CALL(convert_box_to_vertices,POSE,ATTR(size))"],
    "MeshGraph": ["mesh2origin=POSE", "SUB(_support_function)"],
    "Sphere": ["c=?"],
    "Capsule": ["capsule2origin=POSE"],
    "Ellipsoid": ["ellipsoid2origin=POSE"],
    "Cylinder": ["cylinder2origin=POSE"],
    "Disk": ["c=?", "normal=?"],
    "Ellipse": ["c=?", "axes=?"],
    "Cone": ["cone2origin=POSE"],
    "Margin": ["SUB(collider)"],
}
# (class, method) -> compiled calls, `?attr` marks an argument that may be wrapped
EXPECTED_CALLS = {
    ("Box", "__init__"): ["CALL(convert_box_to_vertices,POSE,NAME(size))"],
    ("Box", "update_pose"): ["CALL(convert_box_to_vertices,POSE,ATTR(size))"],
    ("Sphere", "support_function"): ["CALL(support_function_sphere,DIR,?c,ATTR(radius))"],
    ("Capsule", "support_function"): ["CALL(support_function_capsule,DIR,?capsule2origin,ATTR(radius),ATTR(height))"],
    ("Ellipsoid", "support_function"): ["CALL(support_function_ellipsoid,DIR,?ellipsoid2origin,?radii)"],
    ("Cylinder", "support_function"): ["CALL(support_function_cylinder,DIR,?cylinder2origin,ATTR(radius),ATTR(length))"],
    ("Disk", "first_vertex"): ["CALL(plane_basis_from_normal,?normal)"],
    ("Disk", "support_function"): ["CALL(support_function_disk,DIR,?c,ATTR(radius),?normal)"],
    ("Disk", "collider2origin"): ["CALL(plane_basis_from_normal,?normal)"],
    ("Ellipse", "support_function"): ["CALL(support_function_ellipse,DIR,?c,?axes,?radii)"],
    ("Cone", "support_function"): ["CALL(support_function_cone,DIR,?cone2origin,ATTR(radius),ATTR(height))"],
    ("Margin", "support_function"): ["CALL(norm_vector,DIR)"],
}
MESH_CALL = ("CALL(hill_climb_mesh_extreme,LOCALDIR,ATTR(first_idx),ATTR(vertices),ATTR(connections),"
             "ATTR(shortcut_connections))")


def _match_call(cls, meth, got, exp, flags):
    """Match a call IR against the expected pattern; record wrap flags of `?attr` arguments."""
    if not (got.startswith("CALL(") and exp.startswith("CALL(")):
        raise TablesError(f"{cls}.{meth}: {got} vs {exp}")
    g = _split_args(got[5:-1])
    e = _split_args(exp[5:-1])
    if len(g) != len(e) or g[0] != e[0]:
        raise TablesError(f"{cls}.{meth}: compiled call {got} does not have the expected shape {exp}")
    for ga, ea in zip(g[1:], e[1:]):
        if ea.startswith("?"):
            a = ea[1:]
            if ga == f"ATTR({a})":
                flags[(cls, meth, a)] = False
            elif ga == f"CONTIG(ATTR({a}))":
                flags[(cls, meth, a)] = True
            else:
                raise TablesError(f"{cls}.{meth}: argument {ga} is neither self.{a} nor a contiguous copy of it")
        elif ga != ea:
            raise TablesError(f"{cls}.{meth}: argument {ga}, expected {ea}")


def _split_args(s):
    out, depth, cur = [], 0, ""
    for ch in s:
        if ch == "," and depth == 0:
            out.append(cur)
            cur = ""
        else:
            depth += ch == "("
            depth -= ch == ")"
            cur += ch
    out.append(cur)
    return out


def read_colliders(repo):
    ctree = ast.parse((Path(repo) / "distance3d" / "colliders.py").read_text())
    cl = _classes(None, ctree)
    upd_contig = {}
    for (cls, meth) in list(EXPECTED_CALLS) + [(c, "update_pose") for c in EXPECTED_UPDATE]:
        if cls not in cl or meth not in cl[cls]:
            raise TablesError(f"colliders.py: {cls}.{meth} not found")
    for cls, exp in EXPECTED_UPDATE.items():
        if cls not in cl or "update_pose" not in cl[cls]:
            raise TablesError(f"colliders.py: {cls}.update_pose not found")
        got = _update_ir(cl[cls]["update_pose"])
        if len(got) != len(exp):
            raise TablesError(f"{cls}.update_pose: statements {got}, expected shape {exp}")
        for g, e in zip(got, exp):
            if e.endswith("=?"):
                attr = e[:-2]
                view = VIEW_ATTRS[(cls, attr)]
                if g == f"{attr}={view}":
                    upd_contig[(cls, attr)] = False
                elif g.startswith(f"{attr}=CONTIG(") and g.replace("CONTIG(", "").rstrip(")") == f"{attr}={view}":
                    upd_contig[(cls, attr)] = True
                else:
                    raise TablesError(f"{cls}.update_pose: {g} is not (a contiguous copy of) the view {view}")
            elif g != e:
                raise TablesError(f"{cls}.update_pose: statement {g}, expected {e}")
    # classes with update_pose that the model does not know
    for cls, meths in cl.items():
        if "update_pose" in meths and cls not in EXPECTED_UPDATE and cls != "ConvexCollider":
            raise TablesError(f"colliders.py: unmodelled class with update_pose: {cls}")
    # no hidden state: outside __init__ / update_pose / make_artist no collider method may write an
    # attribute (a cache filled by a query would survive update_pose unnoticed by the model)
    for cls, meths in cl.items():
        for m, fn in meths.items():
            if m in ("__bases__", "__init__", "update_pose", "make_artist"):
                continue
            w = _state_writes(fn)
            if w:
                raise TablesError(f"colliders.py: {cls}.{m} writes object state ({', '.join(w)}): not modelled")
    # compiled calls made from collider methods
    wrap = {}
    for cls, meths in cl.items():
        for m, fn in meths.items():
            if m == "__bases__" or m == "make_artist":
                continue
            got = _calls_ir(fn)
            exp = EXPECTED_CALLS.get((cls, m), [])
            if len(got) != len(exp):
                raise TablesError(f"{cls}.{m}: compiled calls {got}, expected {exp}")
            for g, e in zip(got, exp):
                _match_call(cls, m, g, e, wrap)
    # the mesh functor
    mc = _classes(Path(repo) / "distance3d" / "mesh.py")
    f = mc.get("MeshHillClimbingSupportFunction")
    if f is None or _update_ir(f["update_pose"]) != ["mesh2origin=POSE"]:
        raise TablesError("mesh.py: MeshHillClimbingSupportFunction.update_pose has an unexpected shape")
    if _calls_ir(f["__call__"]) != [MESH_CALL]:
        raise TablesError(f"mesh.py: __call__ makes compiled calls {_calls_ir(f['__call__'])}")
    if _state_writes(f["__call__"]) != ["self.first_idx"]:
        raise TablesError(f"mesh.py: __call__ writes {_state_writes(f['__call__'])}, expected the vertex cache only")
    for m, fn in f.items():
        if m not in ("__bases__", "__init__", "update_pose", "__call__") and _state_writes(fn):
            raise TablesError(f"mesh.py: MeshHillClimbingSupportFunction.{m} writes object state")
    # containment.box_aabb (called by Box.aabb with self.box2origin, self.size)
    ct = ast.parse((Path(repo) / "distance3d" / "containment.py").read_text())
    ba = [n for n in ct.body if isinstance(n, ast.FunctionDef) and n.name == "box_aabb"]
    if len(ba) != 1 or _calls_ir(ba[0]) != ["CALL(convert_box_to_vertices,NAME(box2origin),POSE)"] \
            or [a.arg for a in ba[0].args.args] != ["box2origin", "size"]:
        raise TablesError("containment.box_aabb has an unexpected shape")
    if "box_aabb(self.box2origin, self.size)" not in ast.unparse(cl["Box"]["aabb"]):
        raise TablesError("Box.aabb does not call box_aabb(self.box2origin, self.size)")
    # whole-body pins: every method of every class against the text the model transliterates
    _pin_colliders(repo, ctree, cl)
    _pin_mesh(repo)
    # callees of the pinned methods: signatures / absence of signatures, no side effects, no unknown callee
    _check_callees(repo)
    return upd_contig, wrap


# ------------------------------------------------------------------ whole-body pins
# method of the source -> definition of coq/theories/Model/Colliders.v that transliterates it
MODEL_OF = {"__init__": "construct", "update_pose": "update_pose", "support_function": "support", "aabb": "aabb",
            "center": "center", "first_vertex": "first_vertex", "collider2origin": "collider2origin",
            "__call__": "support (MeshGraph arm: the functor)", "make_artist": "(not modelled: visualisation only)"}


def _peel(node):
    """np.ascontiguousarray(x) / x.copy() (nested) -> x"""
    while isinstance(node, ast.Call):
        if isinstance(node.func, ast.Attribute) and node.func.attr == "copy" and not node.args and not node.keywords:
            node = node.func.value
            continue
        try:
            fn = _dotted(node.func)
        except TablesError:
            break
        if fn == "np.ascontiguousarray" and len(node.args) == 1 and not node.keywords:
            node = node.args[0]
            continue
        break
    return node


def _call_nodes(fn):
    out = []
    for node in ast.walk(fn):
        if isinstance(node, ast.Call):
            try:
                nm = _dotted(node.func)
            except TablesError:
                continue
            if nm in ALL_FNS:
                out.append((node.lineno, node.col_offset, node))
    return [x[2] for x in sorted(out, key=lambda x: x[:2])]


def _flag_sites(classes):
    """The wrapper positions whose presence is extracted as a flag (upd_*_contig / wrap_*): [(outer, inner)]."""
    unwrap = []
    for (cls, attr) in VIEW_ATTRS:
        for st in classes[cls]["update_pose"].body:
            if isinstance(st, ast.Assign) and len(st.targets) == 1 and _is_self_attr(st.targets[0]) \
                    and st.targets[0].attr == attr and _peel(st.value) is not st.value:
                unwrap.append((st.value, _peel(st.value)))
    for (cls, meth), exps in EXPECTED_CALLS.items():
        for call, exp in zip(_call_nodes(classes[cls][meth]), exps):
            pats = _split_args(exp[5:-1])[1:]
            for a, pat in zip(call.args, pats):
                if pat.startswith("?") and _peel(a) is not a:
                    unwrap.append((a, _peel(a)))
    return unwrap


def _pin_class(fname, node, ref, unwrap):
    cname = node.name
    if not isinstance(ref, ast.ClassDef):
        raise TablesError(f"{fname}: reader bug: no reference class {cname}")
    head = lambda c: tp.dump(ast.ClassDef(name=c.name, bases=c.bases, keywords=c.keywords, body=[ast.Pass()],  # noqa: E731
                                          decorator_list=c.decorator_list, type_params=getattr(c, "type_params", [])))
    if head(tp.normalise(node)) != head(ref):
        raise TablesError(f"{fname}: class {cname}: bases / keywords / decorators differ from the modelled class "
                          f"(`class {cname}({', '.join(ast.unparse(b) for b in node.bases)})`)")
    refm = {m.name: m for m in ref.body if isinstance(m, ast.FunctionDef)}
    seen = set()
    for st in node.body:
        if isinstance(st, ast.Expr) and isinstance(st.value, ast.Constant) or isinstance(st, ast.Pass):
            continue
        if not isinstance(st, ast.FunctionDef):
            raise TablesError(f"{fname}: class {cname}: unmodelled class-level statement `{ast.unparse(st)[:80]}`")
        if st.name in seen:
            raise TablesError(f"{fname}: {cname}.{st.name} defined twice")
        seen.add(st.name)
        if st.name not in refm:
            raise TablesError(f"{fname}: unmodelled method {cname}.{st.name} (Model/Colliders.v has no counterpart; a new "
                              f"method may override attribute access or be inherited by the modelled classes)")
        holes = list(st.body) if st.name == "make_artist" else []
        tp.pin(st, refm[st.name], f"{fname}: {cname}.{st.name}",
               f"Model/Colliders.v {MODEL_OF.get(st.name, '?')} ({cname})", holes, unwrap)
    missing = sorted(set(refm) - seen)
    if missing:
        raise TablesError(f"{fname}: class {cname}: methods {missing} are gone (the class now inherits them)")


def _pin_colliders(repo, tree, classes):
    ref = tp.parse_reference(REFERENCE_COLLIDERS)
    unwrap = _flag_sites(classes)
    seen = set()
    for st in tree.body:
        if isinstance(st, ast.Expr) and isinstance(st.value, ast.Constant):
            continue
        if isinstance(st, ast.ClassDef):
            if st.name not in ref or st.name in seen:
                raise TablesError(f"colliders.py: unmodelled class {st.name} (bases {[ast.unparse(b) for b in st.bases]}): "
                                  f"Model/Colliders.v has no constructor for it")
            _pin_class("colliders.py", st, ref[st.name], unwrap)
            seen.add(st.name)
            continue
        key = tp.text(tp.normalise(st))
        if isinstance(st, (ast.FunctionDef, ast.AsyncFunctionDef)) or key not in ref or key in seen:
            raise TablesError(f"colliders.py: unexpected top-level statement `{key[:100]}`")
        seen.add(key)
    if seen != set(ref):
        raise TablesError(f"colliders.py: missing top-level items {sorted(set(ref) - seen)}")
    binds = tp.top_level_bindings(tree)
    for nm in binds:
        if binds[nm] != 1:
            raise TablesError(f"colliders.py: `{nm}` is bound {binds[nm]} times at module level")
    # make_artist is not modelled (and not pinned): it may only touch the artist
    for cls, meths in classes.items():
        fn = meths.get("make_artist")
        if fn is not None and set(_state_writes(fn)) - {"self.artist_"}:
            raise TablesError(f"colliders.py: {cls}.make_artist writes {sorted(set(_state_writes(fn)))}")


def _pin_mesh(repo):
    tree = ast.parse((Path(repo) / "distance3d" / "mesh.py").read_text())
    ref = tp.parse_reference(REFERENCE_MESH)
    cls = [n for n in tree.body if isinstance(n, ast.ClassDef) and n.name == "MeshHillClimbingSupportFunction"]
    if len(cls) != 1:
        raise TablesError("mesh.py: expected exactly one class MeshHillClimbingSupportFunction")
    _pin_class("mesh.py", cls[0], ref["MeshHillClimbingSupportFunction"], [])
    binds = tp.top_level_bindings(tree)
    for nm in ("MeshHillClimbingSupportFunction", "hill_climb_mesh_extreme", "np", "numba"):
        if binds.get(nm, 0) != 1:
            raise TablesError(f"mesh.py: `{nm}` is bound {binds.get(nm, 0)} times at module level, expected once")
    if "*" in binds:
        raise TablesError("mesh.py: star import")


# ------------------------------------------------------------------ callees: layout-insensitive and side-effect free
# The model treats every kernel as a FUNCTION OF THE DATA of its arguments: the interpreted callees of the query
# methods (containment.*_aabb) accept every layout and never raise TypeError; no callee modifies an argument or
# keeps state.  Checked here syntactically and conservatively on the transitive closure of the callees.
AABB_CALLEES = ["axis_aligned_bounding_box", "sphere_aabb", "box_aabb", "cylinder_aabb", "capsule_aabb",
                "ellipsoid_aabb", "cone_aabb", "disk_aabb", "ellipse_aabb"]
CALLEE_MODULES = ["geometry.py", "utils.py", "containment.py", "mesh.py"]
FRESH_CALLS = {"np.array", "np.dot", "np.linalg.norm", "np.sqrt", "np.abs", "np.min", "np.max", "np.minimum",
               "np.maximum", "np.column_stack", "np.copy", "np.cross", "np.mean", "np.eye", "np.zeros", "np.empty",
               "np.ones", "math.sqrt", "abs", "len", "range", "float", "int", "min", "max"}
ALIAS_CALLS = {"np.ascontiguousarray", "np.asarray"}      # may return the argument itself; do not modify it
PURE_METHODS = {"dot", "copy"}
MODELLED_COMPILED_IN_INTERPRETED = {("box_aabb", "convert_box_to_vertices")}   # Model/Colliders.v aabb (Box)


def _root_name(node):
    while isinstance(node, (ast.Attribute, ast.Subscript, ast.Starred)):
        node = node.value
    return node.id if isinstance(node, ast.Name) else None


class _Callees:
    def __init__(self, repo):
        self.defs, self.imports = {}, {}
        for fname in CALLEE_MODULES:
            tree = ast.parse((Path(repo) / "distance3d" / fname).read_text())
            mod = fname[:-3]
            self.defs[mod] = {n.name: n for n in tree.body if isinstance(n, ast.FunctionDef)}
            imp = {}
            for n in tree.body:
                if isinstance(n, ast.ImportFrom) and n.level == 1 and n.module in [m[:-3] for m in CALLEE_MODULES]:
                    for a in n.names:
                        imp[a.asname or a.name] = (n.module, a.name)
            self.imports[mod] = imp
            binds = tp.top_level_bindings(tree)
            for nm in ("np", "math", "numba"):
                if binds.get(nm, 0) > 1:
                    raise TablesError(f"{fname}: `{nm}` is bound {binds[nm]} times at module level")
        self.done = {}

    def resolve(self, mod, name):
        if name in self.defs[mod]:
            return mod, name
        if name in self.imports[mod]:
            m2, n2 = self.imports[mod][name]
            if n2 in self.defs.get(m2, {}):
                return m2, n2
        return None

    def compiled(self, mod, name):
        fn = self.defs[mod][name]
        if not fn.decorator_list:
            return False
        for d in fn.decorator_list:
            f = d.func if isinstance(d, ast.Call) else d
            if _dotted(f) not in ("numba.njit", "numba.jit"):
                raise TablesError(f"{mod}.{name}: unknown decorator `{ast.unparse(d)[:60]}`")
        return True

    def scan(self, mod, name):
        """Raise TablesError unless mod.name (and everything it calls) provably leaves its arguments and all
        non-local objects alone and calls only known layout-insensitive functions."""
        if (mod, name) in self.done:
            return
        self.done[(mod, name)] = True
        fn = self.defs[mod][name]
        what = f"{mod}.{name}"
        is_compiled = self.compiled(mod, name)
        a = fn.args
        params = {x.arg for x in a.posonlyargs + a.args + a.kwonlyargs} | ({a.vararg.arg} if a.vararg else set()) \
            | ({a.kwarg.arg} if a.kwarg else set())
        local = set(params)
        if a.defaults or a.kw_defaults:
            raise TablesError(f"{what}: default arguments are outside what the purity scan understands")
        body_nodes = [n for st in fn.body for n in ast.walk(st)]
        for n in body_nodes:
            if isinstance(n, (ast.FunctionDef, ast.AsyncFunctionDef, ast.Lambda, ast.ClassDef, ast.Global,
                                              ast.Nonlocal, ast.Yield, ast.YieldFrom, ast.Await, ast.NamedExpr,
                                              ast.With, ast.Try, ast.Import, ast.ImportFrom)):
                raise TablesError(f"{what}: construct {type(n).__name__} is outside what the purity scan understands")
            if isinstance(n, ast.Name) and isinstance(n.ctx, (ast.Store, ast.Del)):
                local.add(n.id)
        tainted = set(params)

        def may_alias(e):
            if isinstance(e, ast.Name):
                return e.id in tainted
            if isinstance(e, (ast.Constant, ast.BinOp, ast.UnaryOp, ast.Compare, ast.BoolOp)):
                return False
            if isinstance(e, (ast.Subscript, ast.Attribute, ast.Starred)):
                return may_alias(e.value)
            if isinstance(e, (ast.Tuple, ast.List)):
                return any(may_alias(x) for x in e.elts)
            if isinstance(e, ast.IfExp):
                return may_alias(e.body) or may_alias(e.orelse)
            if isinstance(e, ast.Call):
                try:
                    nm = _dotted(e.func)
                except TablesError:
                    nm = None
                if nm in FRESH_CALLS:
                    return False
                if isinstance(e.func, ast.Attribute) and e.func.attr in PURE_METHODS and nm not in ALIAS_CALLS \
                        and not (nm or "").startswith(("np.", "math.")):
                    return False
            return any(isinstance(x, ast.Name) and x.id in tainted for x in ast.walk(e))

        def names(t):
            return [m.id for m in ast.walk(t) if isinstance(m, ast.Name) and isinstance(m.ctx, ast.Store)]

        changed = True
        while changed:
            changed = False
            for n in body_nodes:
                new = []
                if isinstance(n, ast.Assign) and may_alias(n.value):
                    new = [x for t in n.targets if not isinstance(t, (ast.Subscript, ast.Attribute)) for x in names(t)]
                elif isinstance(n, ast.AnnAssign) and n.value is not None and may_alias(n.value):
                    new = names(n.target)
                elif isinstance(n, ast.For) and may_alias(n.iter):
                    new = names(n.target)
                elif isinstance(n, ast.comprehension) and may_alias(n.iter):
                    new = names(n.target)
                for x in new:
                    if x not in tainted:
                        tainted.add(x)
                        changed = True

        def check_store(t, aug):
            if isinstance(t, (ast.Tuple, ast.List)):
                for x in t.elts:
                    check_store(x, aug)
                return
            if isinstance(t, ast.Name):
                if aug and t.id in tainted:
                    raise TablesError(f"{what}: in-place update of `{t.id}`, which may be (a view of) an argument: the "
                                      f"model's kernels do not modify the collider's attributes")
                return
            r = _root_name(t)
            if r is None or r in tainted or r not in local:
                raise TablesError(f"{what}: store into `{ast.unparse(t)}`, which may be (a view of) an argument or a "
                                  f"non-local object: the model's kernels are functions of the data without side effects")

        for n in body_nodes:
            if isinstance(n, ast.Assign):
                for t in n.targets:
                    check_store(t, False)
            elif isinstance(n, ast.AugAssign):
                check_store(n.target, True)
            elif isinstance(n, ast.AnnAssign):
                check_store(n.target, False)
            elif isinstance(n, ast.Delete):
                for t in n.targets:
                    check_store(t, True)
            elif isinstance(n, ast.Call):
                if any(k.arg in ("out", "where") or k.arg is None for k in n.keywords):
                    raise TablesError(f"{what}: call with out= / where= / **kwargs: `{ast.unparse(n)[:80]}`")
                try:
                    nm = _dotted(n.func)
                except TablesError:
                    nm = None
                if nm in FRESH_CALLS or nm in ALIAS_CALLS:
                    continue
                if isinstance(n.func, ast.Attribute):
                    if n.func.attr in PURE_METHODS and not (nm or "").startswith(("np.", "math.", "numba.")):
                        continue
                    raise TablesError(f"{what}: call `{ast.unparse(n.func)}(...)` is not on the list of functions known to "
                                      f"be layout-insensitive and free of side effects")
                if isinstance(n.func, ast.Name):
                    tgt = self.resolve(mod, n.func.id)
                    if tgt is None or n.func.id in local:
                        raise TablesError(f"{what}: call of unknown function `{n.func.id}`")
                    if not is_compiled and self.compiled(*tgt) and (name, tgt[1]) not in MODELLED_COMPILED_IN_INTERPRETED:
                        raise TablesError(f"{what}: interpreted code calls the compiled function {tgt[0]}.{tgt[1]}: a declared "
                                          f"numba signature there makes the call layout-sensitive (defect F15) and "
                                          f"Model/Colliders.v has no such call")
                    self.scan(*tgt)
                    continue
                raise TablesError(f"{what}: call through an expression `{ast.unparse(n.func)[:60]}`")


def _check_callees(repo):
    c = _Callees(repo)
    for fname, fns in ENTRY_POINTS.items():
        for fn in fns:
            c.scan(fname[:-3], fn)
    for fn in AABB_CALLEES:
        if fn not in c.defs["containment"]:
            raise TablesError(f"containment.py: function {fn} not found")
        node = c.defs["containment"][fn]
        if node.decorator_list:
            raise TablesError(f"containment.{fn} has a decorator (`{ast.unparse(node.decorator_list[0])[:70]}`): "
                              f"Model/Colliders.v treats it as interpreted numpy code that accepts every array layout (a "
                              f"declared `[::1]` signature would raise TypeError on the views stored by update_pose: F15)")
        c.scan("containment", fn)
    tree = ast.parse((Path(repo) / "distance3d" / "containment.py").read_text())
    binds = tp.top_level_bindings(tree)
    for fn in list({n for (m, n) in c.done if m == "containment"}):
        if binds.get(fn, 0) != 1:
            raise TablesError(f"containment.py: `{fn}` is bound {binds.get(fn, 0)} times at module level, expected once")
    if "*" in binds:
        raise TablesError("containment.py: star import")


# The code that Model/Colliders.v transliterates, normalised (no docstrings / comments).  `__TABLE__` = body of
# make_artist (visualisation, not modelled, only checked to write nothing but self.artist_).  The optional
# np.ascontiguousarray(...) / .copy() wrappers at the five update sites and thirteen call-site arguments that
# Gen/CollidersTables.v reports as flags are REMOVED before the comparison (they are data for the proof); everything
# else must be equal to this text.  Regenerate with
#   /venv/bin/python -m harness.tables_c14 --print-reference      (and re-audit Model/Colliders.v against the new text!)
REFERENCE_COLLIDERS = r"""
import abc

import numpy as np

from .geometry import support_function_capsule, support_function_cylinder, convert_box_to_vertices, support_function_ellipsoid, support_function_sphere, support_function_cone, support_function_disk, support_function_ellipse

from .containment import axis_aligned_bounding_box, sphere_aabb, box_aabb, cylinder_aabb, capsule_aabb, ellipsoid_aabb, cone_aabb, disk_aabb, ellipse_aabb

from .mesh import MeshHillClimbingSupportFunction

from .utils import plane_basis_from_normal, norm_vector

class ConvexCollider(abc.ABC):

    def __init__(self, artist=None):
        self.artist_ = artist

    @abc.abstractmethod
    def make_artist(self, c=None):
        __TABLE__

    @abc.abstractmethod
    def first_vertex(self):
        pass

    @abc.abstractmethod
    def support_function(self, search_direction):
        pass

    @abc.abstractmethod
    def center(self):
        pass

    @abc.abstractmethod
    def update_pose(self, pose):
        pass

    @abc.abstractmethod
    def aabb(self):
        pass

    @abc.abstractmethod
    def collider2origin(self):
        pass

class ConvexHullVertices(ConvexCollider):

    def __init__(self, vertices, artist=None):
        super(ConvexHullVertices, self).__init__(artist)
        self.vertices = vertices

    def make_artist(self, c=None):
        __TABLE__

    def first_vertex(self):
        return self.vertices[0]

    def support_function(self, search_direction):
        return self.vertices[np.argmax(self.vertices.dot(search_direction))]

    def center(self):
        return np.mean(self.vertices, axis=0)

    def update_pose(self, pose):
        raise NotImplementedError('update_pose is not implemented!')

    def aabb(self):
        return np.array(axis_aligned_bounding_box(self.vertices)).T

    def collider2origin(self):
        return np.eye(4)

class Box(ConvexHullVertices):

    def __init__(self, box2origin, size, artist=None):
        super(Box, self).__init__(convert_box_to_vertices(box2origin, size), artist)
        self.box2origin = box2origin
        self.size = size

    def make_artist(self, c=None):
        __TABLE__

    def center(self):
        return self.box2origin[:3, 3]

    def update_pose(self, pose):
        self.box2origin = pose
        self.vertices = convert_box_to_vertices(pose, self.size)
        if self.artist_ is not None:
            self.artist_.set_data(pose)

    def aabb(self):
        return np.array(box_aabb(self.box2origin, self.size)).T

    def collider2origin(self):
        return self.box2origin

class MeshGraph(ConvexCollider):

    def __init__(self, mesh2origin, vertices, triangles, artist=None):
        super(MeshGraph, self).__init__(artist)
        self.mesh2origin = mesh2origin
        self.vertices = vertices
        self.triangles = triangles
        self._support_function = MeshHillClimbingSupportFunction(mesh2origin, vertices, triangles)

    def make_artist(self, c=None):
        __TABLE__

    def first_vertex(self):
        return self.mesh2origin[:3, 3] + np.dot(self.mesh2origin[:3, :3], self.vertices[0])

    def support_function(self, search_direction):
        return self._support_function(search_direction)[1]

    def center(self):
        return self.mesh2origin[:3, 3] + np.dot(self.mesh2origin[:3, :3], np.mean(self.vertices, axis=0))

    def update_pose(self, mesh2origin):
        self.mesh2origin = mesh2origin
        self._support_function.update_pose(mesh2origin)
        if self.artist_ is not None:
            self.artist_.set_data(mesh2origin)

    def aabb(self):
        return np.array(axis_aligned_bounding_box(self.mesh2origin[np.newaxis, :3, 3] + np.dot(self.vertices, self.mesh2origin[:3, :3].T))).T

    def collider2origin(self):
        return self.mesh2origin

class Sphere(ConvexCollider):

    def __init__(self, center, radius, artist=None):
        super(Sphere, self).__init__(artist)
        self.c = center
        self.radius = radius

    def make_artist(self, c=None):
        __TABLE__

    def center(self):
        return self.c

    def first_vertex(self):
        return self.c + np.array([0, 0, self.radius], dtype=float)

    def support_function(self, search_direction):
        return support_function_sphere(search_direction, self.c, self.radius)

    def update_pose(self, pose):
        self.c = pose[:3, 3]
        if self.artist_ is not None:
            self.artist_.set_data(pose)

    def aabb(self):
        return np.array(sphere_aabb(self.c, self.radius)).T

    def collider2origin(self):
        sphere2origin = np.eye(4)
        sphere2origin[:3, 3] = self.c
        return sphere2origin

class Capsule(ConvexCollider):

    def __init__(self, capsule2origin, radius, height, artist=None):
        super(Capsule, self).__init__(artist)
        self.capsule2origin = capsule2origin
        self.radius = radius
        self.height = height

    def make_artist(self, c=None):
        __TABLE__

    def center(self):
        return self.capsule2origin[:3, 3]

    def first_vertex(self):
        return self.capsule2origin[:3, 3] - (self.radius + 0.5 * self.height) * self.capsule2origin[:3, 2]

    def support_function(self, search_direction):
        return support_function_capsule(search_direction, self.capsule2origin, self.radius, self.height)

    def update_pose(self, pose):
        self.capsule2origin = pose
        if self.artist_ is not None:
            self.artist_.set_data(pose)

    def aabb(self):
        return np.array(capsule_aabb(self.capsule2origin, self.radius, self.height)).T

    def collider2origin(self):
        return self.capsule2origin

class Ellipsoid(ConvexCollider):

    def __init__(self, ellipsoid2origin, radii, artist=None):
        super(Ellipsoid, self).__init__(artist)
        self.ellipsoid2origin = ellipsoid2origin
        self.radii = radii

    def make_artist(self, c=None):
        __TABLE__

    def center(self):
        return self.ellipsoid2origin[:3, 3]

    def first_vertex(self):
        return self.ellipsoid2origin[:3, 3] + self.radii[2] * self.ellipsoid2origin[:3, 2]

    def support_function(self, search_direction):
        return support_function_ellipsoid(search_direction, self.ellipsoid2origin, self.radii)

    def update_pose(self, pose):
        self.ellipsoid2origin = pose
        if self.artist_ is not None:
            self.artist_.set_data(pose)

    def aabb(self):
        return np.array(ellipsoid_aabb(self.ellipsoid2origin, self.radii)).T

    def collider2origin(self):
        return self.ellipsoid2origin

class Cylinder(ConvexCollider):

    def __init__(self, cylinder2origin, radius, length, artist=None):
        super(Cylinder, self).__init__(artist)
        self.cylinder2origin = cylinder2origin
        self.radius = radius
        self.length = length

    def make_artist(self, c=None):
        __TABLE__

    def center(self):
        return self.cylinder2origin[:3, 3]

    def first_vertex(self):
        return self.cylinder2origin[:3, 3] + 0.5 * self.length * self.cylinder2origin[:3, 2]

    def support_function(self, search_direction):
        return support_function_cylinder(search_direction, self.cylinder2origin, self.radius, self.length)

    def update_pose(self, pose):
        self.cylinder2origin = pose
        if self.artist_ is not None:
            self.artist_.set_data(pose)

    def aabb(self):
        return np.array(cylinder_aabb(self.cylinder2origin, self.radius, self.length)).T

    def collider2origin(self):
        return self.cylinder2origin

class Disk(ConvexCollider):

    def __init__(self, center, radius, normal, artist=None):
        super(Disk, self).__init__(artist)
        self.c = center
        self.radius = radius
        self.normal = normal

    def make_artist(self, c=None):
        __TABLE__

    def center(self):
        return self.c

    def first_vertex(self):
        x, _ = plane_basis_from_normal(self.normal)
        return self.c + self.radius * x

    def support_function(self, search_direction):
        return support_function_disk(search_direction, self.c, self.radius, self.normal)

    def update_pose(self, pose):
        self.c = pose[:3, 3]
        self.normal = pose[:3, 2]
        if self.artist_ is not None:
            self.artist_.set_data(pose)

    def aabb(self):
        return np.array(disk_aabb(self.c, self.radius, self.normal)).T

    def collider2origin(self):
        x, y = plane_basis_from_normal(self.normal)
        disk2origin = np.eye(4)
        disk2origin[:3, :3] = np.column_stack((x, y, self.normal))
        disk2origin[:3, 3] = self.c
        return disk2origin

class Ellipse(ConvexCollider):

    def __init__(self, center, axes, radii, artist=None):
        super(Ellipse, self).__init__(artist)
        self.c = center
        self.axes = axes
        self.radii = radii

    def make_artist(self, c=None):
        __TABLE__

    def center(self):
        return self.c

    def first_vertex(self):
        return self.c + self.axes[0] * self.radii[0]

    def support_function(self, search_direction):
        return support_function_ellipse(search_direction, self.c, self.axes, self.radii)

    def update_pose(self, pose):
        self.c = pose[:3, 3]
        self.axes = pose[:3, :2].T
        if self.artist_ is not None:
            self.artist_.set_data(pose)

    def aabb(self):
        return np.array(ellipse_aabb(self.c, self.axes, self.radii)).T

    def collider2origin(self):
        ellipse2origin = np.eye(4)
        ellipse2origin[:3, :2] = self.axes.T
        ellipse2origin[:3, 2] = np.cross(self.axes[0], self.axes[1])
        ellipse2origin[:3, 3] = self.c
        return ellipse2origin

class Cone(ConvexCollider):

    def __init__(self, cone2origin, radius, height, artist=None):
        super(Cone, self).__init__(artist)
        self.cone2origin = cone2origin
        self.radius = radius
        self.height = height

    def make_artist(self, c=None):
        __TABLE__

    def center(self):
        return self.cone2origin[:3, 3] + 0.5 * self.height * self.cone2origin[:3, 2]

    def first_vertex(self):
        return self.cone2origin[:3, 3] + self.height * self.cone2origin[:3, 2]

    def support_function(self, search_direction):
        return support_function_cone(search_direction, self.cone2origin, self.radius, self.height)

    def update_pose(self, pose):
        self.cone2origin = pose
        if self.artist_ is not None:
            self.artist_.set_data(pose)

    def aabb(self):
        return np.array(cone_aabb(self.cone2origin, self.radius, self.height)).T

    def collider2origin(self):
        return self.cone2origin

class Margin(ConvexCollider):

    def __init__(self, collider, margin):
        super(Margin, self).__init__(collider.artist_)
        self.collider = collider
        self.margin = margin

    def make_artist(self, c=None):
        __TABLE__

    def first_vertex(self):
        return self.collider.first_vertex()

    def support_function(self, search_direction):
        return self.collider.support_function(search_direction) + self.margin * norm_vector(search_direction)

    def center(self):
        return self.collider.center()

    def update_pose(self, pose):
        self.collider.update_pose(pose)

    def aabb(self):
        aabb = self.collider.aabb()
        mins = aabb[:, 0] - self.margin
        maxs = aabb[:, 1] + self.margin
        return np.array([mins, maxs]).T

    def collider2origin(self):
        return self.collider.collider2origin()

COLLIDERS = {'sphere': Sphere, 'ellipsoid': Ellipsoid, 'capsule': Capsule, 'disk': Disk, 'ellipse': Ellipse, 'cone': Cone, 'cylinder': Cylinder, 'box': Box, 'mesh': MeshGraph}
"""

REFERENCE_MESH = r"""
class MeshHillClimbingSupportFunction:

    def __init__(self, mesh2origin, vertices, triangles):
        self.mesh2origin = mesh2origin
        self.vertices = vertices
        self.first_idx = np.min(triangles)
        connections = {}
        for i, j, k in triangles:
            if i not in connections:
                connections[i] = set()
            if j not in connections:
                connections[j] = set()
            if k not in connections:
                connections[k] = set()
            connections[i].update((j, k))
            connections[j].update((i, k))
            connections[k].update((i, j))
        used = np.unique(triangles).astype(int)
        used_vertices = self.vertices[used]
        self.shortcut_connections = used[np.array([np.argmax(used_vertices[:, 0]), np.argmax(used_vertices[:, 1]), np.argmax(used_vertices[:, 2]), np.argmin(used_vertices[:, 0]), np.argmin(used_vertices[:, 1]), np.argmin(used_vertices[:, 2])])]
        self.connections = numba.typed.Dict.empty(numba.int64, numba.int64[:])
        for idx, connected_indices in connections.items():
            self.connections[idx] = np.fromiter(connected_indices, dtype=int, count=len(connected_indices))

    def update_pose(self, mesh2origin):
        self.mesh2origin = mesh2origin

    def __call__(self, search_direction):
        search_direction_in_mesh = np.dot(self.mesh2origin[:3, :3].T, search_direction)
        idx = hill_climb_mesh_extreme(search_direction_in_mesh, self.first_idx, self.vertices, self.connections, self.shortcut_connections)
        self.first_idx = idx
        return (idx, self.mesh2origin[:3, 3] + np.dot(self.mesh2origin[:3, :3], self.vertices[idx]))
"""


def print_reference(repo):
    tree = ast.parse((Path(repo) / "distance3d" / "colliders.py").read_text())
    cl = _classes(None, tree)
    unwrap = _flag_sites(cl)
    out = []
    for st in tree.body:
        if isinstance(st, ast.Expr) and isinstance(st.value, ast.Constant):
            continue
        holes = []
        if isinstance(st, ast.ClassDef):
            for m in st.body:
                if isinstance(m, ast.FunctionDef) and m.name == "make_artist":
                    holes += m.body
        out.append(tp.text(tp.normalise(st, holes, unwrap)))
    mesh = ast.parse((Path(repo) / "distance3d" / "mesh.py").read_text())
    mc = [n for n in mesh.body if isinstance(n, ast.ClassDef) and n.name == "MeshHillClimbingSupportFunction"][0]
    return "\n\n".join(out), tp.text(tp.normalise(mc))


# ------------------------------------------------------------------ output
def _b(x):
    return "true" if x else "false"


def _sig(s):
    if s is None:
        return "None"
    return "Some [" + "; ".join("None" if a is None else f"Some {_b(a)}" for a in s) + "]"


@tp.closed
def render(repo):
    sigs = read_signatures(repo)
    upd, wrap = read_colliders(repo)
    L = ["(* GENERATED by harness/tables_c14.py from /repo/distance3d/{colliders,geometry,utils,mesh,containment}.py",
         "   on every run of the C14 check.  Do not edit. *)",
         "From Coq Require Import List.", "Import ListNotations.", "",
         "Module CollidersTables.",
         "  (* declared numba signatures: per argument Some true = array, C-contiguous required;",
         "     Some false = array, any layout; None = not an array.  None = compiled lazily. *)"]
    for fn in ALL_FNS:
        L.append(f"  Definition sig_{fn} : option (list (option bool)) := {_sig(sigs[fn])}.")
    L.append("  (* update_pose stores a contiguous copy (true) or the strided view itself (false) *)")
    for (cls, attr), v in sorted(upd.items()):
        L.append(f"  Definition upd_{cls}_{attr}_contig : bool := {_b(v)}.")
    L.append("  (* call sites: is self.<attr> wrapped in np.ascontiguousarray? *)")
    for (cls, meth, attr), v in sorted(wrap.items()):
        L.append(f"  Definition wrap_{cls}_{meth}_{attr} : bool := {_b(v)}.")
    L.append("End CollidersTables.")
    return "\n".join(L) + "\n"


def generate(repo, out):
    """Write the table; returns True when the file changed.  Raises TablesError."""
    txt = render(repo)
    out = Path(out)
    if out.exists() and out.read_text() == txt:
        return False
    out.parent.mkdir(parents=True, exist_ok=True)
    out.write_text(txt)
    return True


if __name__ == "__main__":
    import sys
    from harness.common import REPO, COQ
    if "--print-reference" in sys.argv:
        a, b = print_reference(REPO)
        print(a + "\n@@@@\n" + b)
    elif "--check" in sys.argv:         # read only, write nothing
        render(REPO)
        print("ok")
    else:
        print("changed" if generate(REPO, COQ / "theories" / "Gen" / "CollidersTables.v") else "unchanged")
