"""Correspondence between Model/GjkLibccd.v (binary64 instance, evaluated inside coqc) and /repo's
gjk_intersection_libccd / mpr_intersection: the support points the implementation obtained in pass i are
replayed through step i of the model (harness/impl/narrowbtrace.py records them).  Compared: the search
direction of every support evaluation, the number of evaluations, and the boolean answer.

Decision margins: numpy / numba dot products go through BLAS (possibly fused multiply-add), so a test on
a near-tie can legitimately fall differently.  Every case is compared; a difference is excused (counted as
skipped_unstable) only if the model's own discrete behaviour (answer, number of passes) differs between
NPERT copies of the trace whose coordinates are perturbed by relative 3e-16 / 2e-15, i.e. if the decision
margins are not clear."""
import json
import re

import numpy as np

from . import common as cm

HEADER = ("From Coq Require Import List ZArith PrimFloat.\n"
          "From D3 Require Import Base.Vec Model.GjkLibccdRun.\nImport ListNotations.\n"
          "Local Open Scope float_scope.\n")
NPERT = 4


def _v(v):
    return f"(fv {cm.fhex(v[0])} {cm.fhex(v[1])} {cm.fhex(v[2])})"


def _trace(ps, qs, pert=None):
    items = []
    for k, (p, q) in enumerate(zip(ps, qs)):
        if pert is not None:
            p = [x * (1.0 + e) for x, e in zip(p, pert[k][0])]
            q = [x * (1.0 + e) for x, e in zip(q, pert[k][1])]
        items.append(f"({_v(p)}, {_v(q)})")
    return "[" + "; ".join(items) + "]"


def parse(s):
    s = s.replace("%Z", "").replace("%float", "").replace("%nat", "")
    s = re.sub(r"\((-[0-9][0-9.e+-]*)\)", r"\1", s)
    s = s.replace("(", "[").replace(")", "]").replace(";", ",")
    s = re.sub(r"\bneg_infinity\b", "-1e999", s)
    s = re.sub(r"\binfinity\b", "1e999", s)
    s = re.sub(r"\bnan\b", "NaN", s)
    return json.loads(s)


def exprs_for(o, fn, kw, rng, npert):
    ps, qs = o["p"], o["q"]
    n = min(len(ps), len(qs))
    ps, qs = ps[:n], qs[:n]
    variants = [None]
    for kv in range(npert):
        mag = 3e-16 if (npert <= NPERT or kv % 2 == 0) else 2e-15
        variants.append([([rng.uniform(-mag, mag) for _ in range(3)],
                          [rng.uniform(-mag, mag) for _ in range(3)]) for _ in range(n)])
    ex = []
    for pert in variants:
        tr = _trace(ps, qs, pert)
        if fn == "libccd":
            mi = int(kw.get("max_iterations", 100))
            ex.append(f"libccd_replay_f {mi}%nat {_v(o['init1']['first_vertex'])} {_v(o['init2']['first_vertex'])} {tr}")
        else:
            mi = int(kw.get("max_iterations", 100))
            tol = kw.get("mpr_tolerance", 0.0001)
            ex.append(f"mpr_replay_f {mi}%nat {cm.fhex(tol)} {_v(o['init1']['center'])} {_v(o['init2']['center'])} {tr}")
    return ex


def vclose(a, b, rel=1e-6):
    a, b = np.asarray(a, float), np.asarray(b, float)
    if a.shape != b.shape:
        return False
    if not (np.all(np.isfinite(a)) and np.all(np.isfinite(b))):
        return bool(np.all((a == b) | (np.isnan(a) & np.isnan(b))))
    return bool(np.linalg.norm(a - b) <= rel * max(np.linalg.norm(a), np.linalg.norm(b)) + 1e-300)


def compare(pid, cases, results, rng, tag="libccdcorr", npert=NPERT):
    """cases: list of dict(c1, c2, fns, kw); results: outputs of the narrowbtrace worker.
    Returns (stats, mismatches): mismatches = list of (case index, fn, text).  The perturbed copies (near-tie
    detection) are evaluated only for the traces that differ."""
    stats = dict(compared=0, matched=0, skipped_unstable=0, skipped_exception=0, mismatch=0, steps=0, answers={})
    items = []
    for i, (c, r) in enumerate(zip(cases, results)):
        for fn in c["fns"]:
            o = r[fn]
            need = "first_vertex" if fn == "libccd" else "center"
            if "exc" in o or not o["p"] or need not in o["init1"] or need not in o["init2"]:
                stats["skipped_exception"] += 1
                continue
            items.append((i, fn))
    if not items:
        return stats, []
    exprs = [exprs_for(results[i][fn], fn, cases[i].get("kw", {}), rng, 0)[0] for (i, fn) in items]
    outs = cm.coq_eval_lines(pid, HEADER, exprs, tag=tag, per_file=60, timeout=1500)

    def judge(i, fn, x):
        o = results[i][fn]
        dirs, code, n = parse(x)
        n_impl = min(len(o["p"]), len(o["q"]))
        why = []
        if len(dirs) != n_impl or code == -3:
            why.append(f"model stops after {len(dirs)} support evaluations (code {code}), implementation made {n_impl}")
        for kstep, (dm, di) in enumerate(zip(dirs, o["dirs"])):
            if not vclose(dm, di):
                why.append(f"search direction of evaluation {kstep}: model {dm} implementation {di}")
                break
        for kstep, (di, d2) in enumerate(zip(o["dirs"], o["ndirs2"])):
            if not all((-x_ == y_) or (x_ != x_ and y_ != y_) for x_, y_ in zip(di, d2)):
                why.append(f"evaluation {kstep}: collider 2 was not queried with the negated direction")
                break
        if code in (0, 1):
            if bool(code) != o["ans"]:
                why.append(f"answer: model {bool(code)} implementation {o['ans']}")
        elif not why:
            why.append(f"model outcome code {code} but the implementation answered {o['ans']}")
        return why, (code, n, len(dirs))
    suspects = []
    for (i, fn), x in zip(items, outs):
        stats["compared"] += 1
        stats["steps"] += min(len(results[i][fn]["p"]), len(results[i][fn]["q"]))
        why, sig = judge(i, fn, x)
        if sig[0] in (0, 1):
            k = f"{fn}:{bool(sig[0])}"
            stats["answers"][k] = stats["answers"].get(k, 0) + 1
        if why:
            suspects.append((i, fn, why, sig))
        else:
            stats["matched"] += 1
    mism = []
    if suspects:
        npv = max(npert, 8)
        ex = []
        for (i, fn, why, sig) in suspects:
            ex += exprs_for(results[i][fn], fn, cases[i].get("kw", {}), rng, npv)[1:]
        o2 = cm.coq_eval_lines(pid, HEADER, ex, tag=tag + "_p", per_file=60, timeout=1500)
        for k, (i, fn, why, sig) in enumerate(suspects):
            unstable = False
            for x in o2[npv * k: npv * (k + 1)]:
                d2, c2, n2 = parse(x)
                if (c2, n2, len(d2)) != sig:
                    unstable = True
            if unstable:
                stats["skipped_unstable"] += 1
            else:
                stats["mismatch"] += 1
                mism.append((i, fn, "; ".join(why)))
    return stats, mism
