"""Warm the numba on-disk cache used by worker processes."""
import os
import subprocess
import sys
from . import common as cm

code = "from harness import compat; import distance3d.aabb_tree, distance3d.gjk, distance3d.mpr, distance3d.epa, distance3d.distance, distance3d.colliders, distance3d.containment_test, distance3d.containment"
subprocess.run([cm.PY, "-c", code], cwd=str(cm.VERIF), env=cm.impl_env(True), timeout=900)
