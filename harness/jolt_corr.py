"""Correspondence between Model/JoltLoop.v (binary64 instance, evaluated inside coqc) and
/repo's gjk_distance_jolt / gjk_intersection_jolt: the support points the implementation obtained
in iteration i are replayed through step i of the model.  Compared: the search direction of every
iteration, the number of iterations, the exit state, and (distance) d, a, b.

Decision margins: numba's np.dot goes through BLAS (possibly fused multiply-add), so a Voronoi
region test on a near-tie can legitimately fall differently.  Every case is compared; a
difference is excused (counted as skipped_unstable) only if the model's own discrete behaviour
(exit, iteration count, simplex size) differs between NPERT copies of the trace whose coordinates
are perturbed by relative 3e-16 (about one ulp), i.e. if the decision margins are not clear."""
import json
import re

import numpy as np

from . import common as cm

HEADER = ("From Coq Require Import List ZArith PrimFloat.\n"
          "From D3 Require Import Base.Vec Model.JoltLoopRun.\nImport ListNotations.\n"
          "Local Open Scope float_scope.\n")
NPERT = 4
MAX_FLOAT = 1.7976931348623157e308


def _v(v):
    return f"(fv {cm.fhex(v[0])} {cm.fhex(v[1])} {cm.fhex(v[2])})"


def _trace(ps, qs, pert=None):
    items = []
    for k, (p, q) in enumerate(zip(ps, qs)):
        if pert is not None:
            p = [x * (1.0 + e) for x, e in zip(p, pert[k][0])]
            q = [x * (1.0 + e) for x, e in zip(q, pert[k][1])]
        items.append(f"({_v(p)}, {_v(q)})")
    return "[" + "; ".join(items) + "]"


def parse(s):
    s = s.replace("%Z", "").replace("%float", "").replace("%nat", "")
    s = re.sub(r"\((-[0-9][0-9.e+-]*)\)", r"\1", s)
    s = s.replace("(", "[").replace(")", "]").replace(";", ",")
    s = re.sub(r"\bneg_infinity\b", "-1e999", s)
    s = re.sub(r"\binfinity\b", "1e999", s)
    s = re.sub(r"\bnan\b", "NaN", s)
    return json.loads(s)


def exprs_for(o, fn, kw, rng, npert, mags=None):
    ps, qs = o["p"], o["q"]
    n = min(len(ps), len(qs))
    ps, qs = ps[:n], qs[:n]
    variants = [None]
    for kv in range(npert):
        # first look: about one ulp; second look (npert > NPERT): every other copy at ~10 ulps, so
        # that a difference caused by a single differently rounded dot product (BLAS may fuse
        # multiply-add) is recognised as "margin not clear" with overwhelming probability
        mag = 3e-16 if (npert <= NPERT or kv % 2 == 0) else 2e-15
        if mags:
            # third look (exit decisions only, see c01.loop_correspondence): on ill-conditioned final simplices the closest
            # point amplifies one differently rounded dot product to ~50 ulps of v_len_sq, and the relative-progress exit
            # compares at 1 ulp
            mag = mags[kv % len(mags)]
        variants.append([([rng.uniform(-mag, mag) for _ in range(3)],
                          [rng.uniform(-mag, mag) for _ in range(3)]) for _ in range(n)])
    ex = []
    for pert in variants:
        tr = _trace(ps, qs, pert)
        if fn == "distance":
            tol = kw.get("tolerance", 1e-10)
            md = kw.get("max_distance_squared", 100000.0)
            san = kw.get("sanity_check", 1e-8)
            ex.append(f"jolt_replay_d {cm.fhex(tol)} {cm.fhex(md)} {cm.fhex(san)} {tr}")
        else:
            tol = kw.get("tolerance", 1e-10)
            ex.append(f"jolt_replay_i {cm.fhex(tol)} {tr}")
    return ex


def unpack_d(val):
    # Coq prints the left-nested tuple flat: (dirs, g, code, payload, npts, it)
    dirs, g, code, payload, npts, it = val
    return dict(dirs=dirs, g=g, code=code, payload=payload, npts=npts, it=it)


def unpack_i(val):
    dirs, code, it = val
    return dict(dirs=dirs, code=code, it=it)


def close(x, y, rel, abs_):
    x, y = np.asarray(x, float), np.asarray(y, float)
    if x.shape != y.shape:
        return False
    if not (np.all(np.isfinite(x)) and np.all(np.isfinite(y))):
        return bool(np.all((x == y) | (np.isnan(x) & np.isnan(y))))
    return bool(np.all(np.abs(x - y) <= abs_ + rel * np.maximum(np.abs(x), np.abs(y))))


def compare(pid, cases, results, rng, L_of, tag="joltcorr", npert=NPERT, mags=None):
    """cases: list of dict(c1, c2, fns, kw, kw_i); results: worker outputs.
    Returns (stats, mismatches): mismatches = list of (case index, fn, text)."""
    exprs, idx = [], []
    stats = dict(compared=0, skipped_unstable=0, skipped_exception=0, mismatch=0, steps=0,
                 exits={})
    for i, (c, r) in enumerate(zip(cases, results)):
        for fn in c["fns"]:
            o = r[fn]
            kw = c.get("kw", {}) if fn == "distance" else c.get("kw_i", {})
            if "exc" in o or not o["p"]:
                stats["skipped_exception"] += 1
                continue
            ex = exprs_for(o, fn, kw, rng, npert, mags)
            idx.append((i, fn, len(exprs), len(ex)))
            exprs += ex
    if not exprs:
        return stats, []
    outs = cm.coq_eval_lines(pid, HEADER, exprs, tag=tag, per_file=60, timeout=1500)
    mism = []
    for (i, fn, start, k) in idx:
        c, o = cases[i], results[i][fn]
        L = L_of(c)
        vals = [parse(x) for x in outs[start:start + k]]
        if fn == "distance":
            ms = [unpack_d(v) for v in vals]
            key = lambda m: (m["g"], m["code"], m["npts"], m["it"], len(m["dirs"]))
        else:
            ms = [unpack_i(v) for v in vals]
            key = lambda m: (m["code"], m["it"], len(m["dirs"]))
        m0 = ms[0]
        unstable = any(key(m) != key(m0) for m in ms[1:])
        stats["compared"] += 1
        n_impl = min(len(o["p"]), len(o["q"]))
        stats["steps"] += n_impl
        why = []
        # 1. the model must stop exactly where the implementation stopped
        if len(m0["dirs"]) != n_impl or m0["code"] == -3:
            why.append(f"model stops after {len(m0['dirs'])} iterations (code {m0['code']}), implementation made {n_impl}")
        # 2. same search directions (collider 2 gets the negated one)
        for kstep, (dm, di) in enumerate(zip(m0["dirs"], o["dirs"])):
            if not close(dm, di, 1e-9, 1e-12 * L):
                why.append(f"search direction of iteration {kstep}: model {dm} implementation {di}")
                break
        for kstep, (di, d2) in enumerate(zip(o["dirs"], o["ndirs2"])):
            if not close([-x for x in di], d2, 0.0, 0.0):
                why.append(f"iteration {kstep}: collider 2 was not queried with the negated direction")
                break
        # 3. outcome
        if fn == "distance":
            ex_name = {0: "NoIntersection", 1: "Intersection", 3: "Clipped"}.get(m0["g"], str(m0["g"]))
            stats["exits"][ex_name] = stats["exits"].get(ex_name, 0) + 1
            sz = stats.setdefault("final_simplex_sizes", {})
            sz[str(m0["npts"])] = sz.get(str(m0["npts"]), 0) + 1
            if m0["code"] == 3:
                if not (o["d"] >= MAX_FLOAT * 0.99 and o["a"] is None):
                    why.append(f"model: clipped; implementation d={o['d']}")
            elif m0["code"] == 0:
                pl = m0["payload"]
                dist, a, b = pl[0], pl[1:4], pl[4:7]
                spread = 0.0
                for m in ms[1:]:
                    if len(m["payload"]) < 7:
                        continue
                    spread = max(spread, float(np.max(np.abs(np.array(m["payload"][:7]) - np.array(pl[:7])))))
                tol_abs = 1e-9 * L + 100.0 * spread
                if o["a"] is None:
                    why.append(f"model: d={dist}; implementation clipped")
                elif not (close(dist, o["d"], 1e-9, tol_abs) and close(a, o["a"], 1e-9, tol_abs)
                          and close(b, o["b"], 1e-9, tol_abs)):
                    why.append(f"result: model d={dist} a={a} b={b}; implementation d={o['d']} a={o['a']} b={o['b']}")
            elif not why:
                why.append(f"model outcome code {m0['code']} (index error / assertion / sanity) but the implementation returned d={o.get('d')}")
        else:
            stats["exits"][str(m0["code"])] = stats["exits"].get(str(m0["code"]), 0) + 1
            if m0["code"] in (0, 1):
                if bool(m0["code"]) != o["ans"]:
                    why.append(f"answer: model {bool(m0['code'])} implementation {o['ans']}")
            elif m0["code"] == -5:
                why.append("model reaches the no-progress arm (compiled code raises TypeError there) "
                           f"but the implementation answered {o['ans']}")
            elif not why:
                why.append(f"model outcome code {m0['code']} but the implementation answered {o['ans']}")
        if why and unstable:
            # the model's own discrete behaviour changes under one-ulp perturbations of this
            # trace: the decision margins are not clear, the difference is not held against anyone
            stats["skipped_unstable"] += 1
            # report the excusals by kind, so that an arm that is ALWAYS excused becomes visible
            kind = ("iteration-count" if "model stops after" in why[0] else
                    "direction" if "search direction" in why[0] else
                    "result" if why[0].startswith("result") else "other")
            ex = stats.setdefault("excused_by_kind", {})
            ex[kind] = ex.get(kind, 0) + 1
        elif why:
            stats["mismatch"] += 1
            mism.append((i, fn, "; ".join(why[:3])))
        else:
            stats["matched"] = stats.get("matched", 0) + 1
            if unstable:
                stats["matched_although_unstable"] = stats.get("matched_although_unstable", 0) + 1
    return stats, mism
