"""Fail-closed reader of the literal tables and table-like code of
/repo/distance3d/hydroelastic_contact/_tetra_mesh_creation.py
-> coq/theories/Gen/TetTables.v   (property C17).

What is extracted (every run, from the current source):
  * icosahedron: the 12 vertex rows (entries 0, +-1, +-f with f = (1 + 5 ** 0.5) / 2),
    the 20 triangles, the first free vertex id, the three midpoint calls and the four
    child-triangle patterns of the subdivision loop, and the shape of the cache key
    (Cantor pairing) expression;
  * cube: vertex table, tetrahedron table, potential list;
  * box: the six [_split_to_tetrahedra] calls (arguments m[i,j,k] / v[i,j,k]), the index
    from which potentials are the medial value, the relative tolerance literal;
  * the three splitting helpers (first / sequence / fixed vertices / distinctness filter);
  * cylinder: tolerance literal and the per-sector loop bodies of the long / medium / short
    classes; capsule: the cap-loop and barrel-loop bodies.
Any unexpected shape raises TablesError (the check then reports the dependent
obligations as broken).  The file is only rewritten when its content changes.
"""
import ast
from pathlib import Path

from .tables import TablesError

SRC = Path("distance3d") / "hydroelastic_contact" / "_tetra_mesh_creation.py"


# ------------------------------------------------------------------ helpers
def _dump(n):
    s = ast.dump(n, annotate_fields=True, include_attributes=False)
    # the same expression as assignment target / value differs only in ctx
    return s.replace(", ctx=Store()", "").replace(", ctx=Load()", "").replace(", ctx=Del()", "")


def _expr(src):
    return ast.parse(src, mode="eval").body


def _stmt(src):
    return ast.parse(src).body[0]


def _same(node, src, what):
    ref = _expr(src) if isinstance(node, ast.expr) else _stmt(src)
    if _dump(node) != _dump(ref):
        raise TablesError(f"{what}: expected `{src}`, found `{ast.unparse(node)}`")


def _funcs(tree):
    out = {}
    for n in tree.body:
        if isinstance(n, ast.FunctionDef):
            if n.name in out:
                raise TablesError(f"function {n.name} defined twice")
            out[n.name] = n
    return out


def _body(fn):
    """Statements of a function without the docstring."""
    b = list(fn.body)
    if b and isinstance(b[0], ast.Expr) and isinstance(b[0].value, ast.Constant) and isinstance(b[0].value.value, str):
        b = b[1:]
    return b


def _assign_to(stmts, name, what, unique=True):
    hits = [s for s in stmts if isinstance(s, ast.Assign) and len(s.targets) == 1
            and isinstance(s.targets[0], ast.Name) and s.targets[0].id == name]
    if not hits or (unique and len(hits) != 1):
        raise TablesError(f"{what}: expected exactly one assignment to `{name}`, found {len(hits)}")
    return hits[0]


def _assigned_names(stmts):
    """Every name that is (re)bound or mutated anywhere in stmts (deep)."""
    names = []
    for s in stmts:
        for n in ast.walk(s):
            if isinstance(n, (ast.Assign, ast.AugAssign, ast.AnnAssign)):
                tg = n.targets if isinstance(n, ast.Assign) else [n.target]
                for t in tg:
                    for m in ast.walk(t):
                        if isinstance(m, ast.Name):
                            names.append(m.id)
    return names


def _num(node, what):
    if isinstance(node, ast.UnaryOp) and isinstance(node.op, ast.USub):
        return -_num(node.operand, what)
    if isinstance(node, ast.Constant) and isinstance(node.value, (int, float)) and not isinstance(node.value, bool):
        return node.value
    raise TablesError(f"{what}: expected a numeric literal, found `{ast.unparse(node)}`")


def _np_array_call(node, what, dtype=None):
    """np.array(<list>[, dtype=<name>]) -> the list node."""
    if not (isinstance(node, ast.Call) and _dump(node.func) == _dump(_expr("np.array")) and len(node.args) == 1):
        raise TablesError(f"{what}: expected np.array([...]), found `{ast.unparse(node)}`")
    kws = {k.arg: k.value for k in node.keywords}
    if dtype is None:
        if kws:
            raise TablesError(f"{what}: unexpected keywords {list(kws)}")
    else:
        if list(kws) != ["dtype"] or not (isinstance(kws["dtype"], ast.Name) and kws["dtype"].id == dtype):
            raise TablesError(f"{what}: expected dtype={dtype}")
    if not isinstance(node.args[0], ast.List):
        raise TablesError(f"{what}: expected a list literal")
    return node.args[0]


def _rows(lst, width, what):
    rows = []
    for r in lst.elts:
        if not isinstance(r, ast.List) or len(r.elts) != width:
            raise TablesError(f"{what}: expected rows of {width} entries, found `{ast.unparse(r)}`")
        rows.append(r.elts)
    return rows


def _nat(x, what):
    if not isinstance(x, int) or isinstance(x, bool) or x < 0:
        raise TablesError(f"{what}: expected a non-negative int literal, got {x!r}")
    return x


def _q(x):
    """exact rational of a float / int literal as a Coq Q literal"""
    n, d = (x, 1) if isinstance(x, int) else float(x).as_integer_ratio()
    return f"({n} # {d})%Q" if n >= 0 else f"(({n}) # {d})%Q"


def _dyadic(x, what):
    """float literal -> (m, k) with x = m / 2^k, m odd-or-any, k >= 0"""
    n, d = float(x).as_integer_ratio()
    k = d.bit_length() - 1
    if d != 1 << k or n <= 0 or n >= 1 << 53:
        raise TablesError(f"{what}: literal {x!r} is not a positive binary64 dyadic")
    return n, k


# ------------------------------------------------------------------ icosphere
def _read_icosphere(fn):
    what = "make_triangular_icosphere"
    b = _body(fn)
    _same(_assign_to(b, "f", what), "f = (1 + 5 ** 0.5) / 2", what)
    # vertices[:12] = np.array([...])
    vt = [s for s in b if isinstance(s, ast.Assign) and len(s.targets) == 1
          and isinstance(s.targets[0], ast.Subscript) and _dump(s.targets[0].value) == _dump(_expr("vertices"))]
    if len(vt) != 1:
        raise TablesError(f"{what}: expected one slice assignment to vertices, found {len(vt)}")
    _same(vt[0].targets[0], "vertices[:12]", what)
    sym = {"0": "IC0", "1": "IC1", "-1": "ICm1", "f": "ICf", "-f": "ICmf"}
    verts = []
    for r in _rows(_np_array_call(vt[0].value, what + " vertex table"), 3, what + " vertex table"):
        row = []
        for e in r:
            s = ast.unparse(e).replace(" ", "")
            if s not in sym or not isinstance(e, (ast.Constant, ast.Name, ast.UnaryOp)):
                raise TablesError(f"{what}: unexpected vertex entry `{s}`")
            row.append(sym[s])
        verts.append(row)
    if len(verts) != 12:
        raise TablesError(f"{what}: expected 12 vertex rows, found {len(verts)}")
    tri_assign = [s for s in b if isinstance(s, ast.Assign) and len(s.targets) == 1
                  and isinstance(s.targets[0], ast.Name) and s.targets[0].id == "triangles"]
    if len(tri_assign) != 1:
        raise TablesError(f"{what}: expected one top-level assignment to triangles")
    tris = [[_nat(_num(e, what), what + " triangle table") for e in r]
            for r in _rows(_np_array_call(tri_assign[0].value, what + " triangle table", dtype="int"), 3,
                           what + " triangle table")]
    vfirst = _assign_to(b, "v", what)
    first_new = _nat(_num(vfirst.value, what), what + " v")
    if first_new != len(verts):
        raise TablesError(f"{what}: v = {first_new} but {len(verts)} base vertices")
    _same(_assign_to(b, "mid_cache", what), "mid_cache = dict()", what)
    # the cache helper: compared as a whole with the code the Coq model transliterates
    helpers = [s for s in b if isinstance(s, ast.FunctionDef)]
    if len(helpers) != 1 or helpers[0].name != "add_mid_point":
        raise TablesError(f"{what}: expected the single local helper add_mid_point")
    ref = _stmt(
        "def add_mid_point(a, b, mid_cache, v):\n"
        "    key = math.floor((a + b) * (a + b + 1) / 2) + min(a, b)\n"
        "    i = mid_cache.get(key, None)\n"
        "    if i is not None:\n"
        "        del mid_cache[key]\n"
        "        return i, v\n"
        "    mid_cache[key] = v\n"
        "    vertices[v] = 0.5 * (vertices[a] + vertices[b])\n"
        "    i = v\n"
        "    v += 1\n"
        "    return i, v\n")
    if _dump(helpers[0]) != _dump(ref):
        raise TablesError(f"{what}: add_mid_point differs from the modelled code:\n{ast.unparse(helpers[0])}")
    _same(_assign_to(b, "triangles_prev", what), "triangles_prev = triangles", what)
    loops = [s for s in b if isinstance(s, ast.For)]
    if len(loops) != 1:
        raise TablesError(f"{what}: expected one top-level for loop")
    outer = loops[0]
    _same(outer.iter, "range(order)", what)
    if len(outer.body) != 3 or outer.orelse:
        raise TablesError(f"{what}: subdivision loop has an unexpected body")
    _same(outer.body[0],
          "triangles = np.empty((4 * triangles.shape[0], triangles.shape[1]), dtype=int)", what)
    _same(outer.body[2], "triangles_prev = triangles", what)
    inner = outer.body[1]
    if not isinstance(inner, ast.For) or inner.orelse:
        raise TablesError(f"{what}: expected the inner triangle loop")
    _same(inner.target, "(k, triangle)", what)
    _same(inner.iter, "enumerate(triangles_prev)", what)
    ib = inner.body
    if len(ib) != 9:
        raise TablesError(f"{what}: inner loop has {len(ib)} statements, expected 9")
    _same(ib[0], "v1, v2, v3 = triangle", what)
    pos = {"v1": 0, "v2": 1, "v3": 2, "a": 3, "b": 4, "c": 5}
    mids = []
    for s, nm in zip(ib[1:4], ["a", "b", "c"]):
        if not (isinstance(s, ast.Assign) and len(s.targets) == 1 and _dump(s.targets[0]) == _dump(_expr(f"({nm}, v)"))
                and isinstance(s.value, ast.Call) and _dump(s.value.func) == _dump(_expr("add_mid_point"))
                and len(s.value.args) == 4 and not s.value.keywords
                and _dump(s.value.args[2]) == _dump(_expr("mid_cache")) and _dump(s.value.args[3]) == _dump(_expr("v"))
                and all(isinstance(x, ast.Name) and x.id in ("v1", "v2", "v3") for x in s.value.args[:2])):
            raise TablesError(f"{what}: unexpected midpoint statement `{ast.unparse(s)}`")
        mids.append((pos[s.value.args[0].id], pos[s.value.args[1].id]))
    _same(ib[4], "t = k * 4", what)
    kids = []
    for off, s in enumerate(ib[5:9]):
        tgt = "triangles[t]" if off == 0 else f"triangles[t + {off}]"
        if not (isinstance(s, ast.Assign) and len(s.targets) == 1 and _dump(s.targets[0]) == _dump(_expr(tgt))
                and isinstance(s.value, ast.Tuple) and len(s.value.elts) == 3
                and all(isinstance(x, ast.Name) and x.id in pos for x in s.value.elts)):
            raise TablesError(f"{what}: unexpected child triangle statement `{ast.unparse(s)}`")
        kids.append(tuple(pos[x.id] for x in s.value.elts))
    # after the loops: normalisation and shift only
    tail = b[b.index(outer) + 1:]
    if len(tail) != 3:
        raise TablesError(f"{what}: unexpected statements after the subdivision loop")
    _same(tail[0], "vertices /= 1.0 / radius * np.linalg.norm(vertices, axis=1)[:, np.newaxis]", what)
    _same(tail[1], "vertices += center[np.newaxis]", what)
    _same(tail[2], "return vertices, triangles", what)
    return dict(verts=verts, tris=tris, first_new=first_new, mids=mids, kids=kids)


def _read_center_fan(fn, what, radius_expr):
    """make_tetrahedral_sphere / _ellipsoid: tetrahedra = hstack(triangles, centre id)."""
    b = _body(fn)
    _same(_assign_to(b, "center_idx", what), "center_idx = len(vertices)", what)
    _same(_assign_to(b, "tetrahedra", what),
          "tetrahedra = np.hstack((triangles, center_idx * np.ones((len(triangles), 1), dtype=int)))", what)
    _same(_assign_to(b, "potentials", what), "potentials = np.zeros(len(vertices))", what)
    last = [s for s in b if isinstance(s, ast.Assign) and _dump(s.targets[0]) == _dump(_expr("potentials[-1]"))]
    if len(last) != 1:
        raise TablesError(f"{what}: expected potentials[-1] = ...")
    _same(last[0].value, radius_expr, what)
    _same(b[-1], "return vertices, tetrahedra, potentials", what)


# ------------------------------------------------------------------ cube
def _read_cube(fn):
    what = "make_tetrahedral_cube"
    b = _body(fn)
    if len(b) != 4:
        raise TablesError(f"{what}: expected 3 assignments and a return, found {len(b)} statements")
    va = b[0]
    if not (isinstance(va, ast.Assign) and _dump(va.targets[0]) == _dump(_expr("vertices"))
            and isinstance(va.value, ast.BinOp) and isinstance(va.value.op, ast.Mult)
            and _dump(va.value.left) == _dump(_expr("size"))):
        raise TablesError(f"{what}: expected vertices = size * np.array([...])")
    verts = [[_num(e, what) for e in r] for r in _rows(_np_array_call(va.value.right, what), 3, what)]
    ta = b[1]
    if not (isinstance(ta, ast.Assign) and _dump(ta.targets[0]) == _dump(_expr("tetrahedra"))):
        raise TablesError(f"{what}: expected tetrahedra = np.array([...], dtype=int)")
    tets = [[_nat(_num(e, what), what) for e in r] for r in _rows(_np_array_call(ta.value, what, dtype="int"), 4, what)]
    pa = b[2]
    if not (isinstance(pa, ast.Assign) and _dump(pa.targets[0]) == _dump(_expr("potentials"))):
        raise TablesError(f"{what}: expected potentials = np.array([...], dtype=float)")
    pots = []
    for e in _np_array_call(pa.value, what, dtype="float").elts:
        if _dump(e) == _dump(_expr("size / 2.0")):
            pots.append("CPhalfsize")
        elif isinstance(e, ast.Constant) and isinstance(e.value, float) and e.value == 0.0:
            pots.append("CPzero")
        else:
            raise TablesError(f"{what}: unexpected potential entry `{ast.unparse(e)}`")
    _same(b[3], "return vertices, tetrahedra, potentials", what)
    if len(pots) != len(verts):
        raise TablesError(f"{what}: {len(verts)} vertices but {len(pots)} potentials")
    return dict(verts=verts, tets=tets, pots=pots)


# ------------------------------------------------------------------ splitting helpers
def _read_split(fn, nargs, with_filter):
    what = fn.name
    args = [a.arg for a in fn.args.args]
    if args != [f"v{i}" for i in range(nargs)] or fn.args.vararg or fn.args.kwarg or fn.args.kwonlyargs or fn.args.defaults:
        raise TablesError(f"{what}: expected parameters v0..v{nargs - 1}")
    b = _body(fn)
    if len(b) != 4:
        raise TablesError(f"{what}: unexpected body")
    _same(b[0], "elements = []", what)
    if not (isinstance(b[1], ast.Assign) and _dump(b[1].targets[0]) == _dump(_expr("previous"))
            and isinstance(b[1].value, ast.Name) and b[1].value.id in args):
        raise TablesError(f"{what}: expected previous = v<k>")
    first = args.index(b[1].value.id)
    loop = b[2]
    if not (isinstance(loop, ast.For) and not loop.orelse and _dump(loop.target) == _dump(_expr("next"))
            and isinstance(loop.iter, ast.List) and all(isinstance(e, ast.Name) and e.id in args for e in loop.iter.elts)):
        raise TablesError(f"{what}: expected for next in [v.., ...]")
    seq = [args.index(e.id) for e in loop.iter.elts]
    lb = loop.body
    if len(lb) != 2:
        raise TablesError(f"{what}: unexpected loop body")
    _same(lb[1], "previous = next", what)
    app = lb[0]
    if with_filter:
        if not (isinstance(app, ast.If) and not app.orelse and len(app.body) == 1):
            raise TablesError(f"{what}: expected the 4-distinct guard")
        guard, app = app.test, app.body[0]
    if not (isinstance(app, ast.Expr) and isinstance(app.value, ast.Call)
            and _dump(app.value.func) == _dump(_expr("elements.append")) and len(app.value.args) == 1
            and isinstance(app.value.args[0], ast.List) and len(app.value.args[0].elts) == 4):
        raise TablesError(f"{what}: expected elements.append([previous, next, vA, vB])")
    e = app.value.args[0].elts
    if not (_dump(e[0]) == _dump(_expr("previous")) and _dump(e[1]) == _dump(_expr("next"))
            and isinstance(e[2], ast.Name) and e[2].id in args and isinstance(e[3], ast.Name) and e[3].id in args):
        raise TablesError(f"{what}: expected elements.append([previous, next, vA, vB])")
    f1, f2 = args.index(e[2].id), args.index(e[3].id)
    if with_filter:
        _same(guard, f"len({{previous, next, v{f1}, v{f2}}}) == 4", what)
    _same(b[3], "return elements", what)
    return dict(first=first, seq=seq, fix1=f1, fix2=f2, filt=with_filter)


# ------------------------------------------------------------------ box
def _read_box(fn):
    what = "make_tetrahedral_box"
    b = _body(fn)
    tol = _assign_to(b, "relative_tolerance", what)
    if not (isinstance(tol.value, ast.BinOp) and isinstance(tol.value.op, ast.Mult)
            and _dump(tol.value.right) == _dump(_expr("max(1.0, min_half_size)"))):
        raise TablesError(f"{what}: expected relative_tolerance = <literal> * max(1.0, min_half_size)")
    tol_lit = _dyadic(_num(tol.value.left, what), what)
    _same(_assign_to(b, "half_size", what), "half_size = 0.5 * size", what)
    _same(_assign_to(b, "min_half_size", what), "min_half_size = min(half_size)", what)
    _same(_assign_to(b, "half_central", what), "half_central = half_size - min_half_size", what)
    thr = [s for s in b if isinstance(s, ast.Assign) and isinstance(s.targets[0], ast.Subscript)
           and _dump(s.targets[0].value) == _dump(_expr("half_central"))]
    if len(thr) != 1:
        raise TablesError(f"{what}: expected the thresholding statement")
    _same(thr[0], "half_central[half_central <= relative_tolerance] = 0.0", what)
    faces = []
    first_ext = None
    for idx, s in enumerate(b):
        if isinstance(s, ast.Expr) and isinstance(s.value, ast.Call) and _dump(s.value.func) == _dump(_expr("mesh_elements.extend")):
            c = s.value.args[0] if len(s.value.args) == 1 else None
            if not (isinstance(c, ast.Call) and _dump(c.func) == _dump(_expr("_split_to_tetrahedra"))
                    and len(c.args) == 8 and not c.keywords):
                raise TablesError(f"{what}: unexpected extend call `{ast.unparse(s)}`")
            row = []
            for a in c.args:
                if not (isinstance(a, ast.Subscript) and isinstance(a.value, ast.Name) and a.value.id in ("m", "v")
                        and isinstance(a.slice, ast.Tuple) and len(a.slice.elts) == 3):
                    raise TablesError(f"{what}: unexpected argument `{ast.unparse(a)}`")
                ijk = [_num(e, what) for e in a.slice.elts]
                if any(x not in (0, 1) for x in ijk):
                    raise TablesError(f"{what}: grid index out of range in `{ast.unparse(a)}`")
                row.append(("BM" if a.value.id == "m" else "BV", ijk))
            faces.append(row)
            if first_ext is None:
                first_ext = idx
    if len(faces) != 6:
        raise TablesError(f"{what}: expected 6 _split_to_tetrahedra calls, found {len(faces)}")
    # nothing but the six calls between `mesh_elements = []` and the conversion to an int array
    seg = b[first_ext - 1:first_ext + 7]
    _same(seg[0], "mesh_elements = []", what)
    _same(seg[7], "mesh_elements = np.array(mesh_elements, dtype=int)", what)
    _same(b[first_ext + 7], "potentials = np.zeros(len(mesh_vertices))", what)
    pm = b[first_ext + 8]
    if not (isinstance(pm, ast.Assign) and isinstance(pm.targets[0], ast.Subscript)
            and _dump(pm.targets[0].value) == _dump(_expr("potentials"))
            and isinstance(pm.targets[0].slice, ast.Slice) and pm.targets[0].slice.upper is None
            and pm.targets[0].slice.step is None and _dump(pm.value) == _dump(_expr("min_half_size"))):
        raise TablesError(f"{what}: expected potentials[<k>:] = min_half_size")
    n_corner = _nat(_num(pm.targets[0].slice.lower, what), what)
    _same(b[first_ext + 9], "return mesh_vertices, mesh_elements, potentials", what)
    if len(b) != first_ext + 10:
        raise TablesError(f"{what}: unexpected trailing statements")
    return dict(tol=tol_lit, faces=faces, n_corner=n_corner)


# ------------------------------------------------------------------ cylinder
_CATOMS = {
    "bottom_center": "CA_bottom_center", "top_center": "CA_top_center", "center": "CA_center",
    "medial": "CA_medial", "medial[0]": "CA_medial0", "medial[1]": "CA_medial1",
    "bottom[i]": "CA_bottom_i", "bottom[j]": "CA_bottom_j", "top[i]": "CA_top_i", "top[j]": "CA_top_j",
    "medial[i]": "CA_medial_i", "medial[j]": "CA_medial_j",
}


def _catom(node, what):
    s = ast.unparse(node).replace(" ", "")
    ok = isinstance(node, ast.Name) or (isinstance(node, ast.Subscript) and isinstance(node.value, ast.Name)
                                        and isinstance(node.slice, (ast.Name, ast.Constant)))
    if not ok or s not in _CATOMS:
        raise TablesError(f"{what}: unexpected vertex expression `{s}`")
    return _CATOMS[s]


def _elem_stmt(s, atom, what, prefix):
    """mesh_elements.append([a,b,c,d]) | mesh_elements.extend(_split_*(...)) -> coq term"""
    if not (isinstance(s, ast.Expr) and isinstance(s.value, ast.Call) and len(s.value.args) == 1 and not s.value.keywords):
        raise TablesError(f"{what}: unexpected statement `{ast.unparse(s)}`")
    fn, arg = s.value.func, s.value.args[0]
    if _dump(fn) == _dump(_expr("mesh_elements.append")):
        if not (isinstance(arg, ast.List) and len(arg.elts) == 4):
            raise TablesError(f"{what}: append of a non-4-list `{ast.unparse(s)}`")
        return f"{prefix}_tet " + " ".join(atom(e, what) for e in arg.elts)
    if _dump(fn) == _dump(_expr("mesh_elements.extend")) and isinstance(arg, ast.Call) and not arg.keywords:
        if _dump(arg.func) == _dump(_expr("_split_triangular_prism_to_tetrahedra")) and len(arg.args) == 6:
            return f"{prefix}_prism " + " ".join(atom(e, what) for e in arg.args)
        if _dump(arg.func) == _dump(_expr("_split_pyramid_to_tetrahedra")) and len(arg.args) == 5:
            return f"{prefix}_pyramid " + " ".join(atom(e, what) for e in arg.args)
    raise TablesError(f"{what}: unexpected statement `{ast.unparse(s)}`")


def _read_cyl_class(fn):
    what = fn.name
    b = _body(fn)
    loops = [s for s in b if isinstance(s, ast.For)]
    sector = [l for l in loops if _dump(l.target) == _dump(_expr("j"))]
    if len(sector) != 1:
        raise TablesError(f"{what}: expected one sector loop over j")
    loop = sector[0]
    k = b.index(loop)
    _same(loop.iter, "range(n_vertices_per_circle)", what)
    _same(b[k - 1], "i = n_vertices_per_circle - 1", what)
    _same(b[k - 2], "mesh_elements = []", what)
    _same(b[k + 1], "return mesh_elements", what)
    if len(b) != k + 2 or loop.orelse:
        raise TablesError(f"{what}: unexpected statements after the sector loop")
    _same(loop.body[-1], "i = j", what)
    elems = [_elem_stmt(s, _catom, what, "CE") for s in loop.body[:-1]]
    # the statements before the loop must not touch mesh_elements / i / j
    bad = set(_assigned_names(b[:k - 2])) & {"mesh_elements", "j", "n_vertices_per_circle", "bottom", "top",
                                              "bottom_center", "top_center"}
    if bad:
        raise TablesError(f"{what}: prologue rebinds {sorted(bad)}")
    return elems


def _read_cylinder(fn):
    what = "make_tetrahedral_cylinder"
    b = _body(fn)
    tol = _assign_to(b, "tolerance", what)
    if not (isinstance(tol.value, ast.BinOp) and isinstance(tol.value.op, ast.Mult)
            and _dump(tol.value.right) == _dump(_expr("max(1.0, min(top_z, radius))"))):
        raise TablesError(f"{what}: expected tolerance = <literal> * max(1.0, min(top_z, radius))")
    lit = _dyadic(_num(tol.value.left, what), what)
    _same(_assign_to(b, "top_z", what), "top_z = 0.5 * length", what)
    _same(_assign_to(b, "bottom_z", what), "bottom_z = -top_z", what)
    _same(_assign_to(b, "n_vertices_per_circle", what),
          "n_vertices_per_circle = max(3, math.ceil(2.0 * np.pi * radius / resolution_hint))", what)
    return dict(tol=lit)


# ------------------------------------------------------------------ capsule
def _katom(node, what):
    s = ast.unparse(node).replace(" ", "")
    names = {"medial_top": "KA_medial_top", "medial_bottom": "KA_medial_bottom", "top": "KA_top", "bottom": "KA_bottom"}
    if isinstance(node, ast.Name) and s in names:
        return names[s]
    if isinstance(node, ast.Subscript) and isinstance(node.value, ast.Name) and node.value.id in ("top_cap", "bottom_cap"):
        t = "true" if node.value.id == "top_cap" else "false"
        idx = ast.unparse(node.slice).replace(" ", "")
        n = "n_vertices_per_circle"
        table = {
            f"(i+1)*{n}+j": f"(KCap {t} 1 0)", f"(i+1)*{n}+j1": f"(KCap {t} 1 1)",
            f"i*{n}+j": f"(KCap {t} 0 0)", f"i*{n}+j1": f"(KCap {t} 0 1)",
            "last_circle_offset+j": f"(KLast {t} 0)", "last_circle_offset+j1": f"(KLast {t} 1)",
            "j": f"(KRing {t} 0)", "j1": f"(KRing {t} 1)",
        }
        if idx in table:
            return table[idx]
    raise TablesError(f"{what}: unexpected vertex expression `{s}`")


def _read_capsule(fn):
    what = "make_tetrahedral_capsule"
    b = _body(fn)
    _same(_assign_to(b, "n_vertices_per_circle", what),
          "n_vertices_per_circle = int(np.clip(2.0 * np.pi * radius / resolution_hint, 3.0, 706.0))", what)
    _same(_assign_to(b, "n_circles_per_cap", what), "n_circles_per_cap = n_vertices_per_circle // 2", what)
    _same(_assign_to(b, "last_circle_offset", what),
          "last_circle_offset = (n_circles_per_cap - 1) * n_vertices_per_circle", what)
    k = b.index(_assign_to(b, "mesh_elements", what))
    caps, barrel = b[k + 1], b[k + 3]
    if _dump(b[k + 2]) != _dump(_stmt("last_circle_offset = (n_circles_per_cap - 1) * n_vertices_per_circle")):
        raise TablesError(f"{what}: unexpected statement between the element loops")
    if not (isinstance(caps, ast.For) and _dump(caps.target) == _dump(_expr("i")) and not caps.orelse
            and len(caps.body) == 1 and isinstance(caps.body[0], ast.For)):
        raise TablesError(f"{what}: expected the cap loops")
    _same(caps.iter, "range(n_circles_per_cap - 1)", what)
    inner = caps.body[0]
    _same(inner.target, "j", what)
    _same(inner.iter, "range(n_vertices_per_circle)", what)
    _same(inner.body[0], "j1 = (j + 1) % n_vertices_per_circle", what)
    cap_elems = [_elem_stmt(s, _katom, what, "KE") for s in inner.body[1:]]
    if not (isinstance(barrel, ast.For) and _dump(barrel.target) == _dump(_expr("j")) and not barrel.orelse):
        raise TablesError(f"{what}: expected the barrel loop")
    _same(barrel.iter, "range(n_vertices_per_circle)", what)
    _same(barrel.body[0], "j1 = (j + 1) % n_vertices_per_circle", what)
    barrel_elems = [_elem_stmt(s, _katom, what, "KE") for s in barrel.body[1:]]
    _same(b[k + 4], "potentials = np.zeros(len(mesh_vertices))", what)
    _same(b[k + 5], "potentials[:2] = radius", what)
    if len(b) != k + 7 or not isinstance(b[k + 6], ast.Return):
        raise TablesError(f"{what}: unexpected trailing statements")
    return dict(cap=cap_elems, barrel=barrel_elems)


# ------------------------------------------------------------------ driver
def read_all(repo):
    path = Path(repo) / SRC
    tree = ast.parse(path.read_text())
    fns = _funcs(tree)
    need = ["make_triangular_icosphere", "make_tetrahedral_sphere", "make_tetrahedral_ellipsoid",
            "make_tetrahedral_cube", "make_tetrahedral_box", "_split_to_tetrahedra",
            "make_tetrahedral_cylinder", "_calc_long_cylinder_volume_mesh_with_ma",
            "_calc_medium_cylinder_volume_mesh_with_ma", "_calc_short_cylinder_volume_mesh_with_ma",
            "_split_triangular_prism_to_tetrahedra", "_split_pyramid_to_tetrahedra", "make_tetrahedral_capsule"]
    missing = [n for n in need if n not in fns]
    if missing:
        raise TablesError(f"{path}: functions not found: {missing}")
    t = {}
    t["ico"] = _read_icosphere(fns["make_triangular_icosphere"])
    _read_center_fan(fns["make_tetrahedral_sphere"], "make_tetrahedral_sphere", "radius")
    _read_center_fan(fns["make_tetrahedral_ellipsoid"], "make_tetrahedral_ellipsoid", "min(radii)")
    t["cube"] = _read_cube(fns["make_tetrahedral_cube"])
    t["box"] = _read_box(fns["make_tetrahedral_box"])
    t["hex"] = _read_split(fns["_split_to_tetrahedra"], 8, True)
    t["prism"] = _read_split(fns["_split_triangular_prism_to_tetrahedra"], 6, False)
    t["pyramid"] = _read_split(fns["_split_pyramid_to_tetrahedra"], 5, False)
    t["cyl"] = _read_cylinder(fns["make_tetrahedral_cylinder"])
    t["cyl_long"] = _read_cyl_class(fns["_calc_long_cylinder_volume_mesh_with_ma"])
    t["cyl_medium"] = _read_cyl_class(fns["_calc_medium_cylinder_volume_mesh_with_ma"])
    t["cyl_short"] = _read_cyl_class(fns["_calc_short_cylinder_volume_mesh_with_ma"])
    t["capsule"] = _read_capsule(fns["make_tetrahedral_capsule"])
    return t


def _lst(items, per_line=4, indent="    "):
    items = list(items)
    if not items:
        return "[]"
    lines = []
    for i in range(0, len(items), per_line):
        lines.append(indent + "; ".join(items[i:i + per_line]))
    return "[\n" + ";\n".join(lines) + " ]"


def _rule(r):
    seq = "; ".join(str(x) for x in r["seq"])
    return f"SplitRule {r['first']} [{seq}] {r['fix1']} {r['fix2']} {'true' if r['filt'] else 'false'}"


def render(t):
    p = ["(* GENERATED by harness/tables_c17.py from",
         "   /repo/distance3d/hydroelastic_contact/_tetra_mesh_creation.py on every run. Do not edit. *)",
         "From Coq Require Import ZArith QArith List.", "From D3 Require Import Model.TetSym.",
         "Import ListNotations.", "Local Close Scope Q_scope.", "", "Module TetTables.", ""]
    ico = t["ico"]
    p.append("Definition ico_verts : list (icoord * icoord * icoord) :=")
    p.append("  " + _lst((f"({a}, {b}, {c})" for a, b, c in ico["verts"])) + ".")
    p.append("Definition ico_tris : list (Z * Z * Z) :=")
    p.append("  " + _lst((f"({a}, {b}, {c})%Z" for a, b, c in ico["tris"])) + ".")
    p.append(f"Definition ico_first_new : Z := {ico['first_new']}%Z.")
    p.append("(* a, b, c = midpoints of (v<p>, v<q>): positions in (v1, v2, v3) *)")
    p.append("Definition ico_mid_calls : list (nat * nat) := [" + "; ".join(f"({a}, {b})" for a, b in ico["mids"]) + "].")
    p.append("(* children: positions in (v1, v2, v3, a, b, c) *)")
    p.append("Definition ico_children : list (nat * nat * nat) := ["
             + "; ".join(f"({a}, {b}, {c})" for a, b, c in ico["kids"]) + "].")
    p.append("")
    cube = t["cube"]
    p.append("Definition cube_verts : list (Q * Q * Q) :=")
    p.append("  " + _lst((f"({_q(a)}, {_q(b)}, {_q(c)})" for a, b, c in cube["verts"]), 3) + ".")
    p.append("Definition cube_tets : list (nat * nat * nat * nat) :=")
    p.append("  " + _lst((f"({a}, {b}, {c}, {d})" for a, b, c, d in cube["tets"])) + ".")
    p.append("Definition cube_pots : list cpot := [" + "; ".join(cube["pots"]) + "].")
    p.append("")
    box = t["box"]
    p.append("(* relative_tolerance literal = m / 2^k *)")
    p.append(f"Definition box_tol_m : Z := {box['tol'][0]}%Z.")
    p.append(f"Definition box_tol_k : nat := {box['tol'][1]}.")
    p.append(f"Definition box_n_corner : nat := {box['n_corner']}.")
    p.append("Definition box_faces : list (list bgrid) :=")
    p.append("  " + _lst(("[" + "; ".join(f"{k} {i} {j} {l}" for k, (i, j, l) in row) + "]" for row in box["faces"]), 1) + ".")
    p.append("")
    p.append(f"Definition hex_rule : split_rule := {_rule(t['hex'])}.")
    p.append(f"Definition prism_rule : split_rule := {_rule(t['prism'])}.")
    p.append(f"Definition pyramid_rule : split_rule := {_rule(t['pyramid'])}.")
    p.append("")
    p.append(f"Definition cyl_tol_m : Z := {t['cyl']['tol'][0]}%Z.")
    p.append(f"Definition cyl_tol_k : nat := {t['cyl']['tol'][1]}.")
    for nm in ("cyl_long", "cyl_medium", "cyl_short"):
        p.append(f"Definition {nm} : list celem :=")
        p.append("  " + _lst(t[nm], 1) + ".")
    p.append("")
    p.append("Definition capsule_cap : list kelem :=")
    p.append("  " + _lst(t["capsule"]["cap"], 1) + ".")
    p.append("Definition capsule_barrel : list kelem :=")
    p.append("  " + _lst(t["capsule"]["barrel"], 1) + ".")
    p.append("")
    p.append("End TetTables.")
    return "\n".join(p) + "\n"


def generate(repo, out):
    """Write Gen/TetTables.v if its content changed.  Returns (changed, tables)."""
    t = read_all(repo)
    txt = render(t)
    out = Path(out)
    if out.exists() and out.read_text() == txt:
        return False, t
    out.parent.mkdir(parents=True, exist_ok=True)
    out.write_text(txt)
    return True, t


if __name__ == "__main__":
    import sys
    sys.path.insert(0, str(Path(__file__).resolve().parent.parent))
    from harness.common import REPO, COQ
    ch, _ = generate(REPO, COQ / "theories" / "Gen" / "TetTables.v")
    print("changed" if ch else "unchanged")
