"""Fail-closed reader of the literal tables and table-like code of
/repo/distance3d/hydroelastic_contact/_tetra_mesh_creation.py
-> coq/theories/Gen/TetTables.v   (property C17).

What is extracted (every run, from the current source):
  * icosahedron: the 12 vertex rows (entries 0, +-1, +-f with f = (1 + 5 ** 0.5) / 2),
    the 20 triangles, the first free vertex id, the three midpoint calls and the four
    child-triangle patterns of the subdivision loop, and the shape of the cache key
    (Cantor pairing) expression;
  * cube: vertex table, tetrahedron table, potential list;
  * box: the six [_split_to_tetrahedra] calls (arguments m[i,j,k] / v[i,j,k]), the index
    from which potentials are the medial value, the relative tolerance literal;
  * the three splitting helpers (first / sequence / fixed vertices / distinctness filter);
  * cylinder: tolerance literal and the per-sector loop bodies of the long / medium / short
    classes; capsule: the cap-loop and barrel-loop bodies.
Everything else is PINNED: every function of the module (and the CylinderClass enum) is
compared as a whole with the text REFERENCE below, which is the code Model/TetMesh.v
transliterates (normalised: no docstrings / comments / blank lines; the tables listed above
are replaced by the placeholder `__TABLE__`).  So the icosphere prologue (array size, zero
initialisation), the sphere / ellipsoid wrappers, the box corner / medial loop nests, the
cylinder class dispatch and the order in which vertices are appended (hence the `2 + 2n`
vertex ids of the model), the capsule vertex loops, function signatures, defaults and
decorators cannot change unnoticed.  The module may contain only the three imports, the 13
modelled functions and the enum, each bound once.

Any unexpected shape raises TablesError - also when the reader itself trips over the source
(IndexError, ...): the check then reports ALL obligations as broken, does not count the
theorems, marks the model runs as runs of a stale model and searches for a failing input.
The file is only rewritten when its content changes.

Limits: the pin is syntactic (ast equality after the normalisation above), so a harmless
refactoring is refused too; it does not look outside this file (numpy / math themselves,
RigidBody.make_* in _rigid_body.py, _mesh_processing.py are tied by the bit-exact model run
only); the reference is the code at the time Model/TetMesh.v was audited against it.
"""
import ast
from pathlib import Path

from .tables import TablesError
from . import tables_pin as tp

SRC = Path("distance3d") / "hydroelastic_contact" / "_tetra_mesh_creation.py"


# ------------------------------------------------------------------ helpers
def _dump(n):
    s = ast.dump(n, annotate_fields=True, include_attributes=False)
    # the same expression as assignment target / value differs only in ctx
    return s.replace(", ctx=Store()", "").replace(", ctx=Load()", "").replace(", ctx=Del()", "")


def _expr(src):
    return ast.parse(src, mode="eval").body


def _stmt(src):
    return ast.parse(src).body[0]


def _same(node, src, what):
    ref = _expr(src) if isinstance(node, ast.expr) else _stmt(src)
    if _dump(node) != _dump(ref):
        raise TablesError(f"{what}: expected `{src}`, found `{ast.unparse(node)}`")


def _funcs(tree):
    out = {}
    for n in tree.body:
        if isinstance(n, ast.FunctionDef):
            if n.name in out:
                raise TablesError(f"function {n.name} defined twice")
            out[n.name] = n
    return out


def _body(fn):
    """Statements of a function without the docstring."""
    b = list(fn.body)
    if b and isinstance(b[0], ast.Expr) and isinstance(b[0].value, ast.Constant) and isinstance(b[0].value.value, str):
        b = b[1:]
    return b


def _assign_to(stmts, name, what, unique=True):
    hits = [s for s in stmts if isinstance(s, ast.Assign) and len(s.targets) == 1
            and isinstance(s.targets[0], ast.Name) and s.targets[0].id == name]
    if not hits or (unique and len(hits) != 1):
        raise TablesError(f"{what}: expected exactly one assignment to `{name}`, found {len(hits)}")
    return hits[0]


def _assigned_names(stmts):
    """Every name that is (re)bound or mutated anywhere in stmts (deep)."""
    names = []
    for s in stmts:
        for n in ast.walk(s):
            if isinstance(n, (ast.Assign, ast.AugAssign, ast.AnnAssign)):
                tg = n.targets if isinstance(n, ast.Assign) else [n.target]
                for t in tg:
                    for m in ast.walk(t):
                        if isinstance(m, ast.Name):
                            names.append(m.id)
    return names


def _num(node, what):
    if isinstance(node, ast.UnaryOp) and isinstance(node.op, ast.USub):
        return -_num(node.operand, what)
    if isinstance(node, ast.Constant) and isinstance(node.value, (int, float)) and not isinstance(node.value, bool):
        return node.value
    raise TablesError(f"{what}: expected a numeric literal, found `{ast.unparse(node)}`")


def _np_array_call(node, what, dtype=None):
    """np.array(<list>[, dtype=<name>]) -> the list node."""
    if not (isinstance(node, ast.Call) and _dump(node.func) == _dump(_expr("np.array")) and len(node.args) == 1):
        raise TablesError(f"{what}: expected np.array([...]), found `{ast.unparse(node)}`")
    kws = {k.arg: k.value for k in node.keywords}
    if dtype is None:
        if kws:
            raise TablesError(f"{what}: unexpected keywords {list(kws)}")
    else:
        if list(kws) != ["dtype"] or not (isinstance(kws["dtype"], ast.Name) and kws["dtype"].id == dtype):
            raise TablesError(f"{what}: expected dtype={dtype}")
    if not isinstance(node.args[0], ast.List):
        raise TablesError(f"{what}: expected a list literal")
    return node.args[0]


def _rows(lst, width, what):
    rows = []
    for r in lst.elts:
        if not isinstance(r, ast.List) or len(r.elts) != width:
            raise TablesError(f"{what}: expected rows of {width} entries, found `{ast.unparse(r)}`")
        rows.append(r.elts)
    return rows


def _nat(x, what):
    if not isinstance(x, int) or isinstance(x, bool) or x < 0:
        raise TablesError(f"{what}: expected a non-negative int literal, got {x!r}")
    return x


def _q(x):
    """exact rational of a float / int literal as a Coq Q literal"""
    n, d = (x, 1) if isinstance(x, int) else float(x).as_integer_ratio()
    return f"({n} # {d})%Q" if n >= 0 else f"(({n}) # {d})%Q"


def _dyadic(x, what):
    """float literal -> (m, k) with x = m / 2^k, m odd-or-any, k >= 0"""
    n, d = float(x).as_integer_ratio()
    k = d.bit_length() - 1
    if d != 1 << k or n <= 0 or n >= 1 << 53:
        raise TablesError(f"{what}: literal {x!r} is not a positive binary64 dyadic")
    return n, k


# ------------------------------------------------------------------ icosphere
def _read_icosphere(fn, holes):
    what = "make_triangular_icosphere"
    b = _body(fn)
    _same(_assign_to(b, "f", what), "f = (1 + 5 ** 0.5) / 2", what)
    # vertices[:12] = np.array([...])
    vt = [s for s in b if isinstance(s, ast.Assign) and len(s.targets) == 1
          and isinstance(s.targets[0], ast.Subscript) and _dump(s.targets[0].value) == _dump(_expr("vertices"))]
    if len(vt) != 1:
        raise TablesError(f"{what}: expected one slice assignment to vertices, found {len(vt)}")
    _same(vt[0].targets[0], "vertices[:12]", what)
    sym = {"0": "IC0", "1": "IC1", "-1": "ICm1", "f": "ICf", "-f": "ICmf"}
    verts = []
    vlist = _np_array_call(vt[0].value, what + " vertex table")
    holes.append(vlist)
    for r in _rows(vlist, 3, what + " vertex table"):
        row = []
        for e in r:
            s = ast.unparse(e).replace(" ", "")
            if s not in sym or not isinstance(e, (ast.Constant, ast.Name, ast.UnaryOp)):
                raise TablesError(f"{what}: unexpected vertex entry `{s}`")
            row.append(sym[s])
        verts.append(row)
    if len(verts) != 12:
        raise TablesError(f"{what}: expected 12 vertex rows, found {len(verts)}")
    tri_assign = [s for s in b if isinstance(s, ast.Assign) and len(s.targets) == 1
                  and isinstance(s.targets[0], ast.Name) and s.targets[0].id == "triangles"]
    if len(tri_assign) != 1:
        raise TablesError(f"{what}: expected one top-level assignment to triangles")
    tlist = _np_array_call(tri_assign[0].value, what + " triangle table", dtype="int")
    holes.append(tlist)
    tris = [[_nat(_num(e, what), what + " triangle table") for e in r]
            for r in _rows(tlist, 3, what + " triangle table")]
    vfirst = _assign_to(b, "v", what)
    holes.append(vfirst.value)
    first_new = _nat(_num(vfirst.value, what), what + " v")
    if first_new != len(verts):
        raise TablesError(f"{what}: v = {first_new} but {len(verts)} base vertices")
    _same(_assign_to(b, "mid_cache", what), "mid_cache = dict()", what)
    # the cache helper: compared as a whole with the code the Coq model transliterates
    helpers = [s for s in b if isinstance(s, ast.FunctionDef)]
    if len(helpers) != 1 or helpers[0].name != "add_mid_point":
        raise TablesError(f"{what}: expected the single local helper add_mid_point")
    ref = _stmt(
        "def add_mid_point(a, b, mid_cache, v):\n"
        "    key = math.floor((a + b) * (a + b + 1) / 2) + min(a, b)\n"
        "    i = mid_cache.get(key, None)\n"
        "    if i is not None:\n"
        "        del mid_cache[key]\n"
        "        return i, v\n"
        "    mid_cache[key] = v\n"
        "    vertices[v] = 0.5 * (vertices[a] + vertices[b])\n"
        "    i = v\n"
        "    v += 1\n"
        "    return i, v\n")
    if _dump(helpers[0]) != _dump(ref):
        raise TablesError(f"{what}: add_mid_point differs from the modelled code:\n{ast.unparse(helpers[0])}")
    _same(_assign_to(b, "triangles_prev", what), "triangles_prev = triangles", what)
    loops = [s for s in b if isinstance(s, ast.For)]
    if len(loops) != 1:
        raise TablesError(f"{what}: expected one top-level for loop")
    outer = loops[0]
    _same(outer.iter, "range(order)", what)
    if len(outer.body) != 3 or outer.orelse:
        raise TablesError(f"{what}: subdivision loop has an unexpected body")
    _same(outer.body[0],
          "triangles = np.empty((4 * triangles.shape[0], triangles.shape[1]), dtype=int)", what)
    _same(outer.body[2], "triangles_prev = triangles", what)
    inner = outer.body[1]
    if not isinstance(inner, ast.For) or inner.orelse:
        raise TablesError(f"{what}: expected the inner triangle loop")
    _same(inner.target, "(k, triangle)", what)
    _same(inner.iter, "enumerate(triangles_prev)", what)
    ib = inner.body
    if len(ib) != 9:
        raise TablesError(f"{what}: inner loop has {len(ib)} statements, expected 9")
    _same(ib[0], "v1, v2, v3 = triangle", what)
    pos = {"v1": 0, "v2": 1, "v3": 2, "a": 3, "b": 4, "c": 5}
    mids = []
    for s, nm in zip(ib[1:4], ["a", "b", "c"]):
        if not (isinstance(s, ast.Assign) and len(s.targets) == 1 and _dump(s.targets[0]) == _dump(_expr(f"({nm}, v)"))
                and isinstance(s.value, ast.Call) and _dump(s.value.func) == _dump(_expr("add_mid_point"))
                and len(s.value.args) == 4 and not s.value.keywords
                and _dump(s.value.args[2]) == _dump(_expr("mid_cache")) and _dump(s.value.args[3]) == _dump(_expr("v"))
                and all(isinstance(x, ast.Name) and x.id in ("v1", "v2", "v3") for x in s.value.args[:2])):
            raise TablesError(f"{what}: unexpected midpoint statement `{ast.unparse(s)}`")
        mids.append((pos[s.value.args[0].id], pos[s.value.args[1].id]))
        holes += s.value.args[:2]
    _same(ib[4], "t = k * 4", what)
    kids = []
    for off, s in enumerate(ib[5:9]):
        tgt = "triangles[t]" if off == 0 else f"triangles[t + {off}]"
        if not (isinstance(s, ast.Assign) and len(s.targets) == 1 and _dump(s.targets[0]) == _dump(_expr(tgt))
                and isinstance(s.value, ast.Tuple) and len(s.value.elts) == 3
                and all(isinstance(x, ast.Name) and x.id in pos for x in s.value.elts)):
            raise TablesError(f"{what}: unexpected child triangle statement `{ast.unparse(s)}`")
        kids.append(tuple(pos[x.id] for x in s.value.elts))
        holes.append(s.value)
    # after the loops: normalisation and shift only
    tail = b[b.index(outer) + 1:]
    if len(tail) != 3:
        raise TablesError(f"{what}: unexpected statements after the subdivision loop")
    _same(tail[0], "vertices /= 1.0 / radius * np.linalg.norm(vertices, axis=1)[:, np.newaxis]", what)
    _same(tail[1], "vertices += center[np.newaxis]", what)
    _same(tail[2], "return vertices, triangles", what)
    return dict(verts=verts, tris=tris, first_new=first_new, mids=mids, kids=kids)


def _read_center_fan(fn, holes, what, radius_expr):
    """make_tetrahedral_sphere / _ellipsoid: tetrahedra = hstack(triangles, centre id)."""
    b = _body(fn)
    _same(_assign_to(b, "center_idx", what), "center_idx = len(vertices)", what)
    _same(_assign_to(b, "tetrahedra", what),
          "tetrahedra = np.hstack((triangles, center_idx * np.ones((len(triangles), 1), dtype=int)))", what)
    _same(_assign_to(b, "potentials", what), "potentials = np.zeros(len(vertices))", what)
    last = [s for s in b if isinstance(s, ast.Assign) and _dump(s.targets[0]) == _dump(_expr("potentials[-1]"))]
    if len(last) != 1:
        raise TablesError(f"{what}: expected potentials[-1] = ...")
    _same(last[0].value, radius_expr, what)
    _same(b[-1], "return vertices, tetrahedra, potentials", what)


# ------------------------------------------------------------------ cube
def _read_cube(fn, holes):
    what = "make_tetrahedral_cube"
    b = _body(fn)
    if len(b) != 4:
        raise TablesError(f"{what}: expected 3 assignments and a return, found {len(b)} statements")
    va = b[0]
    if not (isinstance(va, ast.Assign) and _dump(va.targets[0]) == _dump(_expr("vertices"))
            and isinstance(va.value, ast.BinOp) and isinstance(va.value.op, ast.Mult)
            and _dump(va.value.left) == _dump(_expr("size"))):
        raise TablesError(f"{what}: expected vertices = size * np.array([...])")
    vlist = _np_array_call(va.value.right, what)
    holes.append(vlist)
    verts = [[_num(e, what) for e in r] for r in _rows(vlist, 3, what)]
    ta = b[1]
    if not (isinstance(ta, ast.Assign) and _dump(ta.targets[0]) == _dump(_expr("tetrahedra"))):
        raise TablesError(f"{what}: expected tetrahedra = np.array([...], dtype=int)")
    tlist = _np_array_call(ta.value, what, dtype="int")
    holes.append(tlist)
    tets = [[_nat(_num(e, what), what) for e in r] for r in _rows(tlist, 4, what)]
    pa = b[2]
    if not (isinstance(pa, ast.Assign) and _dump(pa.targets[0]) == _dump(_expr("potentials"))):
        raise TablesError(f"{what}: expected potentials = np.array([...], dtype=float)")
    pots = []
    plist = _np_array_call(pa.value, what, dtype="float")
    holes.append(plist)
    for e in plist.elts:
        if _dump(e) == _dump(_expr("size / 2.0")):
            pots.append("CPhalfsize")
        elif isinstance(e, ast.Constant) and isinstance(e.value, float) and e.value == 0.0:
            pots.append("CPzero")
        else:
            raise TablesError(f"{what}: unexpected potential entry `{ast.unparse(e)}`")
    _same(b[3], "return vertices, tetrahedra, potentials", what)
    if len(pots) != len(verts):
        raise TablesError(f"{what}: {len(verts)} vertices but {len(pots)} potentials")
    return dict(verts=verts, tets=tets, pots=pots)


# ------------------------------------------------------------------ splitting helpers
def _read_split(fn, holes, nargs, with_filter):
    what = fn.name
    args = [a.arg for a in fn.args.args]
    if args != [f"v{i}" for i in range(nargs)] or fn.args.vararg or fn.args.kwarg or fn.args.kwonlyargs or fn.args.defaults:
        raise TablesError(f"{what}: expected parameters v0..v{nargs - 1}")
    b = _body(fn)
    if len(b) != 4:
        raise TablesError(f"{what}: unexpected body")
    _same(b[0], "elements = []", what)
    if not (isinstance(b[1], ast.Assign) and _dump(b[1].targets[0]) == _dump(_expr("previous"))
            and isinstance(b[1].value, ast.Name) and b[1].value.id in args):
        raise TablesError(f"{what}: expected previous = v<k>")
    first = args.index(b[1].value.id)
    loop = b[2]
    if not (isinstance(loop, ast.For) and not loop.orelse and _dump(loop.target) == _dump(_expr("next"))
            and isinstance(loop.iter, ast.List) and all(isinstance(e, ast.Name) and e.id in args for e in loop.iter.elts)):
        raise TablesError(f"{what}: expected for next in [v.., ...]")
    seq = [args.index(e.id) for e in loop.iter.elts]
    lb = loop.body
    if len(lb) != 2:
        raise TablesError(f"{what}: unexpected loop body")
    _same(lb[1], "previous = next", what)
    app = lb[0]
    if with_filter:
        if not (isinstance(app, ast.If) and not app.orelse and len(app.body) == 1):
            raise TablesError(f"{what}: expected the 4-distinct guard")
        guard, app = app.test, app.body[0]
    if not (isinstance(app, ast.Expr) and isinstance(app.value, ast.Call)
            and _dump(app.value.func) == _dump(_expr("elements.append")) and len(app.value.args) == 1
            and isinstance(app.value.args[0], ast.List) and len(app.value.args[0].elts) == 4):
        raise TablesError(f"{what}: expected elements.append([previous, next, vA, vB])")
    e = app.value.args[0].elts
    if not (_dump(e[0]) == _dump(_expr("previous")) and _dump(e[1]) == _dump(_expr("next"))
            and isinstance(e[2], ast.Name) and e[2].id in args and isinstance(e[3], ast.Name) and e[3].id in args):
        raise TablesError(f"{what}: expected elements.append([previous, next, vA, vB])")
    f1, f2 = args.index(e[2].id), args.index(e[3].id)
    if with_filter:
        _same(guard, f"len({{previous, next, v{f1}, v{f2}}}) == 4", what)
        holes += guard.left.args[0].elts[2:4]
    _same(b[3], "return elements", what)
    holes += [b[1].value, loop.iter, e[2], e[3]]
    return dict(first=first, seq=seq, fix1=f1, fix2=f2, filt=with_filter)


# ------------------------------------------------------------------ box
def _read_box(fn, holes):
    what = "make_tetrahedral_box"
    b = _body(fn)
    tol = _assign_to(b, "relative_tolerance", what)
    if not (isinstance(tol.value, ast.BinOp) and isinstance(tol.value.op, ast.Mult)
            and _dump(tol.value.right) == _dump(_expr("max(1.0, min_half_size)"))):
        raise TablesError(f"{what}: expected relative_tolerance = <literal> * max(1.0, min_half_size)")
    tol_lit = _dyadic(_num(tol.value.left, what), what)
    holes.append(tol.value.left)
    _same(_assign_to(b, "half_size", what), "half_size = 0.5 * size", what)
    _same(_assign_to(b, "min_half_size", what), "min_half_size = min(half_size)", what)
    _same(_assign_to(b, "half_central", what), "half_central = half_size - min_half_size", what)
    thr = [s for s in b if isinstance(s, ast.Assign) and isinstance(s.targets[0], ast.Subscript)
           and _dump(s.targets[0].value) == _dump(_expr("half_central"))]
    if len(thr) != 1:
        raise TablesError(f"{what}: expected the thresholding statement")
    _same(thr[0], "half_central[half_central <= relative_tolerance] = 0.0", what)
    faces = []
    first_ext = None
    for idx, s in enumerate(b):
        if isinstance(s, ast.Expr) and isinstance(s.value, ast.Call) and _dump(s.value.func) == _dump(_expr("mesh_elements.extend")):
            c = s.value.args[0] if len(s.value.args) == 1 else None
            if not (isinstance(c, ast.Call) and _dump(c.func) == _dump(_expr("_split_to_tetrahedra"))
                    and len(c.args) == 8 and not c.keywords):
                raise TablesError(f"{what}: unexpected extend call `{ast.unparse(s)}`")
            row = []
            for a in c.args:
                if not (isinstance(a, ast.Subscript) and isinstance(a.value, ast.Name) and a.value.id in ("m", "v")
                        and isinstance(a.slice, ast.Tuple) and len(a.slice.elts) == 3):
                    raise TablesError(f"{what}: unexpected argument `{ast.unparse(a)}`")
                ijk = [_num(e, what) for e in a.slice.elts]
                if any(x not in (0, 1) for x in ijk):
                    raise TablesError(f"{what}: grid index out of range in `{ast.unparse(a)}`")
                row.append(("BM" if a.value.id == "m" else "BV", ijk))
            faces.append(row)
            holes += c.args
            if first_ext is None:
                first_ext = idx
    if len(faces) != 6:
        raise TablesError(f"{what}: expected 6 _split_to_tetrahedra calls, found {len(faces)}")
    # nothing but the six calls between `mesh_elements = []` and the conversion to an int array
    seg = b[first_ext - 1:first_ext + 7]
    _same(seg[0], "mesh_elements = []", what)
    _same(seg[7], "mesh_elements = np.array(mesh_elements, dtype=int)", what)
    _same(b[first_ext + 7], "potentials = np.zeros(len(mesh_vertices))", what)
    pm = b[first_ext + 8]
    if not (isinstance(pm, ast.Assign) and isinstance(pm.targets[0], ast.Subscript)
            and _dump(pm.targets[0].value) == _dump(_expr("potentials"))
            and isinstance(pm.targets[0].slice, ast.Slice) and pm.targets[0].slice.upper is None
            and pm.targets[0].slice.step is None and _dump(pm.value) == _dump(_expr("min_half_size"))):
        raise TablesError(f"{what}: expected potentials[<k>:] = min_half_size")
    n_corner = _nat(_num(pm.targets[0].slice.lower, what), what)
    holes.append(pm.targets[0].slice.lower)
    _same(b[first_ext + 9], "return mesh_vertices, mesh_elements, potentials", what)
    if len(b) != first_ext + 10:
        raise TablesError(f"{what}: unexpected trailing statements")
    return dict(tol=tol_lit, faces=faces, n_corner=n_corner)


# ------------------------------------------------------------------ cylinder
_CATOMS = {
    "bottom_center": "CA_bottom_center", "top_center": "CA_top_center", "center": "CA_center",
    "medial": "CA_medial", "medial[0]": "CA_medial0", "medial[1]": "CA_medial1",
    "bottom[i]": "CA_bottom_i", "bottom[j]": "CA_bottom_j", "top[i]": "CA_top_i", "top[j]": "CA_top_j",
    "medial[i]": "CA_medial_i", "medial[j]": "CA_medial_j",
}


def _catom(node, what):
    s = ast.unparse(node).replace(" ", "")
    ok = isinstance(node, ast.Name) or (isinstance(node, ast.Subscript) and isinstance(node.value, ast.Name)
                                        and isinstance(node.slice, (ast.Name, ast.Constant)))
    if not ok or s not in _CATOMS:
        raise TablesError(f"{what}: unexpected vertex expression `{s}`")
    return _CATOMS[s]


def _elem_stmt(s, atom, what, prefix):
    """mesh_elements.append([a,b,c,d]) | mesh_elements.extend(_split_*(...)) -> coq term"""
    if not (isinstance(s, ast.Expr) and isinstance(s.value, ast.Call) and len(s.value.args) == 1 and not s.value.keywords):
        raise TablesError(f"{what}: unexpected statement `{ast.unparse(s)}`")
    fn, arg = s.value.func, s.value.args[0]
    if _dump(fn) == _dump(_expr("mesh_elements.append")):
        if not (isinstance(arg, ast.List) and len(arg.elts) == 4):
            raise TablesError(f"{what}: append of a non-4-list `{ast.unparse(s)}`")
        return f"{prefix}_tet " + " ".join(atom(e, what) for e in arg.elts)
    if _dump(fn) == _dump(_expr("mesh_elements.extend")) and isinstance(arg, ast.Call) and not arg.keywords:
        if _dump(arg.func) == _dump(_expr("_split_triangular_prism_to_tetrahedra")) and len(arg.args) == 6:
            return f"{prefix}_prism " + " ".join(atom(e, what) for e in arg.args)
        if _dump(arg.func) == _dump(_expr("_split_pyramid_to_tetrahedra")) and len(arg.args) == 5:
            return f"{prefix}_pyramid " + " ".join(atom(e, what) for e in arg.args)
    raise TablesError(f"{what}: unexpected statement `{ast.unparse(s)}`")


def _read_cyl_class(fn, holes):
    what = fn.name
    b = _body(fn)
    loops = [s for s in b if isinstance(s, ast.For)]
    sector = [l for l in loops if _dump(l.target) == _dump(_expr("j"))]
    if len(sector) != 1:
        raise TablesError(f"{what}: expected one sector loop over j")
    loop = sector[0]
    k = b.index(loop)
    _same(loop.iter, "range(n_vertices_per_circle)", what)
    _same(b[k - 1], "i = n_vertices_per_circle - 1", what)
    _same(b[k - 2], "mesh_elements = []", what)
    _same(b[k + 1], "return mesh_elements", what)
    if len(b) != k + 2 or loop.orelse:
        raise TablesError(f"{what}: unexpected statements after the sector loop")
    _same(loop.body[-1], "i = j", what)
    elems = [_elem_stmt(s, _catom, what, "CE") for s in loop.body[:-1]]
    holes += loop.body[:-1]
    # the statements before the loop must not touch mesh_elements / i / j
    bad = set(_assigned_names(b[:k - 2])) & {"mesh_elements", "j", "n_vertices_per_circle", "bottom", "top",
                                              "bottom_center", "top_center"}
    if bad:
        raise TablesError(f"{what}: prologue rebinds {sorted(bad)}")
    return elems


def _read_cylinder(fn, holes):
    what = "make_tetrahedral_cylinder"
    b = _body(fn)
    tol = _assign_to(b, "tolerance", what)
    if not (isinstance(tol.value, ast.BinOp) and isinstance(tol.value.op, ast.Mult)
            and _dump(tol.value.right) == _dump(_expr("max(1.0, min(top_z, radius))"))):
        raise TablesError(f"{what}: expected tolerance = <literal> * max(1.0, min(top_z, radius))")
    lit = _dyadic(_num(tol.value.left, what), what)
    holes.append(tol.value.left)
    _same(_assign_to(b, "top_z", what), "top_z = 0.5 * length", what)
    _same(_assign_to(b, "bottom_z", what), "bottom_z = -top_z", what)
    _same(_assign_to(b, "n_vertices_per_circle", what),
          "n_vertices_per_circle = max(3, math.ceil(2.0 * np.pi * radius / resolution_hint))", what)
    return dict(tol=lit)


# ------------------------------------------------------------------ capsule
def _katom(node, what):
    s = ast.unparse(node).replace(" ", "")
    names = {"medial_top": "KA_medial_top", "medial_bottom": "KA_medial_bottom", "top": "KA_top", "bottom": "KA_bottom"}
    if isinstance(node, ast.Name) and s in names:
        return names[s]
    if isinstance(node, ast.Subscript) and isinstance(node.value, ast.Name) and node.value.id in ("top_cap", "bottom_cap"):
        t = "true" if node.value.id == "top_cap" else "false"
        idx = ast.unparse(node.slice).replace(" ", "")
        n = "n_vertices_per_circle"
        table = {
            f"(i+1)*{n}+j": f"(KCap {t} 1 0)", f"(i+1)*{n}+j1": f"(KCap {t} 1 1)",
            f"i*{n}+j": f"(KCap {t} 0 0)", f"i*{n}+j1": f"(KCap {t} 0 1)",
            "last_circle_offset+j": f"(KLast {t} 0)", "last_circle_offset+j1": f"(KLast {t} 1)",
            "j": f"(KRing {t} 0)", "j1": f"(KRing {t} 1)",
        }
        if idx in table:
            return table[idx]
    raise TablesError(f"{what}: unexpected vertex expression `{s}`")


def _read_capsule(fn, holes):
    what = "make_tetrahedral_capsule"
    b = _body(fn)
    _same(_assign_to(b, "n_vertices_per_circle", what),
          "n_vertices_per_circle = int(np.clip(2.0 * np.pi * radius / resolution_hint, 3.0, 706.0))", what)
    _same(_assign_to(b, "n_circles_per_cap", what), "n_circles_per_cap = n_vertices_per_circle // 2", what)
    _same(_assign_to(b, "last_circle_offset", what),
          "last_circle_offset = (n_circles_per_cap - 1) * n_vertices_per_circle", what)
    k = b.index(_assign_to(b, "mesh_elements", what))
    caps, barrel = b[k + 1], b[k + 3]
    if _dump(b[k + 2]) != _dump(_stmt("last_circle_offset = (n_circles_per_cap - 1) * n_vertices_per_circle")):
        raise TablesError(f"{what}: unexpected statement between the element loops")
    if not (isinstance(caps, ast.For) and _dump(caps.target) == _dump(_expr("i")) and not caps.orelse
            and len(caps.body) == 1 and isinstance(caps.body[0], ast.For)):
        raise TablesError(f"{what}: expected the cap loops")
    _same(caps.iter, "range(n_circles_per_cap - 1)", what)
    inner = caps.body[0]
    _same(inner.target, "j", what)
    _same(inner.iter, "range(n_vertices_per_circle)", what)
    _same(inner.body[0], "j1 = (j + 1) % n_vertices_per_circle", what)
    cap_elems = [_elem_stmt(s, _katom, what, "KE") for s in inner.body[1:]]
    holes += inner.body[1:]
    if not (isinstance(barrel, ast.For) and _dump(barrel.target) == _dump(_expr("j")) and not barrel.orelse):
        raise TablesError(f"{what}: expected the barrel loop")
    _same(barrel.iter, "range(n_vertices_per_circle)", what)
    _same(barrel.body[0], "j1 = (j + 1) % n_vertices_per_circle", what)
    barrel_elems = [_elem_stmt(s, _katom, what, "KE") for s in barrel.body[1:]]
    holes += barrel.body[1:]
    _same(b[k + 4], "potentials = np.zeros(len(mesh_vertices))", what)
    _same(b[k + 5], "potentials[:2] = radius", what)
    if len(b) != k + 7 or not isinstance(b[k + 6], ast.Return):
        raise TablesError(f"{what}: unexpected trailing statements")
    return dict(cap=cap_elems, barrel=barrel_elems)


# ------------------------------------------------------------------ driver
# function of the source -> (reader, extra arguments, definitions of coq/theories/Model/TetMesh.v that transliterate it)
READERS = {
    "make_triangular_icosphere": (_read_icosphere, (),
                                  "Model/TetMesh.v ico_topology / add_mid_point / sub_tri / ico_n_vertices / ico_base / "
                                  "ico_raw_vertices / ico_normalize / icosphere_vertices"),
    "make_tetrahedral_sphere": (_read_center_fan, ("make_tetrahedral_sphere", "radius"),
                                "Model/TetMesh.v sphere_mesh / ico_tets / last_pot"),
    "make_tetrahedral_ellipsoid": (_read_center_fan, ("make_tetrahedral_ellipsoid", "min(radii)"),
                                   "Model/TetMesh.v ellipsoid_mesh / ico_tets / last_pot"),
    "make_tetrahedral_cube": (_read_cube, (), "Model/TetMesh.v cube_mesh"),
    "make_tetrahedral_box": (_read_box, (),
                             "Model/TetMesh.v box_mesh / box_central / box_core / box_corner_step / box_medial_step / bgrid_id"),
    "_split_to_tetrahedra": (_read_split, (8, True), "Model/TetMesh.v split_hex (split / split_loop / distinct4)"),
    "make_tetrahedral_cylinder": (_read_cylinder, (),
                                  "Model/TetMesh.v cyl_classify / cyl_outer_verts / cyl_rim_xy / cyl_mesh_rim / catom_id"),
    "_calc_long_cylinder_volume_mesh_with_ma": (_read_cyl_class, (),
                                                "Model/TetMesh.v cyl_mesh_rim (Long arm) / catom_id / sector_pairs / cyl_elements"),
    "_calc_medium_cylinder_volume_mesh_with_ma": (_read_cyl_class, (),
                                                  "Model/TetMesh.v cyl_mesh_rim (Medium arm) / catom_id / sector_pairs / cyl_elements"),
    "_calc_short_cylinder_volume_mesh_with_ma": (_read_cyl_class, (),
                                                 "Model/TetMesh.v cyl_mesh_rim (Short arm) / catom_id / sector_pairs / cyl_elements"),
    "_split_triangular_prism_to_tetrahedra": (_read_split, (6, False), "Model/TetMesh.v split_prism (split / split_loop)"),
    "_split_pyramid_to_tetrahedra": (_read_split, (5, False), "Model/TetMesh.v split_pyramid (split / split_loop)"),
    "make_tetrahedral_capsule": (_read_capsule, (),
                                 "Model/TetMesh.v capsule_verts / katom_id / kelem_tets / capsule_elements / capsule_mesh"),
}
KEY = {"make_triangular_icosphere": "ico", "make_tetrahedral_cube": "cube", "make_tetrahedral_box": "box",
       "_split_to_tetrahedra": "hex", "_split_triangular_prism_to_tetrahedra": "prism",
       "_split_pyramid_to_tetrahedra": "pyramid", "make_tetrahedral_cylinder": "cyl",
       "_calc_long_cylinder_volume_mesh_with_ma": "cyl_long", "_calc_medium_cylinder_volume_mesh_with_ma": "cyl_medium",
       "_calc_short_cylinder_volume_mesh_with_ma": "cyl_short", "make_tetrahedral_capsule": "capsule"}
CLASSES = {"CylinderClass": "Model/TetMesh.v cyl_class (three distinct classes compared with ==)"}
IMPORTS = ["import enum", "import math", "import numpy as np"]

# The code that Model/TetMesh.v transliterates, normalised (no docstrings / comments; `__TABLE__` stands for a literal
# table or table-like statement block that is re-read as data into Gen/TetTables.v and re-proved on every run).
# Everything else in these functions is hard-coded in the model (array sizes, loop nests, class dispatch, vertex id
# arithmetic such as `2 + 2n`, the order of the appends ...): the current source must be equal to this text after the
# same normalisation, otherwise the reader refuses it.  Regenerate with
#   /venv/bin/python -m harness.tables_c17 --print-reference      (and re-audit Model/TetMesh.v against the new text!)
REFERENCE = r"""
def make_triangular_icosphere(center, radius, order=4):
    f = (1 + 5 ** 0.5) / 2
    vertices = np.zeros((10 * 4 ** order + 2, 3))
    vertices[:12] = np.array(__TABLE__)
    triangles = np.array(__TABLE__, dtype=int)
    v = __TABLE__
    mid_cache = dict()

    def add_mid_point(a, b, mid_cache, v):
        key = math.floor((a + b) * (a + b + 1) / 2) + min(a, b)
        i = mid_cache.get(key, None)
        if i is not None:
            del mid_cache[key]
            return (i, v)
        mid_cache[key] = v
        vertices[v] = 0.5 * (vertices[a] + vertices[b])
        i = v
        v += 1
        return (i, v)
    triangles_prev = triangles
    for _ in range(order):
        triangles = np.empty((4 * triangles.shape[0], triangles.shape[1]), dtype=int)
        for k, triangle in enumerate(triangles_prev):
            v1, v2, v3 = triangle
            a, v = add_mid_point(__TABLE__, __TABLE__, mid_cache, v)
            b, v = add_mid_point(__TABLE__, __TABLE__, mid_cache, v)
            c, v = add_mid_point(__TABLE__, __TABLE__, mid_cache, v)
            t = k * 4
            triangles[t] = __TABLE__
            triangles[t + 1] = __TABLE__
            triangles[t + 2] = __TABLE__
            triangles[t + 3] = __TABLE__
        triangles_prev = triangles
    vertices /= 1.0 / radius * np.linalg.norm(vertices, axis=1)[:, np.newaxis]
    vertices += center[np.newaxis]
    return (vertices, triangles)


def make_tetrahedral_sphere(radius, order=4):
    vertices, triangles = make_triangular_icosphere(np.zeros(3), radius, order)
    center_idx = len(vertices)
    vertices = np.vstack((vertices, np.zeros((1, 3))))
    tetrahedra = np.hstack((triangles, center_idx * np.ones((len(triangles), 1), dtype=int)))
    potentials = np.zeros(len(vertices))
    potentials[-1] = radius
    return (vertices, tetrahedra, potentials)


def make_tetrahedral_ellipsoid(radii, order=4):
    vertices, triangles = make_triangular_icosphere(np.zeros(3), 1.0, order)
    vertices *= radii[np.newaxis]
    center_idx = len(vertices)
    vertices = np.vstack((vertices, np.zeros((1, 3))))
    tetrahedra = np.hstack((triangles, center_idx * np.ones((len(triangles), 1), dtype=int)))
    potentials = np.zeros(len(vertices))
    potentials[-1] = min(radii)
    return (vertices, tetrahedra, potentials)


def make_tetrahedral_cube(size):
    vertices = size * np.array(__TABLE__)
    tetrahedra = np.array(__TABLE__, dtype=int)
    potentials = np.array(__TABLE__, dtype=float)
    return (vertices, tetrahedra, potentials)


def make_tetrahedral_box(size):
    mesh_vertices = []
    v = np.empty((2, 2, 2), dtype=float)
    half_size = 0.5 * size
    for i in range(2):
        x = -half_size[0] if i == 0 else half_size[0]
        for j in range(2):
            y = -half_size[1] if j == 0 else half_size[1]
            for k in range(2):
                z = -half_size[2] if k == 0 else half_size[2]
                v[i, j, k] = len(mesh_vertices)
                mesh_vertices.append([x, y, z])
    m = np.empty((2, 2, 2), dtype=float)
    min_half_size = min(half_size)
    relative_tolerance = __TABLE__ * max(1.0, min_half_size)
    half_central = half_size - min_half_size
    half_central[half_central <= relative_tolerance] = 0.0
    for i in range(2):
        x = -half_central[0] if i == 0 else half_central[0]
        for j in range(2):
            y = -half_central[1] if j == 0 else half_central[1]
            for k in range(2):
                z = -half_central[2] if k == 0 else half_central[2]
                duplicate_in_i = i == 1 and half_central[0] == 0.0
                duplicate_in_j = j == 1 and half_central[1] == 0.0
                duplicate_in_k = k == 1 and half_central[2] == 0.0
                if duplicate_in_i:
                    m[i, j, k] = m[0, j, k]
                elif duplicate_in_j:
                    m[i, j, k] = m[i, 0, k]
                elif duplicate_in_k:
                    m[i, j, k] = m[i, j, 0]
                else:
                    m[i, j, k] = len(mesh_vertices)
                if not duplicate_in_i and (not duplicate_in_j) and (not duplicate_in_k):
                    mesh_vertices.append([x, y, z])
    mesh_vertices = np.array(mesh_vertices)
    assert len(mesh_vertices) <= 12
    mesh_elements = []
    mesh_elements.extend(_split_to_tetrahedra(__TABLE__, __TABLE__, __TABLE__, __TABLE__, __TABLE__, __TABLE__, __TABLE__, __TABLE__))
    mesh_elements.extend(_split_to_tetrahedra(__TABLE__, __TABLE__, __TABLE__, __TABLE__, __TABLE__, __TABLE__, __TABLE__, __TABLE__))
    mesh_elements.extend(_split_to_tetrahedra(__TABLE__, __TABLE__, __TABLE__, __TABLE__, __TABLE__, __TABLE__, __TABLE__, __TABLE__))
    mesh_elements.extend(_split_to_tetrahedra(__TABLE__, __TABLE__, __TABLE__, __TABLE__, __TABLE__, __TABLE__, __TABLE__, __TABLE__))
    mesh_elements.extend(_split_to_tetrahedra(__TABLE__, __TABLE__, __TABLE__, __TABLE__, __TABLE__, __TABLE__, __TABLE__, __TABLE__))
    mesh_elements.extend(_split_to_tetrahedra(__TABLE__, __TABLE__, __TABLE__, __TABLE__, __TABLE__, __TABLE__, __TABLE__, __TABLE__))
    mesh_elements = np.array(mesh_elements, dtype=int)
    potentials = np.zeros(len(mesh_vertices))
    potentials[__TABLE__:] = min_half_size
    return (mesh_vertices, mesh_elements, potentials)


def _split_to_tetrahedra(v0, v1, v2, v3, v4, v5, v6, v7):
    elements = []
    previous = __TABLE__
    for next in __TABLE__:
        if len({previous, next, __TABLE__, __TABLE__}) == 4:
            elements.append([previous, next, __TABLE__, __TABLE__])
        previous = next
    return elements


def make_tetrahedral_cylinder(radius, length, resolution_hint):
    top_z = 0.5 * length
    bottom_z = -top_z
    tolerance = __TABLE__ * max(1.0, min(top_z, radius))
    cylinder_class = CylinderClass.Medium
    if top_z - radius > tolerance:
        cylinder_class = CylinderClass.Long
    elif radius - top_z > tolerance:
        cylinder_class = CylinderClass.Short
    n_vertices_per_circle = max(3, math.ceil(2.0 * np.pi * radius / resolution_hint))
    mesh_vertices = []
    bottom_center = len(mesh_vertices)
    mesh_vertices.append(np.array([0.0, 0.0, bottom_z]))
    top_center = len(mesh_vertices)
    mesh_vertices.append(np.array([0.0, 0.0, top_z]))
    bottom = []
    top = []
    angle_step = 2.0 * np.pi / n_vertices_per_circle
    for i in range(n_vertices_per_circle):
        x = radius * np.cos(angle_step * i)
        y = radius * np.sin(angle_step * i)
        bottom.append(len(mesh_vertices))
        mesh_vertices.append(np.array([x, y, bottom_z]))
        top.append(len(mesh_vertices))
        mesh_vertices.append(np.array([x, y, top_z]))
    n_outer_vertices = len(mesh_vertices)
    potentials = [0.0] * n_outer_vertices
    if cylinder_class == CylinderClass.Long:
        mesh_elements = _calc_long_cylinder_volume_mesh_with_ma(radius, length, n_vertices_per_circle, bottom_center, bottom, top_center, top, mesh_vertices, potentials)
    elif cylinder_class == CylinderClass.Medium:
        mesh_elements = _calc_medium_cylinder_volume_mesh_with_ma(radius, n_vertices_per_circle, bottom_center, bottom, top_center, top, mesh_vertices, potentials)
    else:
        assert cylinder_class == CylinderClass.Short
        mesh_elements = _calc_short_cylinder_volume_mesh_with_ma(radius, length, n_vertices_per_circle, bottom_center, bottom, top_center, top, mesh_vertices, potentials)
    return (np.array(mesh_vertices), np.array(mesh_elements, dtype=int), np.array(potentials))


class CylinderClass(enum.Enum):
    Long = 0
    Medium = 1
    Short = 2


def _calc_long_cylinder_volume_mesh_with_ma(radius, length, n_vertices_per_circle, bottom_center, bottom, top_center, top, mesh_vertices, potentials):
    medial = []
    offset_distance = radius
    top_z = 0.5 * length
    offset_top_z = top_z - offset_distance
    offset_bottom_z = -offset_top_z
    medial.append(len(mesh_vertices))
    mesh_vertices.append(np.array([0.0, 0.0, offset_bottom_z]))
    potentials.append(radius)
    medial.append(len(mesh_vertices))
    mesh_vertices.append(np.array([0.0, 0.0, offset_top_z]))
    potentials.append(radius)
    mesh_elements = []
    i = n_vertices_per_circle - 1
    for j in range(n_vertices_per_circle):
        __TABLE__
        i = j
    return mesh_elements


def _calc_medium_cylinder_volume_mesh_with_ma(radius, n_vertices_per_circle, bottom_center, bottom, top_center, top, mesh_vertices, potentials):
    medial = len(mesh_vertices)
    mesh_vertices.append(np.array([0.0, 0.0, 0.0]))
    potentials.append(radius)
    mesh_elements = []
    i = n_vertices_per_circle - 1
    for j in range(n_vertices_per_circle):
        __TABLE__
        i = j
    return mesh_elements


def _calc_short_cylinder_volume_mesh_with_ma(radius, length, n_vertices_per_circle, bottom_center, bottom, top_center, top, mesh_vertices, potentials):
    center = len(mesh_vertices)
    mesh_vertices.append(np.array([0.0, 0.0, 0.0]))
    half_length = 0.5 * length
    potentials.append(half_length)
    medial = []
    medial_radius = radius - half_length
    scale_cylinder_radius_to_medial_circle = medial_radius / radius
    for i in range(n_vertices_per_circle):
        x = mesh_vertices[bottom[i]][0] * scale_cylinder_radius_to_medial_circle
        y = mesh_vertices[bottom[i]][1] * scale_cylinder_radius_to_medial_circle
        medial.append(len(mesh_vertices))
        mesh_vertices.append(np.array([x, y, 0.0]))
        potentials.append(half_length)
    mesh_elements = []
    i = n_vertices_per_circle - 1
    for j in range(n_vertices_per_circle):
        __TABLE__
        i = j
    return mesh_elements


def _split_triangular_prism_to_tetrahedra(v0, v1, v2, v3, v4, v5):
    elements = []
    previous = __TABLE__
    for next in __TABLE__:
        elements.append([previous, next, __TABLE__, __TABLE__])
        previous = next
    return elements


def _split_pyramid_to_tetrahedra(v0, v1, v2, v3, v4):
    elements = []
    previous = __TABLE__
    for next in __TABLE__:
        elements.append([previous, next, __TABLE__, __TABLE__])
        previous = next
    return elements


def make_tetrahedral_capsule(radius, height, resolution_hint):
    medial_top_z = 0.5 * height
    medial_bottom_z = -medial_top_z
    top_z = medial_top_z + radius
    bottom_z = -top_z
    n_vertices_per_circle = int(np.clip(2.0 * np.pi * radius / resolution_hint, 3.0, 706.0))
    n_circles_per_cap = n_vertices_per_circle // 2
    mesh_vertices = []
    medial_top = len(mesh_vertices)
    mesh_vertices.append(np.array([0.0, 0.0, medial_top_z]))
    medial_bottom = len(mesh_vertices)
    mesh_vertices.append(np.array([0.0, 0.0, medial_bottom_z]))
    top = len(mesh_vertices)
    mesh_vertices.append(np.array([0.0, 0.0, top_z]))
    bottom = len(mesh_vertices)
    mesh_vertices.append(np.array([0.0, 0.0, bottom_z]))
    top_cap = []
    bottom_cap = []
    theta_step = 0.5 * np.pi / n_circles_per_cap
    phi_step = 2.0 * np.pi / n_vertices_per_circle
    for i in range(n_circles_per_cap):
        theta = 0.5 * np.pi - i * theta_step
        s = np.sin(theta)
        top_circle_z = radius * np.cos(theta) + medial_top_z
        bottom_circle_z = -top_circle_z
        for j in range(n_vertices_per_circle):
            phi = j * phi_step
            x = radius * s * np.cos(phi)
            y = radius * s * np.sin(phi)
            top_cap.append(len(mesh_vertices))
            mesh_vertices.append(np.array([x, y, top_circle_z]))
            bottom_cap.append(len(mesh_vertices))
            mesh_vertices.append(np.array([x, y, bottom_circle_z]))
    mesh_elements = []
    for i in range(n_circles_per_cap - 1):
        for j in range(n_vertices_per_circle):
            j1 = (j + 1) % n_vertices_per_circle
            __TABLE__
    last_circle_offset = (n_circles_per_cap - 1) * n_vertices_per_circle
    for j in range(n_vertices_per_circle):
        j1 = (j + 1) % n_vertices_per_circle
        __TABLE__
    potentials = np.zeros(len(mesh_vertices))
    potentials[:2] = radius
    return (np.array(mesh_vertices), np.array(mesh_elements, dtype=int), potentials)
"""


def _holed(tree):
    """-> ({key: data}, {name: (node, holes)}) for every modelled function of the module."""
    fns = _funcs(tree)
    missing = [n for n in READERS if n not in fns]
    if missing:
        raise TablesError(f"functions not found: {missing}")
    t, nodes = {}, {}
    for name, (reader, extra, _model) in READERS.items():
        holes = []
        data = reader(fns[name], holes, *extra)
        if name in KEY:
            t[KEY[name]] = data
        nodes[name] = (fns[name], holes)
    return t, nodes


def _check_module(tree, nodes):
    """The module consists of the three imports, the modelled functions and CylinderClass - nothing else, each bound once."""
    classes = {}
    for st in tree.body:
        if isinstance(st, ast.FunctionDef):
            if st.name not in READERS:
                raise TablesError(f"unmodelled top-level function `{st.name}` (a new helper may shadow a builtin or be "
                                  f"called from code the model does not see)")
        elif isinstance(st, ast.ClassDef):
            if st.name not in CLASSES or st.name in classes:
                raise TablesError(f"unexpected top-level class `{st.name}`")
            classes[st.name] = st
        elif isinstance(st, (ast.Import, ast.ImportFrom)):
            if ast.unparse(st) not in IMPORTS:
                raise TablesError(f"unexpected import `{ast.unparse(st)}`")
        elif isinstance(st, ast.Expr) and isinstance(st.value, ast.Constant):
            continue        # module docstring / stray constant: does nothing
        else:
            raise TablesError(f"unexpected top-level statement `{ast.unparse(st)[:80]}`")
    if sorted(classes) != sorted(CLASSES):
        raise TablesError(f"classes {sorted(classes)}, expected {sorted(CLASSES)}")
    binds = tp.top_level_bindings(tree)
    for nm in list(READERS) + list(CLASSES) + ["enum", "math", "np"]:
        if binds.get(nm, 0) != 1:
            raise TablesError(f"`{nm}` is bound {binds.get(nm, 0)} times at module level, expected once")
    if "*" in binds:
        raise TablesError("star import")
    ref = tp.parse_reference(REFERENCE)
    if sorted(ref) != sorted(list(READERS) + list(CLASSES)):
        raise TablesError("reader bug: REFERENCE does not list exactly the modelled functions")
    for name, (node, holes) in nodes.items():
        tp.pin(node, ref[name], name, READERS[name][2], holes)
    for name, node in classes.items():
        tp.pin(node, ref[name], name, CLASSES[name])


@tp.closed
def read_all(repo):
    path = Path(repo) / SRC
    tree = ast.parse(path.read_text())
    t, nodes = _holed(tree)
    _check_module(tree, nodes)
    return t


def print_reference(repo):
    tree = ast.parse((Path(repo) / SRC).read_text())
    _, nodes = _holed(tree)
    out = []
    for st in tree.body:
        if isinstance(st, ast.FunctionDef) and st.name in nodes:
            out.append(tp.text(tp.normalise(*nodes[st.name])))
        elif isinstance(st, ast.ClassDef) and st.name in CLASSES:
            out.append(tp.text(tp.normalise(st)))
    return "\n\n\n".join(out)


def _lst(items, per_line=4, indent="    "):
    items = list(items)
    if not items:
        return "[]"
    lines = []
    for i in range(0, len(items), per_line):
        lines.append(indent + "; ".join(items[i:i + per_line]))
    return "[\n" + ";\n".join(lines) + " ]"


def _rule(r):
    seq = "; ".join(str(x) for x in r["seq"])
    return f"SplitRule {r['first']} [{seq}] {r['fix1']} {r['fix2']} {'true' if r['filt'] else 'false'}"


def render(t):
    p = ["(* GENERATED by harness/tables_c17.py from",
         "   /repo/distance3d/hydroelastic_contact/_tetra_mesh_creation.py on every run. Do not edit. *)",
         "From Coq Require Import ZArith QArith List.", "From D3 Require Import Model.TetSym.",
         "Import ListNotations.", "Local Close Scope Q_scope.", "", "Module TetTables.", ""]
    ico = t["ico"]
    p.append("Definition ico_verts : list (icoord * icoord * icoord) :=")
    p.append("  " + _lst((f"({a}, {b}, {c})" for a, b, c in ico["verts"])) + ".")
    p.append("Definition ico_tris : list (Z * Z * Z) :=")
    p.append("  " + _lst((f"({a}, {b}, {c})%Z" for a, b, c in ico["tris"])) + ".")
    p.append(f"Definition ico_first_new : Z := {ico['first_new']}%Z.")
    p.append("(* a, b, c = midpoints of (v<p>, v<q>): positions in (v1, v2, v3) *)")
    p.append("Definition ico_mid_calls : list (nat * nat) := [" + "; ".join(f"({a}, {b})" for a, b in ico["mids"]) + "].")
    p.append("(* children: positions in (v1, v2, v3, a, b, c) *)")
    p.append("Definition ico_children : list (nat * nat * nat) := ["
             + "; ".join(f"({a}, {b}, {c})" for a, b, c in ico["kids"]) + "].")
    p.append("")
    cube = t["cube"]
    p.append("Definition cube_verts : list (Q * Q * Q) :=")
    p.append("  " + _lst((f"({_q(a)}, {_q(b)}, {_q(c)})" for a, b, c in cube["verts"]), 3) + ".")
    p.append("Definition cube_tets : list (nat * nat * nat * nat) :=")
    p.append("  " + _lst((f"({a}, {b}, {c}, {d})" for a, b, c, d in cube["tets"])) + ".")
    p.append("Definition cube_pots : list cpot := [" + "; ".join(cube["pots"]) + "].")
    p.append("")
    box = t["box"]
    p.append("(* relative_tolerance literal = m / 2^k *)")
    p.append(f"Definition box_tol_m : Z := {box['tol'][0]}%Z.")
    p.append(f"Definition box_tol_k : nat := {box['tol'][1]}.")
    p.append(f"Definition box_n_corner : nat := {box['n_corner']}.")
    p.append("Definition box_faces : list (list bgrid) :=")
    p.append("  " + _lst(("[" + "; ".join(f"{k} {i} {j} {l}" for k, (i, j, l) in row) + "]" for row in box["faces"]), 1) + ".")
    p.append("")
    p.append(f"Definition hex_rule : split_rule := {_rule(t['hex'])}.")
    p.append(f"Definition prism_rule : split_rule := {_rule(t['prism'])}.")
    p.append(f"Definition pyramid_rule : split_rule := {_rule(t['pyramid'])}.")
    p.append("")
    p.append(f"Definition cyl_tol_m : Z := {t['cyl']['tol'][0]}%Z.")
    p.append(f"Definition cyl_tol_k : nat := {t['cyl']['tol'][1]}.")
    for nm in ("cyl_long", "cyl_medium", "cyl_short"):
        p.append(f"Definition {nm} : list celem :=")
        p.append("  " + _lst(t[nm], 1) + ".")
    p.append("")
    p.append("Definition capsule_cap : list kelem :=")
    p.append("  " + _lst(t["capsule"]["cap"], 1) + ".")
    p.append("Definition capsule_barrel : list kelem :=")
    p.append("  " + _lst(t["capsule"]["barrel"], 1) + ".")
    p.append("")
    p.append("End TetTables.")
    return "\n".join(p) + "\n"


def generate(repo, out):
    """Write Gen/TetTables.v if its content changed.  Returns (changed, tables)."""
    t = read_all(repo)
    txt = render(t)
    out = Path(out)
    if out.exists() and out.read_text() == txt:
        return False, t
    out.parent.mkdir(parents=True, exist_ok=True)
    out.write_text(txt)
    return True, t


if __name__ == "__main__":
    import sys
    from harness.common import REPO, COQ
    if "--print-reference" in sys.argv:
        print(print_reference(REPO))
    elif "--check" in sys.argv:         # read only, write nothing
        read_all(REPO)
        print("ok")
    else:
        ch, _ = generate(REPO, COQ / "theories" / "Gen" / "TetTables.v")
        print("changed" if ch else "unchanged")
