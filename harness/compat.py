"""Import shim used ONLY inside harness worker processes (nothing in /repo changes).

The pinned environment has numpy >= 2 (no ``np.row_stack``, which the library
uses inside @njit code) and an ``open3d`` that cannot load.  We provide the alias
and an empty stub so that every distance3d module can be imported.  This file is
part of the trusted base of the correspondence checks.
"""
import sys
import types
import numpy as np

if not hasattr(np, "row_stack"):
    np.row_stack = np.vstack
try:  # pragma: no cover
    import open3d  # noqa: F401
except Exception:  # pragma: no cover
    sys.modules["open3d"] = types.ModuleType("open3d")
