"""Correspondence between Model/Nesterov.v + Model/NesterovLoop.v (binary64 instance, evaluated inside coqc)
and /repo's gjk_nesterov_accelerated: the pairs (s0, s1) the implementation's module-level support_function
returned in pass i are replayed through pass i of the model (harness/impl/narrowbtrace9.py records them); the
type dispatch (inflation, direction normalisation) is computed by the MODEL from the collider classes.
Compared: the direction of every support evaluation, the number of evaluations, contact flag, distance and
the returned iteration count.  Near-ties are excused exactly like in harness/narrow_corr.py (perturbed copies)."""
import numpy as np

from . import common as cm
from .narrow_corr import _v, parse, vclose, NPERT

HEADER = ("From Coq Require Import List ZArith PrimFloat Bool.\n"
          "From D3 Require Import Base.Vec Model.Nesterov Model.NesterovLoopRun.\nImport ListNotations.\n"
          "Local Open Scope float_scope.\n")
CTYPE = dict(Sphere="TSphere", Capsule="TCapsule", Box="TBox", Ellipsoid="TEllipsoid", Cylinder="TCylinder",
             Cone="TCone", Disk="TDisk", Ellipse="TEllipse", MeshGraph="TMeshGraph",
             ConvexHullVertices="TConvexHullVertices", Margin="TMargin")


def _trace(s0, s1, pert=None):
    items = []
    for k, (p, q) in enumerate(zip(s0, s1)):
        if pert is not None:
            p = [x * (1.0 + e) for x, e in zip(p, pert[k][0])]
            q = [x * (1.0 + e) for x, e in zip(q, pert[k][1])]
        items.append(f"({_v(p)}, {_v(q)})")
    return "[" + "; ".join(items) + "]"


def exprs_for(o, kw, rng, npert):
    s0, s1 = o["s0"], o["s1"]
    n = len(s0)
    variants = [None]
    for kv in range(npert):
        mag = 3e-16 if (npert <= NPERT or kv % 2 == 0) else 2e-15
        variants.append([([rng.uniform(-mag, mag) for _ in range(3)],
                          [rng.uniform(-mag, mag) for _ in range(3)]) for _ in range(n)])
    mi = int(kw.get("max_interations", 128))
    tol = kw.get("tolerance", 1e-6)
    ub = kw.get("upper_bound", 1.79769e+308)
    acc = "true" if o["acc"] else "false"
    ex = []
    for pert in variants:
        ex.append(f"nesterov_run_f {CTYPE[o['type0']]} {cm.fhex(o['radius0'])} {CTYPE[o['type1']]} {cm.fhex(o['radius1'])} "
                  f"{acc} {mi}%nat {cm.fhex(tol)} {cm.fhex(ub)} {_trace(s0, s1, pert)}")
    return ex


def compare(pid, cases, results, rng, L_of, tag="nestcorr", npert=NPERT):
    exprs, idx = [], []
    stats = dict(compared=0, matched=0, skipped_unstable=0, skipped_exception=0, mismatch=0, steps=0, exits={})
    for i, (c, r) in enumerate(zip(cases, results)):
        for key in ("plain", "acc"):
            o = r.get(key)
            if o is None:
                continue
            if "exc" in o or o.get("type0") not in CTYPE or o.get("type1") not in CTYPE:
                stats["skipped_exception"] += 1
                continue
            ex = exprs_for(o, c.get("kw", {}), rng, npert)
            idx.append((i, key, len(exprs), len(ex)))
            exprs += ex
    if not exprs:
        return stats, []
    outs = cm.coq_eval_lines(pid, HEADER, exprs, tag=tag, per_file=40, timeout=1500)
    mism = []
    for (i, key, start, k) in idx:
        c, o = cases[i], results[i][key]
        L = L_of(c)
        ms = []
        for x in outs[start:start + k]:
            dirs, code, payload, n = parse(x)
            ms.append(dict(dirs=dirs, code=code, d=(payload[0] if payload else None), n=n))
        m0 = ms[0]
        kf = lambda m: (m["code"], m["n"], len(m["dirs"]))  # noqa
        unstable = any(kf(m) != kf(m0) for m in ms[1:])
        stats["compared"] += 1
        n_impl = len(o["s0"])
        stats["steps"] += n_impl
        why = []
        if len(m0["dirs"]) != n_impl or m0["code"] == -3:
            why.append(f"model stops after {len(m0['dirs'])} support evaluations (code {m0['code']}), implementation made {n_impl}")
        for kstep, (dm, di) in enumerate(zip(m0["dirs"], o["dirs"])):
            if not vclose(dm, di):
                why.append(f"direction of support evaluation {kstep}: model {dm} implementation {di}")
                break
        if m0["code"] in (0, 1):
            ex_name = f"{key}:{'inside' if m0['code'] else 'separated'}"
            stats["exits"][ex_name] = stats["exits"].get(ex_name, 0) + 1
            if bool(m0["code"]) != o["contact"]:
                why.append(f"contact: model {bool(m0['code'])} implementation {o['contact']}")
            spread = 0.0
            for m in ms[1:]:
                if m["d"] is not None and m0["d"] is not None and np.isfinite(m["d"]) and np.isfinite(m0["d"]):
                    spread = max(spread, abs(m["d"] - m0["d"]))
            if m0["d"] is None or not (abs(m0["d"] - o["d"]) <= 1e-9 * L + 1e-9 * abs(o["d"]) + 100.0 * spread):
                why.append(f"distance: model {m0['d']} implementation {o['d']}")
            if m0["n"] != o["iterations"]:
                why.append(f"iterations: model {m0['n']} implementation {o['iterations']}")
        elif not why:
            why.append(f"model outcome code {m0['code']} but the implementation returned {o.get('d')}")
        if why:
            if unstable:
                stats["skipped_unstable"] += 1
            else:
                stats["mismatch"] += 1
                mism.append((i, key, "; ".join(why)))
        else:
            stats["matched"] += 1
    return stats, mism


def _m(m):
    return "(fm " + " ".join(cm.fhex(x) for row in m for x in row) + ")"


def prim_exprs(o, kw, rng, npert):
    mi = int(kw.get("max_interations", 128))
    tol = kw.get("tolerance", 1e-6)
    ub = kw.get("upper_bound", 1.79769e+308)
    acc = "true" if o["acc"] else "false"
    ex = []
    for kv in range(npert + 1):
        mag = 0.0 if kv == 0 else (3e-16 if (npert <= NPERT or kv % 2 == 1) else 2e-15)
        pt = lambda x: x * (1.0 + rng.uniform(-mag, mag)) if mag else x  # noqa
        oR1 = [[pt(x) for x in row] for row in o["oR1"]]
        ot1 = [pt(x) for x in o["ot1"]]
        d0 = [pt(x) for x in o["data0"]]
        d1 = [pt(x) for x in o["data1"]]
        ex.append(f"nesterov_prim_run_f {CTYPE[o['type0']]} {cm.fhex(o['radius0'])} {CTYPE[o['type1']]} {cm.fhex(o['radius1'])} "
                  f"{acc} {mi}%nat {cm.fhex(tol)} {cm.fhex(ub)} {o['ty0']}%nat {_v(d0)} {o['ty1']}%nat {_v(d1)} {_m(oR1)} {_v(ot1)}")
    return ex


def compare_prim(pid, cases, results, rng, L_of, tag="primcorr", npert=NPERT):
    """gjk_nesterov_accelerated_primitives against the model RUN from get_minkowski_diff's tuple (no trace)."""
    exprs, idx = [], []
    stats = dict(compared=0, matched=0, skipped_unstable=0, skipped_exception=0, mismatch=0, model_evals=0, exits={})
    for i, (c, r) in enumerate(zip(cases, results)):
        for key in ("prim_plain", "prim_acc"):
            o = r.get(key)
            if o is None:
                continue
            if "exc" in o or o.get("type0") not in CTYPE or o.get("type1") not in CTYPE:
                stats["skipped_exception"] += 1
                continue
            ex = prim_exprs(o, c.get("kw", {}), rng, npert)
            idx.append((i, key, len(exprs), len(ex)))
            exprs += ex
    if not exprs:
        return stats, []
    outs = cm.coq_eval_lines(pid, HEADER, exprs, tag=tag, per_file=40, timeout=1500)
    mism = []
    for (i, key, start, k) in idx:
        c, o = cases[i], results[i][key]
        L = L_of(c)
        ms = []
        for x in outs[start:start + k]:
            code, payload, n, evals = parse(x)
            ms.append(dict(code=code, d=(payload[0] if payload else None), n=n, evals=evals))
        m0 = ms[0]
        kf = lambda m: (m["code"], m["n"], m["evals"])  # noqa
        unstable = any(kf(m) != kf(m0) for m in ms[1:])
        stats["compared"] += 1
        stats["model_evals"] += m0["evals"]
        why = []
        if m0["code"] in (0, 1):
            ex_name = f"{key}:{'inside' if m0['code'] else 'separated'}"
            stats["exits"][ex_name] = stats["exits"].get(ex_name, 0) + 1
            if bool(m0["code"]) != o["contact"]:
                why.append(f"contact: model {bool(m0['code'])} implementation {o['contact']}")
            spread = 0.0
            for m in ms[1:]:
                if m["d"] is not None and m0["d"] is not None and np.isfinite(m["d"]) and np.isfinite(m0["d"]):
                    spread = max(spread, abs(m["d"] - m0["d"]))
            if m0["d"] is None or not (abs(m0["d"] - o["d"]) <= 1e-9 * L + 1e-9 * abs(o["d"]) + 100.0 * spread):
                why.append(f"distance: model {m0['d']} implementation {o['d']}")
            if m0["n"] != o["iterations"]:
                why.append(f"iterations: model {m0['n']} implementation {o['iterations']}")
        else:
            why.append(f"model outcome code {m0['code']} but the implementation returned {o.get('d')}")
        if why:
            if unstable:
                stats["skipped_unstable"] += 1
            else:
                stats["mismatch"] += 1
                mism.append((i, key, "; ".join(why)))
        else:
            stats["matched"] += 1
    return stats, mism
