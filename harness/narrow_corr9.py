"""Correspondence between Model/Nesterov.v + Model/NesterovLoop.v (binary64 instance, evaluated inside coqc)
and /repo's gjk_nesterov_accelerated: the pairs (s0, s1) the implementation's module-level support_function
returned in pass i are replayed through pass i of the model (harness/impl/narrowbtrace9.py records them); the
type dispatch (inflation, direction normalisation) is computed by the MODEL from the collider classes.
Compared: the direction of every support evaluation, the number of evaluations, contact flag, distance and
the returned iteration count.  Near-ties are excused exactly like in harness/narrow_corr.py (perturbed copies)."""
import numpy as np

from . import common as cm
from .narrow_corr import _v, parse, vclose, NPERT

HEADER = ("From Coq Require Import List ZArith PrimFloat Bool.\n"
          "From D3 Require Import Base.Vec Model.Nesterov Model.NesterovLoopRun.\nImport ListNotations.\n"
          "Local Open Scope float_scope.\n")
CTYPE = dict(Sphere="TSphere", Capsule="TCapsule", Box="TBox", Ellipsoid="TEllipsoid", Cylinder="TCylinder",
             Cone="TCone", Disk="TDisk", Ellipse="TEllipse", MeshGraph="TMeshGraph",
             ConvexHullVertices="TConvexHullVertices", Margin="TMargin")


def _trace(s0, s1, pert=None):
    items = []
    for k, (p, q) in enumerate(zip(s0, s1)):
        if pert is not None:
            p = [x * (1.0 + e) for x, e in zip(p, pert[k][0])]
            q = [x * (1.0 + e) for x, e in zip(q, pert[k][1])]
        items.append(f"({_v(p)}, {_v(q)})")
    return "[" + "; ".join(items) + "]"


def exprs_for(o, kw, rng, npert):
    s0, s1 = o["s0"], o["s1"]
    n = len(s0)
    variants = [None]
    for kv in range(npert):
        mag = 3e-16 if (npert <= NPERT or kv % 2 == 0) else 2e-15
        variants.append([([rng.uniform(-mag, mag) for _ in range(3)],
                          [rng.uniform(-mag, mag) for _ in range(3)]) for _ in range(n)])
    mi = int(kw.get("max_interations", 128))
    tol = kw.get("tolerance", 1e-6)
    ub = kw.get("upper_bound", 1.79769e+308)
    acc = "true" if o["acc"] else "false"
    ex = []
    for pert in variants:
        ex.append(f"nesterov_run_f {CTYPE[o['type0']]} {cm.fhex(o['radius0'])} {CTYPE[o['type1']]} {cm.fhex(o['radius1'])} "
                  f"{acc} {mi}%nat {cm.fhex(tol)} {cm.fhex(ub)} {_trace(s0, s1, pert)}")
    return ex


def _judge_run(o, L, x, prim=False):
    """(reasons for a difference, discrete signature, distance) of one model outcome against the implementation's"""
    if prim:
        code, payload, n, evals = parse(x)
        dirs = None
    else:
        dirs, code, payload, n = parse(x)
    d = payload[0] if payload else None
    why = []
    if not prim:
        n_impl = len(o["s0"])
        if len(dirs) != n_impl or code == -3:
            why.append(f"model stops after {len(dirs)} support evaluations (code {code}), implementation made {n_impl}")
        for kstep, (dm, di) in enumerate(zip(dirs, o["dirs"])):
            if not vclose(dm, di):
                why.append(f"direction of support evaluation {kstep}: model {dm} implementation {di}")
                break
    if code in (0, 1):
        if bool(code) != o["contact"]:
            why.append(f"contact: model {bool(code)} implementation {o['contact']}")
        if d is None or not (abs(d - o["d"]) <= 1e-9 * L + 1e-9 * abs(o["d"])):
            why.append(f"distance: model {d} implementation {o['d']}")
        if n != o["iterations"]:
            why.append(f"iterations: model {n} implementation {o['iterations']}")
    elif not why:
        why.append(f"model outcome code {code} but the implementation returned {o.get('d')}")
    sig = (code, n, (evals if prim else len(dirs)))
    return why, sig, d


def _two_pass(pid, items, first_expr, variants_expr, judge, tag, npert):
    """first pass on the recorded inputs; perturbed copies (near-tie detection) only for the runs that differ"""
    outs = cm.coq_eval_lines(pid, HEADER, [first_expr(it) for it in items], tag=tag, per_file=40, timeout=1500)
    verdicts, suspects = [], []
    for it, x in zip(items, outs):
        why, sig, d = judge(it, x)
        verdicts.append((it, why, sig, d))
        if why:
            suspects.append((it, why, sig, d))
    mism, unstable_n = [], 0
    if suspects:
        npv = max(npert, 8)
        ex = []
        for (it, why, sig, d) in suspects:
            ex += variants_expr(it, npv)
        o2 = cm.coq_eval_lines(pid, HEADER, ex, tag=tag + "_p", per_file=40, timeout=1500)
        for k, (it, why, sig, d) in enumerate(suspects):
            unstable = False
            spread = 0.0
            for x in o2[npv * k: npv * (k + 1)]:
                w2, s2, d2 = judge(it, x)
                if s2 != sig:
                    unstable = True
                if d is not None and d2 is not None and np.isfinite(d) and np.isfinite(d2):
                    spread = max(spread, abs(d - d2))
            # a distance difference within 100x the model's own sensitivity to 1-10 ulp perturbations is rounding
            only_distance = all(w.startswith("distance:") for w in why)
            if unstable or (only_distance and d is not None and abs(d - it[2]["d"]) <= 100.0 * spread):
                unstable_n += 1
            else:
                mism.append((it, why))
    return verdicts, mism, unstable_n


def compare(pid, cases, results, rng, L_of, tag="nestcorr", npert=NPERT):
    stats = dict(compared=0, matched=0, skipped_unstable=0, skipped_exception=0, mismatch=0, steps=0, exits={})
    items = []
    for i, (c, r) in enumerate(zip(cases, results)):
        for key in ("plain", "acc"):
            o = r.get(key)
            if o is None:
                continue
            if "exc" in o or o.get("type0") not in CTYPE or o.get("type1") not in CTYPE:
                stats["skipped_exception"] += 1
                continue
            items.append((i, key, o))
    if not items:
        return stats, []
    verdicts, mism_, unstable_n = _two_pass(
        pid, items,
        lambda it: exprs_for(it[2], cases[it[0]].get("kw", {}), rng, 0)[0],
        lambda it, npv: exprs_for(it[2], cases[it[0]].get("kw", {}), rng, npv)[1:],
        lambda it, x: _judge_run(it[2], L_of(cases[it[0]]), x), tag, npert)
    for (it, why, sig, d) in verdicts:
        stats["compared"] += 1
        stats["steps"] += len(it[2]["s0"])
        if sig[0] in (0, 1):
            nm = f"{it[1]}:{'inside' if sig[0] else 'separated'}"
            stats["exits"][nm] = stats["exits"].get(nm, 0) + 1
        if not why:
            stats["matched"] += 1
    stats["skipped_unstable"] = unstable_n
    stats["mismatch"] = len(mism_)
    return stats, [(it[0], it[1], "; ".join(why)) for (it, why) in mism_]


def _m(m):
    return "(fm " + " ".join(cm.fhex(x) for row in m for x in row) + ")"


def prim_exprs(o, kw, rng, npert):
    mi = int(kw.get("max_interations", 128))
    tol = kw.get("tolerance", 1e-6)
    ub = kw.get("upper_bound", 1.79769e+308)
    acc = "true" if o["acc"] else "false"
    ex = []
    for kv in range(npert + 1):
        mag = 0.0 if kv == 0 else (3e-16 if (npert <= NPERT or kv % 2 == 1) else 2e-15)
        pt = lambda x: x * (1.0 + rng.uniform(-mag, mag)) if mag else x  # noqa
        oR1 = [[pt(x) for x in row] for row in o["oR1"]]
        ot1 = [pt(x) for x in o["ot1"]]
        d0 = [pt(x) for x in o["data0"]]
        d1 = [pt(x) for x in o["data1"]]
        ex.append(f"nesterov_prim_run_f {CTYPE[o['type0']]} {cm.fhex(o['radius0'])} {CTYPE[o['type1']]} {cm.fhex(o['radius1'])} "
                  f"{acc} {mi}%nat {cm.fhex(tol)} {cm.fhex(ub)} {o['ty0']}%nat {_v(d0)} {o['ty1']}%nat {_v(d1)} {_m(oR1)} {_v(ot1)}")
    return ex


def compare_prim(pid, cases, results, rng, L_of, tag="primcorr", npert=NPERT):
    """gjk_nesterov_accelerated_primitives against the model RUN from get_minkowski_diff's tuple (no trace)."""
    stats = dict(compared=0, matched=0, skipped_unstable=0, skipped_exception=0, mismatch=0, model_evals=0, exits={})
    items = []
    for i, (c, r) in enumerate(zip(cases, results)):
        for key in ("prim_plain", "prim_acc"):
            o = r.get(key)
            if o is None:
                continue
            if "exc" in o or o.get("type0") not in CTYPE or o.get("type1") not in CTYPE:
                stats["skipped_exception"] += 1
                continue
            items.append((i, key, o))
    if not items:
        return stats, []
    verdicts, mism_, unstable_n = _two_pass(
        pid, items,
        lambda it: prim_exprs(it[2], cases[it[0]].get("kw", {}), rng, 0)[0],
        lambda it, npv: prim_exprs(it[2], cases[it[0]].get("kw", {}), rng, npv)[1:],
        lambda it, x: _judge_run(it[2], L_of(cases[it[0]]), x, prim=True), tag, npert)
    for (it, why, sig, d) in verdicts:
        stats["compared"] += 1
        stats["model_evals"] += sig[2]
        if sig[0] in (0, 1):
            nm = f"{it[1]}:{'inside' if sig[0] else 'separated'}"
            stats["exits"][nm] = stats["exits"].get(nm, 0) + 1
        if not why:
            stats["matched"] += 1
    stats["skipped_unstable"] = unstable_n
    stats["mismatch"] = len(mism_)
    return stats, [(it[0], it[1], "; ".join(why)) for (it, why) in mism_]


# ----------------------------------------------------------------------------- unit correspondence of the simplex projections
def gen_simplices(rng, n):
    """2-, 3- and 4-point simplices (rows oldest first, the last row is the point just added) aimed at every leaf of the
    projection trees: random ones, ones whose origin sits in the Voronoi region of a chosen vertex / edge / face / the
    interior, exactly degenerate and lattice ones."""
    out = []
    feats = [(0,), (1,), (2,), (3,), (0, 1), (0, 2), (0, 3), (1, 2), (1, 3), (2, 3), (0, 1, 2), (0, 1, 3), (0, 2, 3), (1, 2, 3), (0, 1, 2, 3)]
    for i in range(n):
        k = rng.choice([2, 3, 4, 4, 4, 4])
        mode = rng.choice(["random", "voronoi", "voronoi", "voronoi", "lattice", "near"])
        sc = 10 ** rng.uniform(-2, 2)
        if mode == "lattice":
            P = np.array([[rng.choice([-2.0, -1.0, -0.5, 0.0, 0.5, 1.0, 2.0]) for _ in range(3)] for _ in range(k)])
        else:
            P = np.array([[rng.gauss(0, 1) for _ in range(3)] for _ in range(k)]) * sc
            if mode == "random":
                P += np.array([rng.gauss(0, 1) for _ in range(3)]) * sc * rng.choice([0.0, 0.3, 1.0, 3.0])
            else:
                f = [j for j in rng.choice(feats) if j < k]
                if not f:
                    f = [k - 1]
                w = np.array([rng.random() + 0.05 for _ in f])
                w /= w.sum()
                x = (w[:, None] * P[f]).sum(axis=0)          # a point of the feature
                cen = P.mean(axis=0)
                out_dir = x - cen
                nrm = np.linalg.norm(out_dir)
                if len(f) < k and nrm > 0:
                    x = x + out_dir / nrm * sc * rng.choice([1e-6, 1e-2, 0.3, 2.0])     # pushed outward: Voronoi region of f
                if mode == "near":
                    x = x * (1 + 1e-9)
                P = P - x
        out.append(P.tolist())
    # small-integer simplices: the exact zeros of the `>= 0` / `<= 0` / `== 0` tests of the projection trees
    # (origin exactly on an edge line, in a face plane, at a vertex; collinear and coplanar points)
    for i in range(n // 2):
        k = rng.choice([2, 3, 3, 3, 4, 4])
        P = [[float(rng.choice([-2, -1, -1, 0, 0, 1, 1, 2])) for _ in range(3)] for _ in range(k)]
        if rng.random() < 0.3:
            sc = rng.choice([0.5, 0.25, 3.0])
            P = [[x * sc for x in p] for p in P]
        out.append(P)
    return out


def compare_projections(pid, rng, n, trace_lines=True, tag="projcorr", per_leaf=8, budget=150000):
    """/repo's project_line_origin / project_triangle_origin / project_tetra_to_origin (both Nesterov modules, jitted)
    against Model/NesterovLoop.v on generated simplices: rewritten rows (exactly), inside flag, ray (1e-9)."""
    simp = gen_simplices(rng, n)
    directed, leaf_hist = leaf_directed_tetrahedra(rng, per_leaf=per_leaf, budget=budget)
    simp += directed
    # the calls themselves take microseconds: one worker for all of them, a second one for the traced (interpreted) subset
    nw_ = 2 if len(simp) > 3000 else 1
    payloads = [dict(simplices=simp[i::nw_], trace_lines=False) for i in range(nw_)]
    if trace_lines:
        payloads.append(dict(simplices=directed[::3] + simp[::9], trace_lines=True))
    res = cm.run_impl_parallel(pid, "narrowbproj", payloads, timeout=900, tag="proj")
    impl = [None] * len(simp)
    hits = {}
    for w, rr in enumerate(res):
        if rr["status"] != "ok":
            raise RuntimeError(f"projection worker failed: {rr.get('log', '')[-300:]}")
        if w < nw_:
            for i, x in zip(range(w, len(simp), nw_), rr["result"]["results"]):
                impl[i] = x
        for k, v in rr["result"].get("hits", {}).items():
            hits.setdefault(k, set()).update(v)

    def expr(P, pert=None):
        rows = []
        for j, p in enumerate(P):
            if pert is not None:
                p = [x * (1.0 + e) for x, e in zip(p, pert[j])]
            rows.append(_v(p))
        return "project_f [" + "; ".join(rows) + "]"
    outs = cm.coq_eval_lines(pid, HEADER, [expr(P) for P in simp], tag=tag, per_file=100, timeout=1500)
    stats = dict(compared=0, matched=0, skipped_unstable=0, mismatch=0, by_size={}, tetra_leaves_reached=len(leaf_hist),
                 tetra_leaf_histogram={str(k): v for k, v in leaf_hist.items()})
    suspects = []
    for i, (P, o, x) in enumerate(zip(simp, impl, outs)):
        code, ray, rows = parse(x)
        for name in ("generic", "prim"):
            r = o[name]
            stats["compared"] += 1
            why = None
            if "exc" in r:
                why = f"{name}: raised {r['exc']}"
            elif code not in (0, 1):
                why = f"model error code {code}"
            elif bool(code) != r["inside"]:
                why = f"{name}: inside model {bool(code)} implementation {r['inside']}"
            elif rows != r["rows"]:
                why = f"{name}: rewritten simplex rows differ: model {rows} implementation {r['rows']}"
            elif not vclose(ray, r["ray"], rel=1e-9) and not (np.linalg.norm(np.array(ray) - np.array(r["ray"])) <= 1e-12 * max(1e-300, float(np.max(np.abs(P))))):
                why = f"{name}: ray model {ray} implementation {r['ray']}"
            if why:
                suspects.append((i, name, why))
            else:
                stats["matched"] += 1
                stats["by_size"][str(len(P))] = stats["by_size"].get(str(len(P)), 0) + 1
    mism = []
    if suspects:
        # near-ties: does the model's own discrete outcome change under 1-10 ulp perturbations of the input points?
        def signature(code, rows, Pin):
            """discrete outcome: inside flag and WHICH input points ended up in which row"""
            order = []
            for r in rows:
                order.append(next((j for j, p in enumerate(Pin) if list(p) == list(r)), -1))
            return (code, tuple(order))
        ex, perts = [], []
        for (i, name, why) in suspects:
            P = simp[i]
            for kv in range(8):
                mag = 3e-16 if kv % 2 == 0 else 2e-15
                pert = [[rng.uniform(-mag, mag) for _ in range(3)] for _ in P]
                ex.append(expr(P, pert))
                perts.append([[x * (1.0 + e) for x, e in zip(p, pe)] for p, pe in zip(P, pert)])
        o2 = cm.coq_eval_lines(pid, HEADER, ex, tag=tag + "2", per_file=100, timeout=1500)
        for k, (i, name, why) in enumerate(suspects):
            base = parse(outs[i])
            sig0 = signature(base[0], base[2], simp[i])
            unstable = False
            for x, Pp in zip(o2[8 * k: 8 * k + 8], perts[8 * k: 8 * k + 8]):
                c2, _, rows2 = parse(x)
                if signature(c2, rows2, Pp) != sig0:
                    unstable = True
            if unstable:
                stats["skipped_unstable"] += 1
            else:
                stats["mismatch"] += 1
                mism.append((i, name, why, simp[i]))
    return stats, mism, {k: sorted(v) for k, v in hits.items()}


def projection_leaf_coverage(repo, hits):
    """of the statements inside the three projection functions (both modules), how many were reached by the generated simplices"""
    import ast
    out = {}
    for key, fname in (("generic", "_gjk_nesterov_accelerated.py"), ("prim", "_gjk_nesterov_accelerated_primitives.py")):
        p = repo / "distance3d" / "gjk" / fname
        tree = ast.parse(p.read_text())
        lines = set()
        for fn in ast.walk(tree):
            if isinstance(fn, ast.FunctionDef) and fn.name in ("project_line_origin", "project_triangle_origin", "project_tetra_to_origin", "t_b"):
                for st in fn.body:
                    for node in ast.walk(st):
                        if isinstance(node, ast.stmt):
                            lines.add(node.lineno)
        got = set(hits.get(key, [])) & lines
        out[key] = dict(statements=len(lines), executed=len(got), never_executed_lines=sorted(lines - got)[:30])
    return out


# ----------------------------------------------------------------------------- leaf-directed tetrahedra (generation guidance only)
def tetra_leaf(d, c, b, a):
    """Which leaf of project_tetra_to_origin a tetrahedron reaches, computed by a plain-Python replica of the TESTS of the
    tree (line numbers of _gjk_nesterov_accelerated.py at the time of writing as leaf names; the string names are the
    regions the F-N3 repair split off - in the unrepaired code they are part of the leaf whose number they carry).
    Used only to pick inputs; never to judge."""
    dot = lambda x, y: x[0] * y[0] + x[1] * y[1] + x[2] * y[2]  # noqa
    cross = lambda x, y: (x[1] * y[2] - x[2] * y[1], x[2] * y[0] - x[0] * y[2], x[0] * y[1] - x[1] * y[0])  # noqa
    aa = dot(a, a)
    da, db, dc, dd = dot(d, a), dot(d, b), dot(d, c), dot(d, d)
    da_aa = da - aa
    ca, cb, cc = dot(c, a), dot(c, b), dot(c, c)
    ca_aa = ca - aa
    ba, bb = dot(b, a), dot(b, b)
    bc, bd = cb, db
    ba_aa, ba_ca, ca_da, da_ba = ba - aa, ba - ca, ca - da, da - ba
    axb, axc = cross(a, b), cross(a, c)
    t1 = ba * da_ba + bd * ba_aa - bb * da_aa
    t2 = ba * ba_ca + bb * ca_aa - bc * ba_aa
    t3 = ca * ba_ca + cb * ca_aa - cc * ba_aa
    t4 = ca * ca_da + cc * da_aa - dc * ca_aa
    t5 = da * da_ba + dd * ba_aa - db * da_aa
    t6 = da * ca_da + dc * da_aa - dd * ca_aa
    if ba_aa <= 0:
        if -dot(d, axb) <= 0:
            if t1 <= 0:
                if da_aa <= 0:
                    if t2 <= 0:
                        if t3 <= 0:                       # sub-leaves of the F-N3 repair (one leaf, 385, before it)
                            return "385.acd" if t4 <= 0 else "385.ac"
                        return 385
                    return 387
                if t2 <= 0:
                    if t3 <= 0:
                        return 392 if t4 <= 0 else 394
                    return 396
                return 398
            if t5 <= 0:
                return 401
            if t4 <= 0:
                return 405 if t6 <= 0 else 407
            return 410 if t6 <= 0 else 412
        if dot(c, axb) <= 0:
            if t2 <= 0:
                if t3 <= 0:
                    if t4 <= 0:
                        return "418.ad" if t6 <= 0 else 418   # sub-leaf of the F-N3 repair
                    return 420
                return 422
            return 424                                        # F-N3: region_ad before the repair, region_ab after
        if dot(d, axc) <= 0:
            if t4 <= 0:
                return 429 if t6 <= 0 else 431
            return 434 if ca_aa <= 0 else 436
        return 438
    if ca_aa <= 0:
        if dot(d, axc) <= 0:
            if da_aa <= 0:
                if t4 <= 0:
                    if t6 <= 0:
                        return 446 if t5 <= 0 else 448
                    return 450
                return 453 if t3 <= 0 else 455
            if t3 <= 0:
                return 459 if t4 <= 0 else 461
            if dot(c, axb) == 0:
                return 466
            return 464 if dot(c, axb) < 0 else "464.pos"       # F-N3: `if c.dot(a_cross_b):` took region_abc for both signs
        if dot(c, axb) <= 0:
            return 470 if t3 <= 0 else 472
        if -dot(d, axb) <= 0:
            return 476 if t5 <= 0 else 478
        return 480
    if da_aa <= 0:
        if -dot(d, axb) <= 0:
            if t6 <= 0:
                return 486 if t5 <= 0 else 488
            if dot(d, axc) <= 0:
                return 491
            return 494 if dot(c, axb) <= 0 else 496
        if dot(d, axc) <= 0:
            return 500 if t6 <= 0 else 502
        return 504
    return 506


def leaf_directed_tetrahedra(rng, per_leaf=6, budget=150000):
    """random / Voronoi-directed tetrahedra bucketed by the leaf they reach: up to `per_leaf` per leaf"""
    buckets = {}
    pool = gen_simplices(rng, 4000)
    tries = 0

    def add(P):
        lf = tetra_leaf(*[tuple(p) for p in P])
        b = buckets.setdefault(lf, [])
        if len(b) < per_leaf:
            b.append(P)
    for P in pool:
        if len(P) == 4:
            add(P)
    while tries < budget:
        tries += 1
        sc = 10 ** rng.uniform(-1, 1)
        mode = rng.random()
        if mode < 0.5:
            P = [[rng.gauss(0, 1) * sc for _ in range(3)] for _ in range(4)]
            off = [rng.gauss(0, 1) * sc * rng.choice([0.0, 0.5, 1.0, 2.0]) for _ in range(3)]
            P = [[p[k] + off[k] for k in range(3)] for p in P]
        else:
            # a realistic GJK situation: the newest point a lies beyond the old triangle seen from the origin
            P = [[rng.gauss(0, 1) * sc for _ in range(3)] for _ in range(3)]
            cen = [sum(p[k] for p in P) / 3 for k in range(3)]
            a = [-cen[k] * rng.uniform(-0.5, 2.0) + rng.gauss(0, 1) * sc * rng.choice([0.1, 0.5, 1.0]) for k in range(3)]
            P = P + [a]
        add(P)
    hist = {k: len(v) for k, v in sorted(buckets.items(), key=lambda kv: str(kv[0]))}
    return [P for v in buckets.values() for P in v], hist


# ----------------------------------------------------------------------------- soundness of the projections (hypothesis monitor)
def closest_bruteforce(P):
    """closest point of conv(P) to the origin by enumerating the faces (floats; untrusted: the result only seeds the
    witnesses of the Coq certificate)"""
    import itertools
    P = np.array(P, float)
    best = None
    for k in range(1, len(P) + 1):
        for idx in itertools.combinations(range(len(P)), k):
            Q = P[list(idx)]
            if k == 1:
                lam = np.array([1.0])
            else:
                A = np.vstack([np.hstack([Q @ Q.T, np.ones((k, 1))]), np.hstack([np.ones((1, k)), [[0.0]]])])
                b = np.zeros(k + 1)
                b[-1] = 1.0
                try:
                    lam = np.linalg.solve(A, b)[:k]
                except np.linalg.LinAlgError:
                    continue
            if (lam >= 0).all():
                x = lam @ Q
                if best is None or np.linalg.norm(x) < best[0]:
                    best = (float(np.linalg.norm(x)), x)
    return best


def gjk_state_tetrahedra(rng, per_leaf=4, budget=60000):
    """tetrahedra (d, c, b, a) in a state GJK can hand to project_tetra_to_origin: the closest point of triangle (d, c, b) to
    the origin is in its interior (the previous projection returned all three rows), the rows are in the order
    origin_to_triangle leaves them in (cross(c - b, d - b) . (-b) > 0), and the new vertex a strictly improves
    (a . ray < ray . ray); bucketed by tetra_leaf, `per_leaf` each.  Generation guidance only."""
    buckets = {}
    for _ in range(budget):
        sc = rng.choice([0.3, 1.0, 3.0])
        off = [rng.gauss(0, 1) * rng.choice([0.5, 2.0, 4.0]) for _ in range(3)]
        T = np.array([[rng.gauss(0, 1) * sc + off[k] for k in range(3)] for _ in range(3)])
        d, c, b = T
        if float(np.cross(c - b, d - b) @ (-b)) <= 0:
            d, c = c, d
        n = np.cross(c - d, b - d)
        nn = float(n @ n)
        if nn < 1e-6 * sc ** 4:
            continue
        ray = n * float(n @ d) / nn                              # foot of the origin on the plane
        # barycentric coordinates of the foot: must be well inside
        M = np.vstack([np.array([d, c, b]).T, np.ones(3)])
        lam, *_ = np.linalg.lstsq(M, np.append(ray, 1.0), rcond=None)
        if not (lam > 0.02).all():
            continue
        a = np.array([rng.gauss(0, 1) * rng.choice([0.3, 1.0, 3.0]) + rng.gauss(0, 1) * rng.choice([0.0, 0.5, 2.0]) for _ in range(3)])
        if not float(a @ ray) < float(ray @ ray) * (1 - 1e-3) - 1e-3:
            continue
        P = [d.tolist(), c.tolist(), b.tolist(), a.tolist()]
        lf = tetra_leaf(*[tuple(p) for p in P])
        bk = buckets.setdefault(lf, [])
        if len(bk) < per_leaf:
            bk.append(P)
    return [P for v in buckets.values() for P in v], {str(k): len(v) for k, v in sorted(buckets.items(), key=lambda kv: str(kv[0]))}


def projection_soundness(pid, rng, per_leaf=4, budget=15000, tag="projsound"):
    """Monitor of the invariant C09_nesterov_converged_exit_partial assumes ("the current ray is a point of the simplex" - and, for
    GJK to converge, its closest point): on tetrahedra in GJK-reachable states, directed at every leaf, |ray| returned by both
    modules' project_tetra_to_origin must be the distance of conv(simplex) from the origin - judged by the Coq certificate
    dist_values_cert on the shape expressions Hull(simplex) and {0} (tau = 1e-6 * size).  Returns (stats, failures)."""
    from . import narrow as nw
    from . import narrow_bool as nb
    tets, hist = gjk_state_tetrahedra(rng, per_leaf, budget)
    res = cm.run_impl_parallel(pid, "narrowbproj", [dict(simplices=tets, trace_lines=False)], timeout=900, tag=tag)
    if res[0]["status"] != "ok":
        raise RuntimeError(f"projection worker failed: {res[0].get('log', '')[-300:]}")
    impl = res[0]["result"]["results"]
    origin = dict(kind="hull", vertices=[[0.0, 0.0, 0.0]])
    exprs, meta = [], []
    stats = dict(tetrahedra=len(tets), leaves=len(hist), leaf_histogram=hist, judged=0, accepted=0, enclosure_not_certified=0)
    for P, o in zip(tets, impl):
        best = closest_bruteforce(P)
        if best is None:
            continue
        g, x = best
        size = float(np.max(np.abs(np.array(P))))
        spec = dict(kind="hull", vertices=P)
        vals, names = [], []
        for name in ("generic", "prim"):
            r = o[name]
            if "exc" in r:
                continue
            vals.append(0.0 if r["inside"] else float(np.linalg.norm(np.array(r["ray"]))))
            names.append(name)
        eps = 1e-7 * size
        lo, up = max(0.0, g - eps), g + eps
        n = (-x).tolist() if g > 1e-12 * size else [1.0, 0.0, 0.0]
        A, B = nw.sh_expr(spec), nw.sh_expr(origin)
        wa, wb = nw.wit_expr(spec, x.tolist()), nw.wit_expr(origin, [0.0, 0.0, 0.0])
        exprs.append(f"enclosure_cert {A} {B} {wa} {wb} {nw.vq(n)} {nw._q(lo)} {nw._q(up)}")
        exprs.append(f"dist_values_cert {A} {B} {wa} {wb} {nw.vq(n)} {nw._q(lo)} {nw._q(up)} "
                     f"[{'; '.join(nw._q(v) for v in vals)}] {nw._q(1e-6 * size)}")
        meta.append((P, names, vals, g))
    outs = nb.coq_eval_retry(pid, nb.COQ_HEADER, exprs, tag, 60, ["theories/Props/C09.vo"])
    fails = []
    for k, (P, names, vals, g) in enumerate(meta):
        enc, ok = outs[2 * k].strip() == "true", outs[2 * k + 1].strip() == "true"
        if not enc:
            stats["enclosure_not_certified"] += 1
            continue
        stats["judged"] += 1
        if ok:
            stats["accepted"] += 1
        else:
            fails.append((P, dict(zip(names, vals)), g, tetra_leaf(*[tuple(p) for p in P])))
    return stats, fails
