"""Shared pieces of the narrow-phase checks (C01, C02, C07, C08, C09, C12, C19, C20):
collider specifications (JSON), generators, and the translation of a collider
into the shape expression / membership witness language of
coq/theories/Checker/Shapes.v (exact rationals of the floats the implementation
was given)."""
import math
from fractions import Fraction as Fr

import numpy as np

from . import common as cm

KINDS = ["sphere", "ellipsoid", "capsule", "cylinder", "cone", "box", "disk", "ellipse", "mesh", "hull"]
PRIMS = ["sphere", "capsule", "box", "ellipsoid", "cylinder"]   # accepted by nesterov_primitives


# ----------------------------------------------------------------------------- poses
def _quat_to_R(q):
    w, x, y, z = q
    return np.array([
        [1 - 2 * (y * y + z * z), 2 * (x * y - z * w), 2 * (x * z + y * w)],
        [2 * (x * y + z * w), 1 - 2 * (x * x + z * z), 2 * (y * z - x * w)],
        [2 * (x * z - y * w), 2 * (y * z + x * w), 1 - 2 * (x * x + y * y)]])


AXIS_PERMS = []
for p in ((0, 1, 2), (1, 2, 0), (2, 0, 1), (0, 2, 1), (2, 1, 0), (1, 0, 2)):
    for sx in (1, -1):
        for sy in (1, -1):
            for sz in (1, -1):
                M = np.zeros((3, 3))
                M[0, p[0]] = sx
                M[1, p[1]] = sy
                M[2, p[2]] = sz
                if abs(np.linalg.det(M) - 1) < 1e-9:
                    AXIS_PERMS.append(M)


def rand_rotation(rng, stream):
    if stream == "lattice":
        R = AXIS_PERMS[rng.randrange(len(AXIS_PERMS))].copy()
        if rng.random() < 0.3:  # 45 degrees about an axis
            c = math.sqrt(0.5)
            k = rng.randrange(3)
            i, j = [a for a in range(3) if a != k]
            G = np.eye(3)
            G[i, i] = c
            G[j, j] = c
            G[i, j] = -c
            G[j, i] = c
            R = G @ R
        return R
    q = np.array([rng.gauss(0, 1) for _ in range(4)])
    q /= np.linalg.norm(q)
    return _quat_to_R(q)


def rand_size(rng, stream, lo=1e-2, hi=1e2):
    if stream == "lattice":
        return rng.choice([0.25, 0.5, 1.0, 2.0, 4.0])
    if stream == "moderate":
        return 10 ** rng.uniform(-1, 1)
    return 10 ** rng.uniform(math.log10(lo), math.log10(hi))


def rand_center(rng, stream, spread):
    if stream == "lattice":
        return [rng.choice([-4.0, -2.0, -1.0, -0.5, 0.0, 0.5, 1.0, 2.0, 4.0]) for _ in range(3)]
    return [rng.uniform(-spread, spread) for _ in range(3)]


def pose_of(R, t):
    T = np.eye(4)
    T[:3, :3] = R
    T[:3, 3] = t
    return T.tolist()


# ----------------------------------------------------------------------------- collider specs
def gen_collider(rng, kind, stream="random", spread=5.0, margin_prob=0.15, sizes=None):
    """A JSON-serialisable collider specification."""
    R = rand_rotation(rng, stream)
    c = rand_center(rng, stream, spread)
    sz = (lambda: rand_size(rng, stream)) if sizes is None else (lambda: rng.choice(sizes))
    if kind == "sphere":
        spec = dict(kind=kind, center=c, radius=sz())
    elif kind == "ellipsoid":
        spec = dict(kind=kind, pose=pose_of(R, c), radii=[sz(), sz(), sz()])
    elif kind == "capsule":
        spec = dict(kind=kind, pose=pose_of(R, c), radius=sz(), height=sz())
    elif kind == "cylinder":
        spec = dict(kind=kind, pose=pose_of(R, c), radius=sz(), length=sz())
    elif kind == "cone":
        spec = dict(kind=kind, pose=pose_of(R, c), radius=sz(), height=sz())
    elif kind == "box":
        spec = dict(kind=kind, pose=pose_of(R, c), size=[sz(), sz(), sz()])
    elif kind == "disk":
        spec = dict(kind=kind, center=c, radius=sz(), normal=R[:, 2].tolist())
    elif kind == "ellipse":
        spec = dict(kind=kind, center=c, axes=[R[:, 0].tolist(), R[:, 1].tolist()], radii=[sz(), sz()])
    elif kind in ("mesh", "hull"):
        n = rng.choice([4, 6, 8, 12, 20, 30])
        s = sz()
        if stream == "lattice" and rng.random() < 0.5:
            pts = [[s * a, s * b, s * cc] for a in (-1, 1) for b in (-1, 1) for cc in (-1, 1)]
        else:
            pts = []
            for _ in range(n):
                v = np.array([rng.gauss(0, 1) for _ in range(3)])
                v *= s / np.linalg.norm(v)
                pts.append(v.tolist())
        if kind == "hull":
            W = (np.array(pts) @ R.T + np.array(c)).tolist()
            spec = dict(kind=kind, vertices=W)
        else:
            spec = dict(kind=kind, pose=pose_of(R, c), vertices=pts)
    else:
        raise ValueError(kind)
    if rng.random() < margin_prob:
        spec["margin"] = rand_size(rng, "moderate") * 0.1 if stream != "lattice" else rng.choice([0.125, 0.25, 0.5])
    return spec


def feature_size(spec):
    k = spec["kind"]
    m = spec.get("margin", 0.0)
    if k in ("sphere", "disk"):
        s = spec["radius"]
    elif k in ("ellipsoid", "ellipse"):
        s = max(spec["radii"])
    elif k == "capsule":
        s = max(spec["radius"], spec["height"])
    elif k == "cylinder":
        s = max(spec["radius"], spec["length"])
    elif k == "cone":
        s = max(spec["radius"], spec["height"])
    elif k == "box":
        s = max(spec["size"])
    else:
        V = np.array(spec["vertices"])
        s = float(np.max(np.linalg.norm(V - V.mean(axis=0), axis=1)))
    return s + m


def center_of(spec):
    if "center" in spec:
        return np.array(spec["center"], dtype=float)
    if "pose" in spec:
        return np.array(spec["pose"], dtype=float)[:3, 3]
    return np.array(spec["vertices"], dtype=float).mean(axis=0)


def scene_scale(specs):
    """L = max(1, largest feature size or centre distance of the scene)."""
    L = 1.0
    for s in specs:
        L = max(L, feature_size(s))
    for i in range(len(specs)):
        for j in range(i + 1, len(specs)):
            L = max(L, float(np.linalg.norm(center_of(specs[i]) - center_of(specs[j]))))
    return L


def translate_spec(spec, t):
    s = dict(spec)
    t = np.array(t, dtype=float)
    if "center" in s:
        s["center"] = (np.array(s["center"]) + t).tolist()
    if "pose" in s:
        T = np.array(s["pose"], dtype=float)
        T[:3, 3] += t
        s["pose"] = T.tolist()
    elif s["kind"] == "hull":
        s["vertices"] = (np.array(s["vertices"]) + t).tolist()
    return s


def transform_spec(spec, R, t, scale=1.0):
    """Apply x -> scale * (R x + t)?  No: x -> R (scale x) + t  (uniform scale about the origin
    first, then the rigid motion)."""
    R = np.array(R, dtype=float)
    t = np.array(t, dtype=float)
    s = dict(spec)
    for key in ("radius", "height", "length", "margin"):
        if key in s:
            s[key] = s[key] * scale
    for key in ("radii", "size"):
        if key in s:
            s[key] = [x * scale for x in s[key]]
    if "center" in s:
        s["center"] = (R @ (scale * np.array(s["center"])) + t).tolist()
    if "normal" in s:
        s["normal"] = (R @ np.array(s["normal"])).tolist()
    if "axes" in s:
        s["axes"] = [(R @ np.array(a)).tolist() for a in s["axes"]]
    if "pose" in s:
        T = np.array(s["pose"], dtype=float)
        T2 = np.eye(4)
        T2[:3, :3] = R @ T[:3, :3]
        T2[:3, 3] = R @ (scale * T[:3, 3]) + t
        s["pose"] = T2.tolist()
        if s["kind"] == "mesh":
            s["vertices"] = (scale * np.array(s["vertices"])).tolist()
    elif s["kind"] == "hull":
        s["vertices"] = ((scale * np.array(s["vertices"])) @ R.T + t).tolist()
    return s


# ----------------------------------------------------------------------------- python-side support values
def plane_basis(normal):
    """An orthonormal basis of the plane orthogonal to `normal` (harness' own)."""
    n = np.array(normal, dtype=float)
    n = n / np.linalg.norm(n)
    a = np.eye(3)[int(np.argmin(np.abs(n)))]
    x = np.cross(n, a)
    x /= np.linalg.norm(x)
    y = np.cross(n, x)
    y /= np.linalg.norm(y)
    return x, y


def parts(spec):
    """Decomposition used by both the Coq expression and the float support value:
    list of ('pt', c) | ('seg', v) | ('ell', a1, a2, a3) summed, or ('hull', V) or ('cone', apex, c, a1, a2)."""
    k = spec["kind"]
    out = []
    if k == "sphere":
        r = spec["radius"]
        out = [("pt", np.array(spec["center"], float)), ("ell", r * np.eye(3)[0], r * np.eye(3)[1], r * np.eye(3)[2])]
    elif k in ("ellipsoid", "capsule", "cylinder", "cone", "box"):
        T = np.array(spec["pose"], float)
        a = [T[:3, 0], T[:3, 1], T[:3, 2]]
        c = T[:3, 3]
        if k == "ellipsoid":
            rr = spec["radii"]
            out = [("pt", c), ("ell", rr[0] * a[0], rr[1] * a[1], rr[2] * a[2])]
        elif k == "capsule":
            r = spec["radius"]
            out = [("pt", c), ("seg", 0.5 * spec["height"] * a[2]),
                   ("ell", r * np.eye(3)[0], r * np.eye(3)[1], r * np.eye(3)[2])]
        elif k == "cylinder":
            r = spec["radius"]
            out = [("pt", c), ("seg", 0.5 * spec["length"] * a[2]), ("ell", r * a[0], r * a[1], np.zeros(3))]
        elif k == "box":
            h = [0.5 * x for x in spec["size"]]
            out = [("pt", c), ("seg", h[0] * a[0]), ("seg", h[1] * a[1]), ("seg", h[2] * a[2])]
        else:
            r = spec["radius"]
            out = [("cone", c + spec["height"] * a[2], c, r * a[0], r * a[1])]
    elif k == "disk":
        x, y = plane_basis(spec["normal"])
        r = spec["radius"]
        out = [("pt", np.array(spec["center"], float)), ("ell", r * x, r * y, np.zeros(3))]
    elif k == "ellipse":
        ax = np.array(spec["axes"], float)
        rr = spec["radii"]
        out = [("pt", np.array(spec["center"], float)), ("ell", rr[0] * ax[0], rr[1] * ax[1], np.zeros(3))]
    elif k == "hull":
        out = [("hull", [[Fr(x) for x in v] for v in spec["vertices"]])]
    elif k == "mesh":
        T = [[Fr(x) for x in row] for row in spec["pose"]]
        W = []
        for v in spec["vertices"]:
            fv = [Fr(x) for x in v]
            W.append([sum(T[i][j] * fv[j] for j in range(3)) + T[i][3] for i in range(3)])
        out = [("hull", W)]
    if "margin" in spec:
        m = spec["margin"]
        out.append(("ell", m * np.eye(3)[0], m * np.eye(3)[1], m * np.eye(3)[2]))
    return out


def support_value(spec, n):
    """float support value h(n) (harness' own closed form; used for construction only)."""
    n = np.array(n, float)
    h = 0.0
    for p in parts(spec):
        if p[0] == "pt":
            h += float(p[1] @ n)
        elif p[0] == "seg":
            h += abs(float(p[1] @ n))
        elif p[0] == "ell":
            h += math.sqrt(sum(float(a @ n) ** 2 for a in p[1:]))
        elif p[0] == "hull":
            h += max(float(sum(float(v[i]) * n[i] for i in range(3))) for v in p[1])
        elif p[0] == "cone":
            apex, c, a1, a2 = p[1:]
            h += max(float(apex @ n), float(c @ n) + math.sqrt(float(a1 @ n) ** 2 + float(a2 @ n) ** 2))
    return h


# ----------------------------------------------------------------------------- Coq expressions
def vq(v):
    return "(V " + " ".join(_q(x) for x in v) + ")"


def _q(x):
    if isinstance(x, Fr):
        n, d = x.numerator, x.denominator
    else:
        n, d = float(x).as_integer_ratio()
    return f"({n} # {d})" if n >= 0 else f"(({n}) # {d})"


def sh_expr(spec):
    ps = parts(spec)

    def one(p):
        if p[0] == "pt":
            return f"(Pt {vq(p[1])})"
        if p[0] == "seg":
            return f"(Seg {vq(p[1])})"
        if p[0] == "ell":
            return f"(Ell {vq(p[1])} {vq(p[2])} {vq(p[3])})"
        if p[0] == "hull":
            return "(HullPts [" + "; ".join(vq(v) for v in p[1]) + "])"
        if p[0] == "cone":
            apex, c, a1, a2 = p[1:]
            return f"(HullU (Pt {vq(apex)}) (Sum (Pt {vq(c)}) (Ell {vq(a1)} {vq(a2)} {vq(np.zeros(3))})))"
        raise ValueError(p[0])
    e = one(ps[-1])
    for p in reversed(ps[:-1]):
        e = f"(Sum {one(p)} {e})"
    return e


def _unit_ball_coords(t):
    t = np.array(t, float)
    n = float(np.linalg.norm(t))
    if n > 1.0:
        t = t / (n * (1 + 1e-12))
    # make sure the rational sum of squares is <= 1
    while sum(Fr(float(x)) ** 2 for x in t) > 1:
        t = t * (1 - 1e-15)
    return [float(x) for x in t]


def _ell_project(tgt, axes):
    """coordinates t (|t| <= 1) of the point of { sum t_i a_i } closest to tgt (axes assumed
    orthogonal up to rounding; flat axes have length 0)"""
    s = [float(np.linalg.norm(a)) for a in axes]
    y = [float(tgt @ (a / si)) if si > 0 else 0.0 for a, si in zip(axes, s)]
    t = [yi / si if si > 0 else 0.0 for yi, si in zip(y, s)]
    if sum(x * x for x in t) <= 1.0:
        return t

    def f(lmb):
        return sum((si * yi / (si * si + lmb)) ** 2 for si, yi in zip(s, y) if si > 0) - 1.0
    lo, hi = 0.0, 1.0
    while f(hi) > 0:
        hi *= 2.0
        if hi > 1e300:
            break
    for _ in range(200):
        mid = 0.5 * (lo + hi)
        if f(mid) > 0:
            lo = mid
        else:
            hi = mid
    lmb = hi
    return [si * yi / (si * si + lmb) if si > 0 else 0.0 for si, yi in zip(s, y)]


def _seg_project2(px, py, ax, ay, bx, by):
    dx, dy = bx - ax, by - ay
    dd = dx * dx + dy * dy
    t = 0.0 if dd == 0 else min(1.0, max(0.0, ((px - ax) * dx + (py - ay) * dy) / dd))
    return ax + t * dx, ay + t * dy


def _tri_project(rho, z, r, h):
    """closest point of the triangle (0,0),(r,0),(0,h) to (rho,z), rho >= 0"""
    inside = z >= 0 and rho >= 0 and rho / r + z / h <= 1
    if inside:
        return rho, z
    best = None
    for (ax, ay, bx, by) in ((0, 0, r, 0), (r, 0, 0, h), (0, h, 0, 0)):
        qx, qy = _seg_project2(rho, z, ax, ay, bx, by)
        d = (qx - rho) ** 2 + (qy - z) ** 2
        if best is None or d < best[0]:
            best = (d, qx, qy)
    return best[1], best[2]


def _hull_weights(V, p):
    """convex weights (Fractions summing to exactly 1, >= 0) approximating p = sum w_i V_i"""
    from scipy.optimize import nnls
    Vf = np.array([[float(x) for x in v] for v in V])
    p = np.array(p, float)
    sc = max(1.0, float(np.max(np.abs(Vf))))
    A = np.vstack([Vf.T / sc, 1e3 * np.ones((1, len(Vf)))])
    b = np.concatenate([p / sc, [1e3]])
    w, _ = nnls(A, b, maxiter=2000)
    w = np.maximum(w, 0.0)
    if w.sum() <= 0:
        w[0] = 1.0
    w = w / w.sum()
    fw = [Fr(float(x)) for x in w]
    k = int(np.argmax(w))
    fw[k] = 1 - sum(fw[i] for i in range(len(fw)) if i != k)
    if fw[k] < 0:
        fw = [Fr(0)] * len(fw)
        fw[k] = Fr(1)
    return fw


def wit_expr(spec, p):
    """Membership witness for point p (floats): the nearest parameters found in floating
    point; untrusted — the Coq checker reconstructs the point exactly and measures the
    distance to p."""
    p = np.array(p, float)
    ps = parts(spec)
    # distribute p over the summands greedily: subtract the point part, then project
    rest = p.copy()
    wits = [None] * len(ps)
    # handle 'pt' first
    for i, part in enumerate(ps):
        if part[0] == "pt":
            rest = rest - part[1]
            wits[i] = "WPt"
    # hull / cone are alone (plus optional margin ball)
    balls = [i for i, part in enumerate(ps) if part[0] == "ell" and all(np.linalg.norm(a) > 0 for a in part[1:])
             and abs(np.linalg.norm(part[1]) - np.linalg.norm(part[2])) < 1e-300 + 1e-12 * np.linalg.norm(part[1])
             and abs(np.linalg.norm(part[1]) - np.linalg.norm(part[3])) < 1e-300 + 1e-12 * np.linalg.norm(part[1])
             and abs(float(part[1] @ part[2])) < 1e-12 * float(part[1] @ part[1])]
    others = [i for i, part in enumerate(ps) if wits[i] is None and i not in balls]
    # closest point of the non-ball part to rest, by alternating projection for sums of seg/flat ell
    core = np.zeros(3)
    coords = {}
    for it in range(60 if len(others) > 1 else 1):
        for i in others:
            part = ps[i]
            tgt = rest - (core - coords.get(i, (None, np.zeros(3)))[1])
            if part[0] == "seg":
                v = part[1]
                t = float(np.clip((tgt @ v) / max(float(v @ v), 1e-300), -1, 1))
                coords[i] = (t, t * v)
            elif part[0] == "ell":
                axes = [a for a in part[1:]]
                tt = _ell_project(tgt, axes)
                tt = _unit_ball_coords(tt)
                coords[i] = (tt, sum(t * a for t, a in zip(tt, axes)))
            elif part[0] == "hull":
                w = _hull_weights(part[1], tgt)
                q = np.array([float(sum(w[j] * part[1][j][k] for j in range(len(w)))) for k in range(3)])
                # if a margin ball follows, the hull point need not equal tgt
                coords[i] = (w, q)
            elif part[0] == "cone":
                apex, c, a1, a2 = part[1:]
                axis = apex - c
                h = float(np.linalg.norm(axis))
                r = float(np.linalg.norm(a1))
                zu = axis / h
                loc = tgt - c
                z = float(loc @ zu)
                rad = loc - z * zu
                rho = float(np.linalg.norm(rad))
                # closest point of the triangle (0,0),(r,0),(0,h) in the (rho, z) half plane
                rs, zs = _tri_project(rho, z, r, h)
                lam = float(np.clip(1 - zs / h, 0, 1))
                if lam > 0 and rho > 0:
                    sc = rs / rho / lam
                    tt = [float(rad @ a1) / (r * r) * sc, float(rad @ a2) / max(float(a2 @ a2), 1e-300) * sc, 0.0]
                else:
                    tt = [0.0, 0.0, 0.0]
                tt = _unit_ball_coords(tt)
                q = (1 - lam) * apex + lam * (c + tt[0] * a1 + tt[1] * a2)
                coords[i] = ((lam, tt), q)
            core = sum((coords[j][1] for j in coords), np.zeros(3))
    resid = rest - core
    for i in balls:
        r = float(np.linalg.norm(ps[i][1]))
        tt = _unit_ball_coords(resid / r) if r > 0 else [0.0, 0.0, 0.0]
        # ball axes are r*e1, r*e2, r*e3 for sphere/capsule/margin
        ax = ps[i][1:]
        tt2 = [float(np.array(tt) @ (a / r)) for a in ax]
        tt2 = _unit_ball_coords(tt2)
        wits[i] = f"(WEll {_q(tt2[0])} {_q(tt2[1])} {_q(tt2[2])})"
        resid = resid - sum(t * a for t, a in zip(tt2, ax))
    for i in others:
        part = ps[i]
        cc = coords[i][0]
        if part[0] == "seg":
            wits[i] = f"(WSeg {_q(cc)})"
        elif part[0] == "ell":
            wits[i] = f"(WEll {_q(cc[0])} {_q(cc[1])} {_q(cc[2])})"
        elif part[0] == "hull":
            wits[i] = "(WHull [" + "; ".join(_q(x) for x in cc) + "])"
        elif part[0] == "cone":
            lam, tt = cc
            wits[i] = f"(WHullU {_q(lam)} WPt (WSum WPt (WEll {_q(tt[0])} {_q(tt[1])} {_q(tt[2])})))"
    e = wits[-1]
    for w in reversed(wits[:-1]):
        e = f"(WSum {w} {e})"
    return e


COQ_HEADER = """From Coq Require Import QArith List.
From D3 Require Import Base.Vec Checker.Shapes.
Import ListNotations.
"""


# ----------------------------------------------------------------------------- scenes
GAPS = [0.0, 1e-9, -1e-9, 1e-6, -1e-6, 1e-3, -1e-3, 0.1, -0.1, 1.0, -1.0, 10.0, 100.0]


def rand_unit(rng, stream="random"):
    if stream == "lattice":
        v = np.array(rng.choice([[1, 0, 0], [0, 1, 0], [0, 0, 1], [-1, 0, 0], [0, -1, 0], [0, 0, -1],
                                 [1, 1, 0], [1, 0, 1], [0, 1, 1], [1, 1, 1], [1, -1, 0]]), float)
    else:
        v = np.array([rng.gauss(0, 1) for _ in range(3)])
    return v / np.linalg.norm(v)


def gen_pair(rng, tier, kinds=None, gap=None, stream=None, margin_prob=0.15):
    """A pair of collider specs in the declared domain D plus metadata."""
    kinds = kinds or KINDS
    stream = stream or rng.choice(["random", "random", "lattice", "moderate", "wide", "gap", "gap", "gap"])
    k1, k2 = rng.choice(kinds), rng.choice(kinds)
    meta = dict(stream=stream, kinds=[k1, k2])
    if stream == "lattice":
        s1 = gen_collider(rng, k1, "lattice", margin_prob=margin_prob)
        s2 = gen_collider(rng, k2, "lattice", margin_prob=margin_prob)
        if rng.random() < 0.1:
            s2 = dict(s1)
            meta["identical"] = True
    elif stream == "wide":
        s1 = gen_collider(rng, k1, "random", spread=500.0, margin_prob=margin_prob)
        s2 = gen_collider(rng, k2, "random", spread=500.0, margin_prob=margin_prob)
    elif stream in ("moderate", "random"):
        sp = 3.0 if stream == "moderate" else 5.0
        st = "moderate" if stream == "moderate" else "random"
        s1 = gen_collider(rng, k1, st, spread=sp, margin_prob=margin_prob)
        s2 = gen_collider(rng, k2, st, spread=sp, margin_prob=margin_prob)
    else:  # constructed at a prescribed plane gap along a direction
        st = rng.choice(["moderate", "moderate", "random", "lattice"])
        s1 = gen_collider(rng, k1, st, spread=3.0, margin_prob=margin_prob)
        s2 = gen_collider(rng, k2, st, spread=3.0, margin_prob=margin_prob)
        u = rand_unit(rng, st)
        g = rng.choice(GAPS) if gap is None else gap
        s = g + support_value(s1, u) + support_value(s2, -u)
        s2 = translate_spec(s2, s * u)
        meta.update(gap=g, dir=u.tolist())
    meta["L"] = scene_scale([s1, s2])
    return s1, s2, meta


def run_cases(pid, cases, tag="impl", timeout=1500, jit=True, per_worker_min=6):
    """cases: list of dict(c1, c2, ops).  Returns list of lists of op results; a worker
    crash is isolated to single cases."""
    nw = min(cm.NCPU, max(1, len(cases) // per_worker_min))
    chunks = [cases[i::nw] for i in range(nw)]
    res = cm.run_impl_parallel(pid, "narrow", [dict(cases=c) for c in chunks], timeout=timeout, jit=jit, tag=tag)
    out = [None] * len(cases)
    for w, (rr, ch) in enumerate(zip(res, chunks)):
        idxs = list(range(w, len(cases), nw))
        if rr["status"] == "ok":
            for i, x in zip(idxs, rr["result"]["results"]):
                out[i] = x
        else:
            singles = cm.run_impl_parallel(pid, "narrow", [dict(cases=[c]) for c in ch], timeout=900, jit=jit,
                                           tag=tag + "_iso")
            for i, s, c in zip(idxs, singles, ch):
                if s["status"] == "ok":
                    out[i] = s["result"]["results"][0]
                else:
                    out[i] = [dict(fn=o["fn"], exc=f"PROCESS-{s['status'].upper()}",
                                   exc_msg=f"rc={s.get('rc')} {s.get('log', '')[-200:]}", support_calls=0)
                              for o in c["ops"]]
    # A per-call time limit that fired is re-examined before anybody is blamed: the case is run
    # again alone, after the worker's warm-up, with a five-minute limit.  Only a query that still
    # does not return counts as a hang (machine load and cold numba caches must never look like one).
    again = [i for i, rr in enumerate(out) if rr and any(r.get("exc") == "TIMEOUT" for r in rr)]
    if again:
        retry = []
        for i in again:
            c = dict(cases[i])
            c["ops"] = [dict(o, timeout=300) for o in c["ops"]]
            retry.append(dict(cases=[c]))
        singles = cm.run_impl_parallel(pid, "narrow", retry, timeout=1200, jit=jit, tag=tag + "_retry")
        for i, s in zip(again, singles):
            if s["status"] == "ok":
                out[i] = s["result"]["results"][0]
                for r in out[i]:
                    r["retried_after_timeout"] = True
    return out


def coq_bools(pid, exprs, tag="cert", per_file=40):
    """Evaluate boolean checker expressions inside coqc; returns list of bool."""
    if not exprs:
        return []
    outs = cm.coq_eval_lines(pid, COQ_HEADER, exprs, tag=tag, per_file=per_file, timeout=1500)
    res = []
    for o in outs:
        o = o.strip()
        if o not in ("true", "false"):
            raise RuntimeError(f"unexpected checker output {o[:200]}")
        res.append(o == "true")
    return res


def support_point(spec, n):
    """harness' own closed-form support point and its witness expression."""
    n = np.array(n, float)
    p = np.zeros(3)
    for part in parts(spec):
        if part[0] == "pt":
            p = p + part[1]
        elif part[0] == "seg":
            p = p + (1.0 if float(part[1] @ n) >= 0 else -1.0) * part[1]
        elif part[0] == "ell":
            b = [float(a @ n) for a in part[1:]]
            nb = math.sqrt(sum(x * x for x in b))
            if nb > 0:
                p = p + sum((x / nb) * a for x, a in zip(b, part[1:]))
        elif part[0] == "hull":
            V = np.array([[float(x) for x in v] for v in part[1]])
            p = p + V[int(np.argmax(V @ n))]
        elif part[0] == "cone":
            apex, c, a1, a2 = part[1:]
            b = [float(a1 @ n), float(a2 @ n)]
            nb = math.sqrt(b[0] ** 2 + b[1] ** 2)
            base = c + ((b[0] / nb) * a1 + (b[1] / nb) * a2 if nb > 0 else 0)
            p = p + (apex if float(apex @ n) >= float(base @ n) else base)
    return p
