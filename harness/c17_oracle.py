"""Exact property oracle for C17 (tetrahedral mesh factories).

Everything that decides a verdict is computed in exact integer / rational arithmetic on
the binary64 values the implementation returned (every float is a dyadic rational; all
coordinates of a mesh are scaled by one common power of two to integers).  numpy float64
is used only as a *filter* with a rigorous error bound in front of exact evaluation
(hull-plane tests) and scipy's ConvexHull only as an untrusted witness.

judge(case, res) -> dict(fails=[...], stats={...}, cert=... )
"""
import math
from fractions import Fraction

import numpy as np

ORIENT = {"sphere": -1, "ellipsoid": -1, "cube": -1, "box": 1, "cylinder": 1, "capsule": 1}
# orientation convention of each factory: sign of det[b-a, c-a, d-a] of every tetrahedron
# (icosphere / cube tables list the outer face counter-clockwise seen from outside, the
# Drake-derived factories the other way round); the property needs one sign per mesh.

REL_VOL = Fraction(1, 10**9)      # sum of volumes vs hull volume
REL_EXACT = Fraction(1, 10**12)   # box / cube: sum of volumes vs sx*sy*sz
TAU = Fraction(1, 10**9)          # * L : vertices in shape, potentials


# --------------------------------------------------------------------------- exact numbers
def to_int_coords(flat):
    """floats -> (python ints, k) with x = X / 2^k for the common k."""
    ratios = [float(x).as_integer_ratio() for x in flat]
    k = max(d.bit_length() - 1 for _, d in ratios) if ratios else 0
    return [n << (k - (d.bit_length() - 1)) for n, d in ratios], k


def obj(a):
    o = np.empty(len(a), dtype=object)
    o[:] = a
    return o


def cross_o(u, v):
    return np.stack([u[:, 1] * v[:, 2] - u[:, 2] * v[:, 1],
                     u[:, 2] * v[:, 0] - u[:, 0] * v[:, 2],
                     u[:, 0] * v[:, 1] - u[:, 1] * v[:, 0]], axis=1)


def dot_o(u, v):
    return u[:, 0] * v[:, 0] + u[:, 1] * v[:, 1] + u[:, 2] * v[:, 2]


def det3_o(a, b, c):
    return dot_o(cross_o(a, b), c)


# --------------------------------------------------------------------------- hull witness
DIRS = [(10007, 10009, 10037), (-7919, 104729, 1299709), (15485863, -32452843, 49979687),
        (3, 5, -7), (-1000003, 999983, 7), (2, -3, 1)]


def hull_bounds(VI, simplices):
    """VI: (n,3) object array of ints; simplices: (F,3) int array (untrusted).

    Returns dict(ok, why, W6, lam_minus_1 (Fraction), n_exact) where
    W6 = 6 * volume enclosed by the (verified closed, star-shaped w.r.t. the centroid,
    simply covering) witness surface, so  W6 <= 6 vol(conv V) <= (1+lam_minus_1)^3 W6.
    """
    n = len(VI)
    s = np.array(simplices, dtype=int)
    if s.ndim != 2 or s.shape[1] != 3 or len(s) < 4 or s.min() < 0 or s.max() >= n:
        return dict(ok=False, why="witness is not a list of triangles over the vertices")
    S = VI.sum(axis=0)
    P0, P1, P2 = VI[s[:, 0]], VI[s[:, 1]], VI[s[:, 2]]
    nrm = cross_o(P1 - P0, P2 - P0)
    D = dot_o(nrm, n * P0 - np.array([S] * len(s), dtype=object))     # n * nrm.(p0 - centroid)
    neg = np.array([d < 0 for d in D], dtype=bool)
    if neg.any():
        s[neg] = s[neg][:, [0, 2, 1]]
        P1, P2 = VI[s[:, 1]], VI[s[:, 2]]
        nrm = cross_o(P1 - P0, P2 - P0)
        D = dot_o(nrm, n * P0 - np.array([S] * len(s), dtype=object))
    if any(d <= 0 for d in D):
        return dict(ok=False, why="witness facet plane passes through the centroid (degenerate)")
    # closed, oriented: every directed edge once, its reverse once
    edges = {}
    for a, b, c in s.tolist():
        for e in ((a, b), (b, c), (c, a)):
            if e in edges or e[0] == e[1]:
                return dict(ok=False, why="witness surface: repeated or degenerate directed edge")
            edges[e] = True
    for (a, b) in edges:
        if (b, a) not in edges:
            return dict(ok=False, why="witness surface is not closed")
    # covering degree 1: a ray from the centroid crosses exactly one facet
    Sr = np.array([S] * len(s), dtype=object)
    A, B, C = n * P0 - Sr, n * P1 - Sr, n * P2 - Sr
    degree = None
    for d in DIRS:
        dd = np.array([list(d)] * len(s), dtype=object)
        t1, t2, t3 = det3_o(dd, B, C), det3_o(A, dd, C), det3_o(A, B, dd)
        hit = 0
        amb = False
        for x, y, z in zip(t1, t2, t3):
            if x > 0 and y > 0 and z > 0:
                hit += 1
            elif x >= 0 and y >= 0 and z >= 0:
                amb = True
                break
        if not amb:
            degree = hit
            break
    if degree is None:
        return dict(ok=False, why="no unambiguous ray direction found")
    if degree != 1:
        return dict(ok=False, why=f"witness surface covers the centroid's sky {degree} times")
    # support excess of every facet plane: delta_f = max_v nrm_f.(v - p0_f) >= 0, float filter + exact
    Vf = VI.astype(float)
    off = dot_o(nrm, P0)
    nf = nrm.astype(float)
    of = off.astype(float)
    absV = np.abs(Vf)
    delta = [0] * len(s)
    n_exact = 0
    chunk = max(1, 4_000_000 // max(1, n))
    for lo in range(0, len(s), chunk):
        hi = min(len(s), lo + chunk)
        sv = Vf @ nf[lo:hi].T - of[lo:hi][None, :]
        bound = 1e-14 * (absV @ np.abs(nf[lo:hi]).T + np.abs(of[lo:hi])[None, :])
        vi, fi = np.nonzero(sv > -bound)
        fi = fi + lo
        own = (vi == s[fi, 0]) | (vi == s[fi, 1]) | (vi == s[fi, 2])
        vi, fi = vi[~own], fi[~own]
        if len(vi):
            n_exact += len(vi)
            ex = dot_o(VI[vi] - P0[fi], nrm[fi])
            for f, e in zip(fi.tolist(), ex):
                if e > delta[f]:
                    delta[f] = e
    lam = Fraction(0)
    for dl, Df in zip(delta, D):
        if dl > 0:
            r = Fraction(dl * n, Df)
            if r > lam:
                lam = r
    W6 = sum(det3_o(P0, P1, P2))
    return dict(ok=True, W6=W6, lam_minus_1=lam, n_exact=n_exact, facets=len(s),
                n_support_violations=sum(1 for d in delta if d > 0))


def scipy_hull(Vf, scale):
    from scipy.spatial import ConvexHull
    X = Vf / np.asarray(scale, dtype=float)[None, :]     # affine map: same hull combinatorics
    try:
        return ConvexHull(X).simplices, None
    except Exception as e:  # noqa: BLE001
        try:
            return ConvexHull(X, qhull_options="QJ").simplices, "QJ"
        except Exception as e2:  # noqa: BLE001
            return None, f"{type(e).__name__}/{type(e2).__name__}: {str(e2)[:120]}"


# --------------------------------------------------------------------------- analytic shapes
def F(x):
    return Fraction(float(x))


def shape_info(case):
    """-> dict(L, inradius, extent(3), classify(v as 3 Fractions) -> (inside, boundary, medial))"""
    name, a = case["factory"], case["args"]
    if name == "sphere":
        r = F(a["radius"])
        L = max(Fraction(1), 2 * r)
        tau = TAU * L

        def cls(v):
            q = v[0] * v[0] + v[1] * v[1] + v[2] * v[2]
            return q <= (r + tau) ** 2, q >= (r - tau) ** 2, q <= tau * tau
        return dict(L=L, inradius=r, extent=[r, r, r], classify=cls, volume_exact=None)
    if name == "ellipsoid":
        rr = [F(x) for x in a["radii"]]
        L = max(Fraction(1), 2 * max(rr))
        tau = TAU * L

        def cls(v):
            qo = sum((v[i] / (rr[i] + tau)) ** 2 for i in range(3))
            qi = sum((v[i] / (rr[i] - tau)) ** 2 for i in range(3))
            return qo <= 1, qi >= 1, v[0] == 0 and v[1] == 0 and v[2] == 0
        return dict(L=L, inradius=min(rr), extent=rr, classify=cls, volume_exact=None)
    if name in ("cube", "box"):
        sz = [F(a["size"])] * 3 if name == "cube" else [F(x) for x in a["size"]]
        h = [x / 2 for x in sz]
        m = min(h)
        L = max(Fraction(1), max(sz))
        tau = TAU * L

        def cls(v):
            depth = min(h[i] - abs(v[i]) for i in range(3))
            return depth >= -tau, depth <= tau, abs(depth - m) <= tau
        return dict(L=L, inradius=m, extent=h, classify=cls, volume_exact=sz[0] * sz[1] * sz[2])
    if name == "cylinder":
        r, h = F(a["radius"]), F(a["length"]) / 2
        inr = min(r, h)
        L = max(Fraction(1), 2 * r, 2 * h)
        tau = TAU * L

        def ge(rho2, x):      # rho >= x
            return x <= 0 or rho2 >= x * x

        def le(rho2, x):      # rho <= x
            return x >= 0 and rho2 <= x * x

        def cls(v):
            rho2 = v[0] * v[0] + v[1] * v[1]
            z = abs(v[2])
            inside = le(rho2, r + tau) and z <= h + tau
            boundary = ge(rho2, r - tau) or z >= h - tau
            medial = (le(rho2, r - inr + tau) and z <= h - inr + tau
                      and (ge(rho2, r - inr - tau) or z >= h - inr - tau))
            return inside, boundary, medial
        return dict(L=L, inradius=inr, extent=[r, r, h], classify=cls, volume_exact=None)
    if name == "capsule":
        r, hh = F(a["radius"]), F(a["height"]) / 2
        L = max(Fraction(1), 2 * r + 2 * hh)
        tau = TAU * L

        def cls(v):
            dz = max(abs(v[2]) - hh, Fraction(0))
            d2 = v[0] * v[0] + v[1] * v[1] + dz * dz
            return d2 <= (r + tau) ** 2, d2 >= (r - tau) ** 2, d2 <= tau * tau
        return dict(L=L, inradius=r, extent=[r, r, r + hh], classify=cls, volume_exact=None)
    raise ValueError(name)


# --------------------------------------------------------------------------- the judge
def judge(case, res, want_cert_data=False):
    fails = []
    st = {}
    name = case["factory"]
    if "exc" in res:
        return dict(fails=[f"factory raised {res['exc']}: {res.get('exc_msg', '')}"], stats=st)
    (nv, vd), esh, psh = (res["shapes"][0] + [None])[:2], res["shapes"][1], res["shapes"][2]
    if len(res["shapes"][0]) != 2 or vd != 3 or len(esh) != 2 or esh[1] != 4 or psh != [nv]:
        return dict(fails=[f"array shapes {res['shapes']}"], stats=st)
    flat = res["vertices"]
    if not all(math.isfinite(x) for x in flat) or not all(math.isfinite(x) for x in res["potentials"]):
        return dict(fails=["non-finite vertex or potential"], stats=st)
    E = np.array(res["tetrahedra"], dtype=int).reshape(-1, 4)
    nt = len(E)
    st.update(n_vertices=nv, n_tets=nt)
    if nt == 0 or E.min() < 0 or E.max() >= nv:
        return dict(fails=["tetrahedron index out of range / no tetrahedra"], stats=st)
    ints, k = to_int_coords(flat)
    VI = obj(ints).reshape(-1, 3)
    Vf = np.array(flat, dtype=float).reshape(-1, 3)
    unit3 = Fraction(1, 1 << (3 * k))          # one integer volume unit in real units
    sigma = ORIENT[name]

    # 1. every tetrahedron strictly positive with the factory's orientation
    a, b, c, d = VI[E[:, 0]], VI[E[:, 1]], VI[E[:, 2]], VI[E[:, 3]]
    det = det3_o(b - a, c - a, d - a)
    sdet = [sigma * x for x in det]
    bad = [i for i, x in enumerate(sdet) if x <= 0]
    if bad:
        i = bad[0]
        kind = "zero" if sdet[i] == 0 else "negative"
        fails.append(f"{len(bad)} tetrahedra with {kind} oriented volume, first: element {i} {E[i].tolist()} "
                     f"6*vol={float(Fraction(int(sdet[i])) * unit3):.3e} (orientation convention {sigma:+d})")
    T6 = sum(sdet)
    st["min_vol6"] = float(Fraction(int(min(sdet))) * unit3)
    st["sum_vol"] = float(Fraction(int(T6)) * unit3 / 6)
    unused = sorted(set(range(nv)) - set(E.reshape(-1).tolist()))
    if unused:
        fails.append(f"vertices used by no tetrahedron: {unused[:5]}")

    # 2. hull volume from the verified witness
    sh = shape_info(case)
    simplices, herr = scipy_hull(Vf, [float(x) for x in sh["extent"]])
    if simplices is None:
        fails.append(f"convex hull of the vertices is degenerate (qhull: {herr})")
    else:
        hb = hull_bounds(VI, simplices)
        if not hb["ok"]:
            st["hull_witness_rejected"] = hb["why"]
        else:
            W6, lam = hb["W6"], 1 + hb["lam_minus_1"]
            st.update(hull_facets=hb["facets"], hull_exact_evals=hb["n_exact"],
                      hull_lambda_minus_1=float(hb["lam_minus_1"]),
                      hull_support_violations=hb["n_support_violations"],
                      hull_vol=float(Fraction(int(W6)) * unit3 / 6),
                      rel_gap=float(Fraction(int(T6 - W6), int(W6))))
            lo_ok = Fraction(int(T6)) >= (1 - REL_VOL) * lam ** 3 * W6
            hi_ok = Fraction(int(T6)) <= (1 + REL_VOL) * W6
            if lo_ok and hi_ok:
                pass
            elif Fraction(int(T6)) < (1 - REL_VOL) * W6 or Fraction(int(T6)) > (1 + REL_VOL) * lam ** 3 * W6:
                fails.append(f"sum of tetrahedron volumes {st['sum_vol']:.17g} differs from the volume of the convex hull "
                             f"of the vertices {st['hull_vol']:.17g} by more than 1e-9 relative (rel. gap {st['rel_gap']:.3e})")
            else:
                st["hull_witness_rejected"] = "hull volume interval too wide to decide"
    # 2b. exact tiling for box / cube
    if sh["volume_exact"] is not None:
        vex = sh["volume_exact"]
        tv = Fraction(int(T6)) * unit3 / 6
        st["rel_err_exact_volume"] = float(abs(tv - vex) / vex)
        if abs(tv - vex) > REL_EXACT * vex:
            fails.append(f"box/cube: sum of volumes {float(tv):.17g} != sx*sy*sz {float(vex):.17g}")

    # 2c. conformity (observation, not part of the verdict): interior faces shared by exactly two
    #     tetrahedra with opposite orientation, boundary faces once
    faces = {}
    for (p, q, r, s_) in E.tolist():
        for tri_ in ((q, r, s_), (p, s_, r), (p, q, s_), (p, r, q)):
            key = tuple(sorted(tri_))
            # parity of the permutation that sorts tri_
            x, y, z = tri_
            par = ((x > y) + (x > z) + (y > z)) % 2
            faces.setdefault(key, []).append(par)
    nb = sum(1 for v in faces.values() if len(v) == 1)
    ni = sum(1 for v in faces.values() if len(v) == 2 and v[0] != v[1])
    st["conforming"] = bool(nb + ni == len(faces))
    st["boundary_faces"] = nb

    # 3. vertices in the shape, potentials
    L, inr, tau = sh["L"], sh["inradius"], TAU * sh["L"]
    P = [Fraction(x) for x in res["potentials"]]
    scale = Fraction(1, 1 << k)
    n_b = n_m = 0
    for i in range(nv):
        v = [Fraction(int(VI[i, j])) * scale for j in range(3)]
        inside, boundary, medial = sh["classify"](v)
        p = P[i]
        if not inside:
            fails.append(f"vertex {i} {Vf[i].tolist()} is outside the analytic shape by more than 1e-9*L")
            break
        if p < 0:
            fails.append(f"vertex {i}: negative potential {float(p)}")
            break
        if boundary and not medial:
            n_b += 1
            if p != 0:
                fails.append(f"boundary vertex {i} {Vf[i].tolist()} has potential {float(p)} != 0")
                break
        elif medial and not boundary:
            n_m += 1
            if abs(p - inr) > tau:
                fails.append(f"medial vertex {i} {Vf[i].tolist()} has potential {float(p)!r}, inradius is {float(inr)!r}")
                break
        elif boundary and medial:      # cannot happen for inradius > 2*tau
            fails.append(f"vertex {i}: shape thinner than the tolerance")
            break
        else:
            fails.append(f"interior vertex {i} {Vf[i].tolist()} is not at inradius depth (potential {float(p)!r}, "
                         f"inradius {float(inr)!r})")
            break
    st.update(boundary_vertices=n_b, medial_vertices=n_m)
    if n_m == 0 and not fails:
        fails.append("no medial vertex")

    # 4. helpers against direct exact computation
    if "volumes" in res:
        vols = res["volumes"]
        if len(vols) != nt:
            fails.append("tetrahedral_mesh_volumes: wrong length")
        else:
            absV = np.abs(VI)
            worst = Fraction(0)
            for i in range(nt):
                m = max(int(absV[E[i, j]].max()) for j in range(4))
                tol = Fraction(m) ** 3 * unit3 / 10**12
                err = abs(Fraction(vols[i]) - Fraction(abs(int(det[i]))) * unit3 / 6)
                if err > tol:
                    fails.append(f"tetrahedral_mesh_volumes[{i}] = {vols[i]!r}, exact {float(Fraction(abs(int(det[i]))) * unit3 / 6)!r}")
                    break
                if tol > 0 and err / tol > worst:
                    worst = err / tol
            st["helper_volume_err_over_tol"] = float(worst)
        ab = np.array(res["aabbs"], dtype=float)
        if res["aabbs_shape"] != [nt, 3, 2]:
            fails.append(f"tetrahedral_mesh_aabbs: shape {res['aabbs_shape']}")
        else:
            tp = Vf[E]
            want = np.dstack((tp.min(axis=1), tp.max(axis=1)))
            if not np.array_equal(ab.reshape(nt, 3, 2), want):
                fails.append("tetrahedral_mesh_aabbs differs from min/max of the four vertices")
        com = res["com"]
        absdet = [abs(int(x)) for x in det]
        tot = sum(absdet)
        if tot > 0:
            cs = a + b + c + d
            num = [sum(int(w) * int(cs[i, j]) for i, w in enumerate(absdet)) for j in range(3)]
            exact = [Fraction(num[j], 4 * tot) * scale for j in range(3)]
            errc = max(abs(Fraction(com[j]) - exact[j]) for j in range(3))
            st["com_err"] = float(errc)
            if errc > tau:
                fails.append(f"center_of_mass_tetrahedral_mesh {com} differs from exact {[float(x) for x in exact]}")
    else:
        fails.append("helpers not evaluated")

    # 5. RigidBody.make_*
    rb = res.get("rigid_body")
    if rb is not None:
        for key in ("same_vertices", "same_tetrahedra", "same_potentials", "tetrahedra_points_ok", "tetrahedra_potentials_ok"):
            if not rb[key]:
                fails.append(f"RigidBody.make_{name}: {key} is False")
        pose = case["pose"]
        want_pose = list(pose)
        if name == "sphere":
            want_pose = [1.0, 0.0, 0.0, pose[3], 0.0, 1.0, 0.0, pose[7], 0.0, 0.0, 1.0, pose[11], 0.0, 0.0, 0.0, 1.0]
        if [float(x) for x in rb["body2origin"]] != [float(x) for x in want_pose]:
            fails.append(f"RigidBody.make_{name}: body2origin_ differs from the given pose")
        if rb["com"] != res.get("com") or rb["aabbs"] != res.get("aabbs"):
            fails.append(f"RigidBody.make_{name}: com / aabbs differ from the helpers on vertices[tetrahedra]")
        if "root_aabb" in rb:
            want = [x for j in range(3) for x in (float(Vf[:, j].min()), float(Vf[:, j].max()))]
            if [float(x) for x in rb["root_aabb"]] != want:
                fails.append(f"RigidBody.aabb() {rb['root_aabb']} != bounds of the (body frame) vertices {want}")
    # 5b. hypotheses of the universal theorems on the actual rim / ring / profile points (exact rationals):
    #     cylinder: consecutive rim points counter-clockwise, angular sectors do not overlap (C17_cylinder_volumes/_disjoint);
    #     capsule: ring counter-clockwise, cap profile rho > 0 and counter-clockwise, circle 0 above the medial point
    try:
        hyp = theorem_hypotheses(case, res)
    except Exception as e:  # noqa: BLE001
        hyp = [f"hypothesis check crashed: {type(e).__name__}: {e}"]
    if hyp:
        fails += hyp
    st["theorem_hypotheses_checked"] = name in ("cylinder", "capsule")
    # 6. histories on one RigidBody: every read agrees with a direct computation on the CURRENT vertices
    if res.get("history") is not None:
        fails += judge_history(case, res, E)
        st["history_steps"] = len(res["history"])
    out = dict(fails=fails, stats=st)
    if want_cert_data:
        out["cert"] = dict(k=k, ints=[int(x) for x in ints], sigma=sigma, total=int(T6),
                           all_positive=not bad)
    return out


def exact_com(Vflat, E):
    """exact centre of mass (Fractions) of the mesh with binary64 vertices Vflat and elements E"""
    ints, k = to_int_coords(Vflat)
    VI = obj(ints).reshape(-1, 3)
    a, b, c, d = VI[E[:, 0]], VI[E[:, 1]], VI[E[:, 2]], VI[E[:, 3]]
    det = det3_o(b - a, c - a, d - a)
    absdet = [abs(int(x)) for x in det]
    tot = sum(absdet)
    if tot == 0:
        return None
    cs = a + b + c + d
    scale = Fraction(1, 1 << k)
    return [Fraction(sum(int(w) * int(cs[i, j]) for i, w in enumerate(absdet)), 4 * tot) * scale for j in range(3)]


def judge_history(case, res, E):
    """RigidBody cache semantics: after any sequence of reads and express_in calls, com / aabbs / tetrahedra_points /
    aabb() / tetrahedra_potentials equal what a direct computation on the current vertices_ gives, the elements and
    potentials never change, and express_in keeps every vertex where it is in the world frame."""
    fails = []
    name = case["factory"]
    hist = res["history"]
    P = np.array(res["potentials"], dtype=float)
    prevV = np.array(res["vertices"], dtype=float).reshape(-1, 3)
    prevT = np.array(case["pose"], dtype=float).reshape(4, 4)
    if name == "sphere":
        T0 = np.eye(4)
        T0[:3, 3] = prevT[:3, 3]
        prevT = T0
    for k, (op, rec) in enumerate(zip(case["history"], hist)):
        where = f"RigidBody.make_{name} history step {k} ({op[0]})"
        if "exc" in rec:
            fails.append(f"{where}: raised {rec['exc']}: {rec.get('exc_msg', '')}")
            break
        V = np.array(rec["vertices"], dtype=float).reshape(-1, 3)
        T = np.array(rec["body2origin"], dtype=float).reshape(4, 4)
        if not rec["same_tetrahedra"] or not rec["same_potentials"]:
            fails.append(f"{where}: tetrahedra_ / potentials_ changed")
            break
        Lw = max(1.0, float(np.abs(prevV).max()), float(np.abs(V).max()), float(np.abs(T[:3, 3]).max()), float(np.abs(prevT[:3, 3]).max()))
        if op[0] == "express_in":
            want_T = np.array(op[1], dtype=float).reshape(4, 4)
            if not np.array_equal(T, want_T):
                fails.append(f"{where}: body2origin_ is not the requested frame")
                break
            w_old = prevV @ prevT[:3, :3].T + prevT[:3, 3]
            w_new = V @ T[:3, :3].T + T[:3, 3]
            if w_old.shape != w_new.shape or float(np.abs(w_old - w_new).max()) > 1e-9 * Lw:
                fails.append(f"{where}: vertices moved in the world frame by {float(np.abs(w_old - w_new).max()):.3e}")
                break
        else:
            if not np.array_equal(V, prevV) or not np.array_equal(T, prevT):
                fails.append(f"{where}: a read changed vertices_ / body2origin_")
                break
            val = rec.get("value", [])
            tp = V[E]
            if op[0] == "com":
                ex = exact_com(rec["vertices"], E)
                if ex is None or len(val) != 3 or max(abs(Fraction(float(val[j])) - ex[j]) for j in range(3)) > Fraction(1, 10**9) * Fraction(Lw):
                    fails.append(f"{where}: com = {val} but the centre of mass of the current tetrahedra_points is "
                                 f"{[float(x) for x in ex] if ex else None} (stale cache?)")
                    break
            elif op[0] == "aabbs":
                want = np.dstack((tp.min(axis=1), tp.max(axis=1))).reshape(-1).tolist()
                if [float(x) for x in val] != want:
                    fails.append(f"{where}: aabbs differ from min/max of the current tetrahedra_points (stale cache?)")
                    break
            elif op[0] == "tp":
                if [float(x) for x in val] != tp.reshape(-1).tolist():
                    fails.append(f"{where}: tetrahedra_points differ from vertices_[tetrahedra_] (stale cache?)")
                    break
            elif op[0] == "tpot":
                if [float(x) for x in val] != P[E].reshape(-1).tolist():
                    fails.append(f"{where}: tetrahedra_potentials differ from potentials_[tetrahedra_]")
                    break
            elif op[0] == "aabb":
                want = [x for j in range(3) for x in (float(tp[:, :, j].min()), float(tp[:, :, j].max()))]
                if [float(x) for x in val] != want:
                    fails.append(f"{where}: aabb() {val} != bounds of the current tetrahedra_points {want} (stale tree?)")
                    break
        prevV, prevT = V, T
    return fails


def _cross(p, q):
    return p[0] * q[1] - p[1] * q[0]


def theorem_hypotheses(case, res):
    name = case["factory"]
    V = res["vertices"]
    out = []
    if name == "cylinder":
        nv = len(V) // 3
        # outer vertices: 2 centres, then (bottom_i, top_i) pairs; medial vertices follow (1, 2 or 1 + n)
        zb = Fraction(V[2])
        n = 0
        while 2 + 2 * n + 1 < nv and Fraction(V[3 * (2 + 2 * n) + 2]) == zb and Fraction(V[3 * (3 + 2 * n) + 2]) == -zb:
            n += 1
        # the short class appends n medial vertices at z = 0: never confused with rim vertices (z = +-top_z != 0)
        rim = [(Fraction(V[3 * (2 + 2 * i)]), Fraction(V[3 * (2 + 2 * i) + 1])) for i in range(n)]
        if n < 3:
            return [f"cylinder: could not identify the rim vertices (n = {n})"]
        pairs = [((i - 1) % n, i) for i in range(n)]
        for (i, j) in pairs:
            if _cross(rim[i], rim[j]) <= 0:
                out.append(f"cylinder rim not counter-clockwise at sector ({i}, {j})")
                return out
        if n <= 64:
            for a in range(n):
                i, j = pairs[a]
                for b in range(a + 1, n):
                    k, l = pairs[b]
                    ok = False
                    for u in (rim[i], rim[j], rim[k], rim[l]):
                        for sg in (1, -1):
                            uu = (sg * u[0], sg * u[1])
                            if (_cross(uu, rim[i]) <= 0 and _cross(uu, rim[j]) <= 0
                                    and _cross(uu, rim[k]) >= 0 and _cross(uu, rim[l]) >= 0):
                                ok = True
                                break
                        if ok:
                            break
                    if not ok:
                        out.append(f"cylinder sectors ({i}, {j}) and ({k}, {l}) overlap (no separating line through the axis)")
                        return out
    elif name == "capsule":
        nv = len(V) // 3
        a = case["args"]
        n = int(np.clip(2.0 * np.pi * float(a["radius"]) / float(a["resolution_hint"]), 3.0, 706.0))
        nc = n // 2
        if nv != 4 + 2 * n * nc:
            return [f"capsule: {nv} vertices, expected {4 + 2 * n * nc}"]
        mtz = Fraction(V[2])

        def top(i, j):
            k = 4 + 2 * (i * n + j)
            return Fraction(V[3 * k]), Fraction(V[3 * k + 1]), Fraction(V[3 * k + 2])
        ring = [top(0, j)[:2] for j in range(n)]
        for j in range(n):
            if _cross(ring[j], ring[(j + 1) % n]) <= 0:
                return [f"capsule ring not counter-clockwise at ({j}, {(j + 1) % n})"]
        # profile along ring direction 0: rho_i^2 = x^2 + y^2 (compare squares), zeta_i = z - mtz
        prof = [(top(i, 0)[0] ** 2 + top(i, 0)[1] ** 2, top(i, 0)[2] - mtz) for i in range(nc)]
        if any(r2 <= 0 for r2, _ in prof):
            return ["capsule profile: rho = 0"]
        if prof[0][1] + mtz <= 0:
            return ["capsule profile: circle 0 not above the medial plane"]
        for i in range(nc - 1):
            (r2, z), (r2n, zn) = prof[i], prof[i + 1]
            # rho * zn - rhon * z > 0  with rho = sqrt(r2) > 0, rhon = sqrt(r2n) > 0
            lhs_pos, rhs_pos = zn >= 0, z >= 0          # sign of rho*zn and rhon*z
            A, B = r2 * zn * zn, r2n * z * z            # squares of the two products
            if lhs_pos and not rhs_pos:
                good = True
            elif not lhs_pos and rhs_pos:
                good = False
            elif lhs_pos and rhs_pos:
                good = A > B
            else:
                good = A < B
            if not good:
                return [f"capsule cap profile not counter-clockwise between circles {i} and {i + 1}"]
    return out
