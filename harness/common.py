"""Shared machinery of the distance3d verification harness.

Everything a per-property check needs: locating /repo, building the Coq
development, re-checking a property's theorem file (Print Assumptions against an
allow-list, forbidden-token grep), running the implementation in isolated worker
processes (JIT on / off), evaluating the Coq model on generated cases with
vm_compute, known findings, replay files, evidence files.
"""
import fcntl
import hashlib
import json
import os
import random
import re
import subprocess
import sys
import time
from pathlib import Path

VERIF = Path(__file__).resolve().parent.parent
REPO = Path(os.environ.get("VERIF_REPO", "/repo"))
WORK = Path(os.environ.get("VERIF_WORK", str(VERIF / "work")))   # scratch; override to run the same check twice at once
COQ = VERIF / "coq"
PY = os.environ.get("VERIF_PY", "/venv/bin/python")
NCPU = os.cpu_count() or 4

# Axioms the Coq standard library itself declares and that our theorems may use.
ALLOWED_AXIOMS = {
    "ClassicalDedekindReals.sig_forall_dec",
    "ClassicalDedekindReals.sig_not_dec",
    "FunctionalExtensionality.functional_extensionality_dep",
    "Classical_Prop.classic",
    "Eqdep.Eq_rect_eq.eq_rect_eq",
    "ProofIrrelevance.proof_irrelevance",
    "JMeq.JMeq_eq",
}
FORBIDDEN = re.compile(
    r"\b(Admitted|admit|Axiom|Axioms|Parameter|Parameters|Conjecture|Conjectures|"
    r"Admit\s+Obligations|bypass_check|Unset\s+Guard\s+Checking|"
    r"Unset\s+Positivity\s+Checking|Unset\s+Universe\s+Checking|type-in-type|"
    r"impredicative-set)\b"
)


class Violation(Exception):
    pass


# --------------------------------------------------------------------------
# Machine-wide throttle: at most NCPU heavy child processes (coqc evaluations, implementation
# workers) at a time over ALL concurrently running checks, so that several checks started at
# once queue instead of thrashing (time limits then measure work, not waiting).
# --------------------------------------------------------------------------
SLOT_DIR = Path(os.environ.get("VERIF_SLOT_DIR", "/tmp/d3verif-slots"))


class Slot:
    def __init__(self):
        self.f = None

    def __enter__(self):
        try:
            SLOT_DIR.mkdir(parents=True, exist_ok=True)
        except OSError:
            return self
        n = NCPU
        start = random.randrange(n)
        while True:
            for k in range(n):
                f = open(SLOT_DIR / f"slot_{(start + k) % n}.lock", "w")
                try:
                    fcntl.flock(f, fcntl.LOCK_EX | fcntl.LOCK_NB)
                    self.f = f
                    return self
                except OSError:
                    f.close()
            time.sleep(0.2 + random.random() * 0.3)

    def __exit__(self, *a):
        if self.f is not None:
            self.f.close()
            self.f = None


def sh(cmd, timeout=None, cwd=None, env=None, input=None):
    p = subprocess.run(
        cmd, shell=isinstance(cmd, str), cwd=cwd, env=env, input=input,
        stdout=subprocess.PIPE, stderr=subprocess.STDOUT, text=True,
        timeout=timeout,
    )
    return p.returncode, p.stdout


# --------------------------------------------------------------------------
# Coq build and property-file checking
# --------------------------------------------------------------------------

def _lock():
    WORK.mkdir(exist_ok=True)
    f = open(WORK / "coq.lock", "w")
    fcntl.flock(f, fcntl.LOCK_EX)
    return f


def gen_tables():
    """Regenerate Gen/Tables.v from /repo's current sources (fail-closed)."""
    from . import tables
    return tables.generate(REPO, COQ / "theories" / "Gen" / "Tables.v")


def coq_build(targets=None, timeout=3000):
    """Incremental full .vo build of the development (never -vos).

    Returns (ok, log).  `targets` are paths relative to coq/, e.g.
    'theories/Props/C05.vo'; None builds everything.
    """
    lock = _lock()
    try:
        sh(str(VERIF / "tools" / "coqproject.sh"), timeout=60)
        if not (COQ / "Makefile").exists() or (
            (COQ / "_CoqProject").stat().st_mtime > (COQ / "Makefile").stat().st_mtime
        ):
            rc, out = sh("coq_makefile -f _CoqProject -o Makefile", cwd=COQ, timeout=120)
            if rc != 0:
                return False, out
        tg = " ".join(targets) if targets else ""
        rc, out = sh(
            f"timeout {timeout} make -j{NCPU} COQC='timeout 900 coqc' {tg}", cwd=COQ, timeout=timeout + 30
        )
        return rc == 0, out
    finally:
        lock.close()


def coq_sources():
    return sorted((COQ / "theories").rglob("*.v"))


def forbidden_tokens():
    """grep the development for anything that would weaken the kernel's verdict."""
    hits = []
    for f in coq_sources():
        txt = f.read_text()
        # strip comments (non-nested is enough for our own sources; nested handled below)
        depth, out, i = 0, [], 0
        while i < len(txt):
            if txt.startswith("(*", i):
                depth += 1
                i += 2
            elif txt.startswith("*)", i) and depth > 0:
                depth -= 1
                i += 2
            else:
                if depth == 0:
                    out.append(txt[i])
                i += 1
        code = "".join(out)
        for m in FORBIDDEN.finditer(code):
            hits.append(f"{f.relative_to(COQ)}: {m.group(0)}")
    return hits


_THM = re.compile(r"^\s*(Theorem|Lemma|Corollary|Example|Fact|Proposition)\s+([A-Za-z0-9_']+)", re.M)


def count_obligations(files):
    """Number of named statements (Theorem/Lemma/...) in the given .v files and how
    many are closed by Qed/Defined (all of them, if the file compiled)."""
    n = 0
    names = []
    for f in files:
        p = COQ / f
        if not p.exists():
            continue
        txt = p.read_text()
        for m in _THM.finditer(txt):
            n += 1
            names.append(m.group(2))
    return n, names


def check_props_file(pid, timeout=900):
    """Re-check theories/Props/<pid>.v with coqc, collect the theorems it states and
    the axioms Print Assumptions reports under each.

    Returns dict(ok, theorems=[{name, axioms}], bad_axioms, log).
    """
    src = COQ / "theories" / "Props" / f"{pid}.v"
    outdir = WORK / pid
    outdir.mkdir(parents=True, exist_ok=True)
    if not src.exists():
        return dict(ok=False, theorems=[], bad_axioms=[], log=f"missing {src}")
    rc, out = sh(
        f"mkdir -p {outdir}/recheck && timeout {timeout} coqc -q -Q theories D3 -o {outdir}/recheck/{pid}.vo {src}",
        cwd=COQ, timeout=timeout + 30,
    )
    txt = src.read_text()
    thms = [m.group(2) for m in _THM.finditer(txt)]
    # Parse Print Assumptions blocks: either "Closed under the global context" or
    # "Axioms:\n name : type ...".  We print them in the order of the commands.
    blocks = re.split(r"(?=^Closed under the global context|^Axioms:)", out, flags=re.M)
    results = []
    for b in blocks:
        if b.startswith("Closed under the global context"):
            results.append([])
        elif b.startswith("Axioms:"):
            ax = re.findall(r"^([A-Za-z_][A-Za-z0-9_'.]*)\s*:", b[len("Axioms:"):], flags=re.M)
            results.append(ax)
    pa = re.findall(r"Print\s+Assumptions\s+([A-Za-z0-9_'.]+)\s*\.", txt)
    theorems = []
    bad = []
    for i, name in enumerate(pa):
        ax = results[i] if i < len(results) else ["<no output>"]
        theorems.append(dict(name=name, axioms=ax))
        for a in ax:
            if a not in ALLOWED_AXIOMS:
                bad.append(f"{name}: {a}")
    missing_pa = [t for t in thms if t not in pa and not t.endswith("_nonvacuous")]
    ok = rc == 0 and not bad and len(results) == len(pa)
    return dict(ok=ok, rc=rc, theorems=theorems, stated=thms, bad_axioms=bad,
                missing_print_assumptions=missing_pa, log=out[-4000:])


# --------------------------------------------------------------------------
# Running the Coq model on generated cases
# --------------------------------------------------------------------------

def coq_eval_files(pid, files, timeout=600, jobs=None):
    """Compile the given generated .v files (absolute paths under work/) in
    parallel; return {path: (rc, stdout)}."""
    from concurrent.futures import ThreadPoolExecutor
    jobs = jobs or NCPU

    def one(f):
        with Slot():
            p = subprocess.run(
                f"ulimit -s unlimited 2>/dev/null; timeout {timeout} coqc -q -Q {COQ}/theories D3 {f} > {f}.out 2>&1",
                shell=True, cwd=str(Path(f).parent))
        try:
            out = Path(f + ".out").read_text()
        except OSError:
            out = "<output file vanished: another run of the same check wiped the work directory>"
            return f, (1, out)
        return f, (p.returncode, out)

    with ThreadPoolExecutor(max_workers=jobs) as ex:
        return dict(ex.map(one, list(files)))


def coq_eval_lines(pid, header, case_exprs, tag="cases", per_file=300, timeout=900):
    """Evaluate a list of Coq expressions (each of type `string`-free printable
    value) with vm_compute, one `Eval` per case so each answer is on its own
    block.  Returns list of raw output strings (one per case) or raises.

    `header` is the Coq preamble (Require Imports, local definitions).
    Each case expression must evaluate to a term whose printed form contains no
    line starting with "     = " other than the first.
    """
    d = WORK / pid / tag
    if d.exists():
        for f in d.iterdir():
            f.unlink()
    d.mkdir(parents=True, exist_ok=True)
    files = []
    chunks = [case_exprs[i:i + per_file] for i in range(0, len(case_exprs), per_file)]
    for k, ch in enumerate(chunks):
        f = d / f"{tag}_{k}.v"
        with open(f, "w") as fh:
            fh.write(header)
            fh.write("\nSet Printing Width 1000000.\nSet Printing Depth 1000000.\n")
            for e in ch:
                fh.write(f"Eval vm_compute in ({e}).\n")
        files.append(str(f))
    res = coq_eval_files(pid, files, timeout=timeout)
    outs = []
    for k, f in enumerate(files):
        rc, out = res[f]
        if rc != 0:
            raise RuntimeError(f"coqc failed on {f} (rc={rc}):\n{out[-3000:]}")
        parts = re.split(r"^\s*= ", out, flags=re.M)[1:]
        if len(parts) != len(chunks[k]):
            raise RuntimeError(f"{f}: expected {len(chunks[k])} results, got {len(parts)}\n{out[-2000:]}")
        for p in parts:
            # strip trailing "     : type"
            idx = p.rfind("\n     : ")
            outs.append(p[:idx].strip() if idx >= 0 else p.strip())
    return outs


# --------------------------------------------------------------------------
# Running the implementation
# --------------------------------------------------------------------------

_SRC_HASH = None


def repo_source_hash():
    """Content hash of every .py file of the library under test.  numba's on-disk cache is indexed
    per DEFINING file: when only a callee's file changes, the cached machine code of its callers in
    other files (which has the old callee inlined) is still served.  A change to /repo must
    therefore never meet a cache that was filled from different sources."""
    global _SRC_HASH
    if _SRC_HASH is None:
        h = hashlib.sha256()
        root = REPO / "distance3d"
        for f in sorted(root.rglob("*.py")):
            h.update(str(f.relative_to(root)).encode())
            h.update(b"\0")
            h.update(f.read_bytes())
            h.update(b"\0")
        _SRC_HASH = h.hexdigest()[:16]
    return _SRC_HASH


def numba_cache_dir(jit=True):
    base = VERIF / "work" / ("numba_cache" if jit else "numba_cache_nojit")
    d = base / repo_source_hash()
    if not d.exists():
        d.mkdir(parents=True, exist_ok=True)
        # keep the three most recently used source states, drop older ones (disk space)
        try:
            olds = sorted((x for x in base.iterdir() if x.is_dir() and len(x.name) == 16 and x != d),
                          key=lambda x: x.stat().st_mtime, reverse=True)
            for x in olds[3:]:
                import shutil
                shutil.rmtree(x, ignore_errors=True)
        except OSError:
            pass
    else:
        try:
            os.utime(d, None)
        except OSError:
            pass
    return d


def impl_env(jit=True):
    env = dict(os.environ)
    env["PYTHONPATH"] = f"{REPO}:{VERIF}"
    env["PYTHONHASHSEED"] = "0"
    env["DISTANCE3D_VERIF"] = "1"
    env["NUMBA_CACHE_DIR"] = str(numba_cache_dir(jit))
    env["OMP_NUM_THREADS"] = "1"
    env["OPENBLAS_NUM_THREADS"] = "1"
    env["NUMBA_NUM_THREADS"] = "1"
    if jit:
        env.pop("NUMBA_DISABLE_JIT", None)
    else:
        env["NUMBA_DISABLE_JIT"] = "1"
    return env


def run_impl(pid, script, payload, timeout=900, jit=True, tag="job"):
    """Run harness/impl/<script>.py in a fresh interpreter on `payload`
    (JSON-serialisable).  Returns dict(status='ok', result=...) or
    dict(status='crash'|'timeout', rc=..., log=...).  A crash or hang of the
    implementation is an observation, not a harness failure."""
    d = WORK / pid
    d.mkdir(parents=True, exist_ok=True)
    fin = d / f"{tag}_in.json"
    fout = d / f"{tag}_out.json"
    if fout.exists():
        fout.unlink()
    fin.write_text(json.dumps(payload))
    cmd = [PY, "-m", f"harness.impl.{script}", str(fin), str(fout)]
    try:
        with Slot():
            p = subprocess.run(cmd, cwd=str(VERIF), env=impl_env(jit), stdout=subprocess.PIPE,
                               stderr=subprocess.STDOUT, text=True, timeout=timeout)
    except subprocess.TimeoutExpired as e:
        return dict(status="timeout", rc=None, log=(e.stdout or "")[-2000:] if isinstance(e.stdout, str) else "")
    if p.returncode != 0 or not fout.exists():
        return dict(status="crash", rc=p.returncode, log=p.stdout[-4000:])
    return dict(status="ok", result=json.loads(fout.read_text()), log=p.stdout[-2000:])


def run_impl_parallel(pid, script, payloads, timeout=900, jit=True, tag="job"):
    """Run several payloads in parallel worker processes."""
    from concurrent.futures import ThreadPoolExecutor
    with ThreadPoolExecutor(max_workers=min(NCPU, max(1, len(payloads)))) as ex:
        futs = [ex.submit(run_impl, pid, script, pl, timeout, jit, f"{tag}{i}")
                for i, pl in enumerate(payloads)]
        return [f.result() for f in futs]


# --------------------------------------------------------------------------
# floats <-> Coq
# --------------------------------------------------------------------------

def fhex(x):
    """A float as a Coq PrimFloat literal."""
    x = float(x)
    if x != x:
        return "nan"
    if x == float("inf"):
        return "infinity"
    if x == float("-inf"):
        return "neg_infinity"
    h = x.hex()
    if h.startswith("-"):
        return f"(-{h[1:]})"
    return h


def qlit(x):
    """A float (exactly) as a Coq Q literal `(n # d)`."""
    n, d = float(x).as_integer_ratio()
    return f"({n} # {d})" if n >= 0 else f"(({n}) # {d})"


def zlit(n):
    n = int(n)
    return f"{n}" if n >= 0 else f"({n})"


# --------------------------------------------------------------------------
# Known findings, replays, evidence
# --------------------------------------------------------------------------

def load_known(pid):
    p = VERIF / "known_findings.json"
    if not p.exists():
        return []
    return [e for e in json.loads(p.read_text())["entries"]
            if e["property"] == pid and e["status"] == "finding"]


def canon_hash(obj):
    return hashlib.sha256(json.dumps(obj, sort_keys=True, default=str).encode()).hexdigest()[:16]


class Run:
    """One execution of one property check."""

    def __init__(self, pid, level, tier, seed):
        self.pid = pid
        self.level = level
        self.tier = tier
        self.seed = seed
        self.t0 = time.time()
        self.rng = random.Random(f"{pid}:{seed}")
        self.violations = []
        self.known_hits = {}
        self.known = load_known(pid)
        self.cov = dict(samples=[], trusted_base=[], checker_cmd="", obligations=0,
                        discharged=0, evaluations=0, distinct_nontrivial=0, rule="")
        self.assumptions = []
        self.proof_broken = []   # names of theorems / files that no longer check
        self.corr_broken = []    # names of correspondences that no longer check
        self.notes = []
        (WORK / pid).mkdir(parents=True, exist_ok=True)

    # -- results ---------------------------------------------------------
    def failure(self, what, case, site=None):
        """A concrete property failure on a concrete input.  Matched against the
        known findings (by site + predicate evaluated by the caller via
        `known_id`), otherwise recorded as a violation."""
        self.violations.append(dict(what=what, case=case, site=site))

    def known_finding(self, kid, what):
        self.known_hits.setdefault(kid, what)

    def sample(self, s, limit=3):
        if len(self.cov["samples"]) < limit:
            self.cov["samples"].append(s)

    # -- proofs ----------------------------------------------------------
    def check_proofs(self, files, build_targets=None):
        """Build the development and re-check Props/<pid>.v.  Fills obligations /
        discharged / trusted base.  A broken proof is recorded, not raised."""
        t = time.time()
        changed = gen_tables()
        if build_targets is None:
            build_targets = [f"theories/Props/{self.pid}.vo"]
        ok, log = coq_build(build_targets)
        n, names = count_obligations(files)
        self.cov["obligations"] = n
        if not ok:
            m = re.findall(r'File "([^"]+)", line (\d+)', log)
            where = m[-1] if m else ("?", "?")
            self.proof_broken.append(f"coq build failed at {where[0]}:{where[1]}")
            self.cov["discharged"] = 0
            self.cov["build_log_tail"] = log[-1500:]
            return False
        r = check_props_file(self.pid)
        forb = forbidden_tokens()
        self.cov["theorems"] = r["theorems"]
        self.cov["forbidden_tokens"] = forb
        if not r["ok"]:
            self.proof_broken.append(f"Props/{self.pid}.v does not check: rc={r.get('rc')} bad_axioms={r['bad_axioms']}")
            self.cov["props_log_tail"] = r["log"][-1500:]
        if forb:
            self.proof_broken.append(f"forbidden tokens: {forb}")
        if r.get("missing_print_assumptions"):
            self.proof_broken.append(f"theorems without Print Assumptions: {r['missing_print_assumptions']}")
        self.cov["discharged"] = n if not self.proof_broken else 0
        axs = sorted({a for th in r["theorems"] for a in th["axioms"]})
        self.cov["trusted_base"] += [
            "Coq 8.16.1 kernel + vm_compute (no native_compute)",
            "axioms (Print Assumptions): " + (", ".join(axs) if axs else "none (closed under the global context)"),
        ]
        self.cov["checker_cmd"] = f"make -C coq && coqc -Q theories D3 theories/Props/{self.pid}.v  (Print Assumptions vs allow-list; forbidden-token grep)"
        if self.tier == "thorough" and not self.proof_broken:
            self.coqchk()
        self.cov["proof_wall_s"] = round(time.time() - t, 1)
        return not self.proof_broken

    def coqchk(self, timeout=1500):
        """Thorough tier: re-check Props/<pid>.vo and everything it depends on with the independent
        checker and record the axioms of the whole context (coqchk -o)."""
        t = time.time()
        with Slot():
            rc, out = sh(f"timeout {timeout} coqchk -silent -o -Q theories D3 D3.Props.{self.pid}", cwd=COQ,
                         timeout=timeout + 30)
        m = re.search(r"\* Axioms:(.*?)\n\s*\n\* Constants/Inductives relying on type-in-type:(.*?)\n\s*\n"
                      r"\* Constants/Inductives relying on unsafe \(co\)fixpoints:(.*?)\n\s*\n"
                      r"\* Inductives whose positivity is assumed:(.*?)\n", out, re.S)
        info = dict(rc=rc, wall_s=round(time.time() - t, 1))
        if m:
            axioms = [a.strip() for a in m.group(1).strip().splitlines() if a.strip() and a.strip() != "<none>"]
            info.update(axioms=axioms, type_in_type=m.group(2).strip(), unsafe_fixpoints=m.group(3).strip(),
                        assumed_positivity=m.group(4).strip())
            bad = [a for a in axioms if not any(a.endswith(x.split(".")[-1]) or x in a for x in ALLOWED_AXIOMS)
                   and not a.startswith(("Coq.Floats", "Coq.Numbers.Cyclic.Int63", "Coq.Reals"))]
            if rc != 0 or info["type_in_type"] != "<none>" or info["unsafe_fixpoints"] != "<none>" \
                    or info["assumed_positivity"] != "<none>":
                self.proof_broken.append(f"coqchk: rc={rc} {info}")
            info["axioms_outside_allow_list"] = bad
        elif rc != 0:
            # a time-out of the independent re-check is reported, not held against the property
            info["note"] = "coqchk did not finish within its time limit" if rc == 124 else out[-500:]
        self.cov["coqchk"] = info
        self.cov["trusted_base"].append("coqchk -o (independent re-check of the compiled proofs, thorough tier): "
                                        + json.dumps(info)[:600])

    # -- finish ----------------------------------------------------------
    def finish(self):
        rep_dir = VERIF / "replays"
        rep_dir.mkdir(exist_ok=True)
        lines = []
        for kid, what in self.known_hits.items():
            lines.append(f"KNOWN-FINDING: property={self.pid} {kid}: {what}")
        exit_code = 0
        nviol = 0
        seen = set()
        for v in self.violations[:5]:
            h = canon_hash(v)
            if h in seen:
                continue
            seen.add(h)
            path = rep_dir / f"{self.pid}-{h}.json"
            path.write_text(json.dumps(dict(property=self.pid, seed=self.seed, tier=self.tier, **v), indent=1, default=str))
            lines.append(f"VIOLATION property={self.pid} replay={path}")
            nviol += 1
            exit_code = 1
        nviol = max(nviol, len(self.violations))
        if not self.violations and (self.proof_broken or self.corr_broken):
            h = canon_hash([self.proof_broken, self.corr_broken])
            path = rep_dir / f"{self.pid}-broken-{h}.json"
            path.write_text(json.dumps(dict(
                property=self.pid, seed=self.seed, tier=self.tier,
                no_longer_checks=dict(theorems=self.proof_broken, correspondences=self.corr_broken),
                note="no concrete failing input was found by the targeted search",
            ), indent=1, default=str))
            lines.append(f"VIOLATION property={self.pid} replay={path} no-failing-input-found")
            nviol += 1
            exit_code = 1
        cov = dict(self.cov)
        cov["known_findings_hit"] = sorted(self.known_hits)
        cov["proof_broken"] = self.proof_broken
        cov["correspondence_broken"] = self.corr_broken
        if self.notes:
            cov["notes"] = self.notes
        ev = dict(property_id=self.pid, tier=self.tier, seed=self.seed, level=self.level,
                  coverage=cov, assumptions=self.assumptions,
                  wall_s=round(time.time() - self.t0, 2), violations=nviol)
        (VERIF / "evidence").mkdir(exist_ok=True)
        (VERIF / "evidence" / f"{self.pid}.json").write_text(json.dumps(ev, indent=1, default=str))
        for ln in lines:
            print(ln)
        print(f"[{self.pid}] tier={self.tier} seed={self.seed} evaluations={cov.get('evaluations')} "
              f"violations={nviol} known={sorted(self.known_hits)} wall={ev['wall_s']}s")
        sys.stdout.flush()
        return exit_code
