"""Shared pieces of the C03 / C04 / C13 checks: generators of shapes, poses, directions;
encoders into the Coq model's syntax (binary64 instance); exact rational geometry
(fractions.Fraction + integer square-root bounds) used as the independent property oracle.

Shapes are dictionaries:  kind in {sphere, box, cylinder, capsule, ellipsoid, cone, disk,
ellipse, hull, mesh}; poses are (R, t) with R a list of three rows; everything is a Python
float (= an exact rational).  The oracle treats every shape as the affine image  c + M.K  of
its canonical set under the EXACT float pose it was given, so no orthonormality is assumed
in the closed-form support values.
"""
import itertools
import json
import math
import re
from fractions import Fraction as Fr
from math import isqrt

from .. import common as cm

KINDS = ["sphere", "box", "cylinder", "capsule", "ellipsoid", "cone", "disk", "ellipse", "hull", "mesh"]
LATTICE = [0.25, 0.5, 1.0, 2.0, 4.0]

HEADER = """From Coq Require Import List PrimFloat.
From D3 Require Import Base.Ops Base.Vec Model.Support Model.Aabb Model.Contain Model.ShapesRun.
Import ListNotations.
Open Scope float_scope.
"""


# ------------------------------------------------------------------ linear algebra (float)
def matmul(A, B):
    return [[sum(A[i][k] * B[k][j] for k in range(3)) for j in range(3)] for i in range(3)]


def matvec(A, v):
    return [sum(A[i][k] * v[k] for k in range(3)) for i in range(3)]


def mattvec(A, v):
    return [sum(A[k][i] * v[k] for k in range(3)) for i in range(3)]


def dotf(a, b):
    return sum(x * y for x, y in zip(a, b))


def normf(a):
    return math.sqrt(dotf(a, a))


def quat_rotation(rng):
    while True:
        q = [rng.gauss(0, 1) for _ in range(4)]
        n = math.sqrt(sum(x * x for x in q))
        if n > 1e-3:
            break
    w, x, y, z = [c / n for c in q]
    return [[1 - 2 * (y * y + z * z), 2 * (x * y - z * w), 2 * (x * z + y * w)],
            [2 * (x * y + z * w), 1 - 2 * (x * x + z * z), 2 * (y * z - x * w)],
            [2 * (x * z - y * w), 2 * (y * z + x * w), 1 - 2 * (x * x + y * y)]]


def _perm_rotations():
    out = []
    for perm in itertools.permutations(range(3)):
        for signs in itertools.product([1.0, -1.0], repeat=3):
            Rm = [[0.0] * 3 for _ in range(3)]
            for i in range(3):
                Rm[i][perm[i]] = signs[i]
            det = (Rm[0][0] * (Rm[1][1] * Rm[2][2] - Rm[1][2] * Rm[2][1])
                   - Rm[0][1] * (Rm[1][0] * Rm[2][2] - Rm[1][2] * Rm[2][0])
                   + Rm[0][2] * (Rm[1][0] * Rm[2][1] - Rm[1][1] * Rm[2][0]))
            if det > 0:
                out.append(Rm)
    return out


PERM_ROTATIONS = _perm_rotations()          # the 24 proper axis permutations
assert len(PERM_ROTATIONS) == 24
_C = math.sqrt(0.5)
ROT45 = [
    [[1.0, 0.0, 0.0], [0.0, _C, -_C], [0.0, _C, _C]],
    [[_C, 0.0, _C], [0.0, 1.0, 0.0], [-_C, 0.0, _C]],
    [[_C, -_C, 0.0], [_C, _C, 0.0], [0.0, 0.0, 1.0]],
]


def is_signed_permutation(Rm):
    """exactly: entries in {0, 1, -1}, one non-zero per row and per column"""
    for i in range(3):
        if sorted(abs(x) for x in Rm[i]) != [0.0, 0.0, 1.0]:
            return False
        if sorted(abs(Rm[k][i]) for k in range(3)) != [0.0, 0.0, 1.0]:
            return False
    return True


def is_identity_pose(Rm, t):
    return all(Rm[i][j] == (1.0 if i == j else 0.0) for i in range(3) for j in range(3)) and all(x == 0.0 for x in t)


def gen_rotation(rng, stream):
    if stream == "composed":
        # product of two equal exact-45-degree factors, as produced by composing transforms in
        # floating point: entries c*c + c*c = 1.0000000000000002 (orthonormal up to 1 ulp)
        A = rng.choice(ROT45)
        Rm = matmul(matmul(A, A), rng.choice(PERM_ROTATIONS))
        return [[x + 0.0 for x in row] for row in Rm]
    if stream == "exact":
        return [[x + 0.0 for x in row] for row in rng.choice(PERM_ROTATIONS)]
    if stream == "near":
        # an axis permutation turned by a tiny angle: axes aligned with the coordinate axes up to
        # 1e-3 .. 1e-8 rad (1 - a*a ~ angle^2: thresholds like np.isclose(|a|, 1) mistake them for aligned)
        ang = rng.choice([1e-3, 3e-5, 1e-6, 1e-8])
        while True:
            u = [rng.gauss(0, 1) for _ in range(3)]
            n = normf(u)
            if n > 1e-3:
                break
        x, y, z = [c / n for c in u]
        cs, sn = math.cos(ang), math.sin(ang)
        Rs = [[cs + x * x * (1 - cs), x * y * (1 - cs) - z * sn, x * z * (1 - cs) + y * sn],
              [y * x * (1 - cs) + z * sn, cs + y * y * (1 - cs), y * z * (1 - cs) - x * sn],
              [z * x * (1 - cs) - y * sn, z * y * (1 - cs) + x * sn, cs + z * z * (1 - cs)]]
        return matmul(Rs, rng.choice(PERM_ROTATIONS))
    if stream == "lattice":
        Rm = rng.choice(PERM_ROTATIONS)
        r = rng.random()
        if r < 0.45:
            Rm = matmul(rng.choice(ROT45), Rm)       # one exact 45 degree factor: entries 0, +-1, +-sqrt(1/2)
        elif r < 0.55:
            Rm = matmul(Rm, rng.choice(ROT45))
        return [[x + 0.0 for x in row] for row in Rm]   # normalise -0.0
    return quat_rotation(rng)


def gen_size(rng, stream, lo=1e-2, hi=1e2):
    if stream in ("lattice", "composed", "exact"):
        return rng.choice([s for s in LATTICE if lo <= s <= hi])
    return 10 ** rng.uniform(math.log10(lo), math.log10(hi))


def gen_translation(rng, stream):
    if stream in ("lattice", "composed", "exact"):
        return [rng.choice([0.0, 0.0, 0.25, -0.5, 1.0, -2.0, 4.0]) for _ in range(3)]
    mag = 10 ** rng.uniform(-2, math.log10(570.0))
    return [rng.uniform(-1, 1) * mag for _ in range(3)]


def unit(v):
    n = normf(v)
    return [x / n for x in v]


def gen_cloud(rng, stream, n):
    if stream in ("lattice", "composed", "exact"):
        pts = set()
        base = rng.choice(["cube", "octa", "grid"])
        if base == "cube":
            s = rng.choice(LATTICE)
            for c in itertools.product([-s, s], repeat=3):
                pts.add(c)
        elif base == "octa":
            s = rng.choice(LATTICE)
            for i in range(3):
                for sg in (-s, s):
                    v = [0.0, 0.0, 0.0]
                    v[i] = sg
                    pts.add(tuple(v))
        else:
            while len(pts) < max(5, n):
                pts.add(tuple(rng.choice([-2.0, -1.0, -0.5, 0.0, 0.5, 1.0, 2.0]) for _ in range(3)))
        pts = [list(p) for p in sorted(pts)]
        rng.shuffle(pts)
        return pts
    s = gen_size(rng, "random", 1e-2, 50.0)
    c = gen_translation(rng, "random")
    return [[c[i] + rng.uniform(-1, 1) * s for i in range(3)] for _ in range(n)]


def gen_shape(rng, kind, stream, size_lo=1e-2, size_hi=1e2):
    """A shape in the domain D (sizes in [size_lo, size_hi], placed within 1e3 of the origin)."""
    sh = dict(kind=kind, stream=stream)
    sz = lambda: gen_size(rng, stream, size_lo, size_hi)  # noqa: E731
    if stream == "degen":
        # almost equal sizes: every size is the same number up to a relative 1e-7 .. 1e-4 (shortcuts
        # like np.allclose(radii, radii[0]) mistake such shapes for the symmetric special case)
        base = gen_size(rng, "random", max(size_lo, 0.05), min(size_hi, 20.0))

        def sz():  # noqa: E731,F811
            return base * (1.0 + rng.choice([-1.0, 1.0]) * 10 ** rng.uniform(-7, -4)) if rng.random() < 0.8 else base
    if kind == "sphere":
        sh.update(c=gen_translation(rng, stream), r=sz())
    elif kind in ("box", "cylinder", "capsule", "ellipsoid", "cone"):
        sh.update(R=gen_rotation(rng, stream), t=gen_translation(rng, stream))
        if kind == "box":
            sh.update(size=[sz(), sz(), sz()])
        elif kind == "ellipsoid":
            sh.update(radii=[sz(), sz(), sz()])
        elif kind == "cylinder":
            sh.update(r=sz(), l=sz() * (2.0 if stream == "degen" else 1.0))
        else:
            sh.update(r=sz(), h=sz() * (2.0 if stream == "degen" and kind == "capsule" else 1.0))
    elif kind == "disk":
        Rm = gen_rotation(rng, stream)
        sh.update(c=gen_translation(rng, stream), r=sz(), n=[Rm[i][2] for i in range(3)])
    elif kind == "ellipse":
        Rm = gen_rotation(rng, stream)
        sh.update(c=gen_translation(rng, stream), a0=[Rm[i][0] for i in range(3)],
                  a1=[Rm[i][1] for i in range(3)], r0=sz(), r1=sz())
    elif kind == "hull":
        sh.update(vs=gen_cloud(rng, stream, rng.choice([1, 2, 3, 4, 8, 20])))
    elif kind == "mesh":
        # vertices in the mesh frame (spread within the size domain), pose on top
        n = rng.choice([4, 5, 8, 12, 30])
        if stream in ("lattice", "composed", "exact"):
            vs = gen_cloud(rng, "lattice", n)
        else:
            s = gen_size(rng, "random", max(size_lo, 1e-2), min(size_hi, 50.0))
            vs = [[rng.uniform(-1, 1) * s for _ in range(3)] for _ in range(n)]
        sh.update(R=gen_rotation(rng, stream), t=gen_translation(rng, stream), vs=vs)
    else:
        raise ValueError(kind)
    return sh


# ------------------------------------------------------------------ pose histories (update_pose on re-used arrays)
POSE_KINDS_4X4 = ("box", "cylinder", "capsule", "ellipsoid", "cone", "mesh")    # constructor takes a 4x4 pose
POSE_KINDS = POSE_KINDS_4X4 + ("sphere", "disk", "ellipse")                      # implement update_pose(4x4)


def shape_pose_floats(sh):
    """(R rows, t) of the 4x4 pose that update_pose must be given to put the collider where `sh` is"""
    k = sh["kind"]
    if "R" in sh:
        return [list(r) for r in sh["R"]], list(sh["t"])
    if "Rfull" in sh:                      # disk / ellipse / sphere generated for a history keep their full frame
        return [list(r) for r in sh["Rfull"]], list(sh["c"])
    raise ValueError(k)


def with_pose(sh, Rm, t):
    """the same shape (sizes, vertices) at another pose; sphere / disk / ellipse take centre, normal = third
    column, axes = first two columns of the pose, as their update_pose does"""
    k = sh["kind"]
    out = {key: val for key, val in sh.items() if key not in ("history",)}
    if k in POSE_KINDS_4X4:
        out.update(R=[list(r) for r in Rm], t=list(t))
    elif k == "sphere":
        out.update(c=list(t), Rfull=[list(r) for r in Rm])
    elif k == "disk":
        out.update(c=list(t), n=[Rm[i][2] for i in range(3)], Rfull=[list(r) for r in Rm])
    elif k == "ellipse":
        out.update(c=list(t), a0=[Rm[i][0] for i in range(3)], a1=[Rm[i][1] for i in range(3)], Rfull=[list(r) for r in Rm])
    else:
        raise ValueError(k)
    return out


def cross3(a, b):
    return [a[1] * b[2] - a[2] * b[1], a[2] * b[0] - a[0] * b[2], a[0] * b[1] - a[1] * b[0]]


def frame_with_third_column(Rm, n):
    """Rm with its third column replaced by n (Disk.update_pose reads only the third column and the translation)"""
    return [[Rm[i][0], Rm[i][1], n[i]] for i in range(3)]


def gen_pose_history(rng, sh, stream):
    """A history that ends with the collider at the pose of `sh` (the case's shape): construction at another
    pose, then 1..3 update_pose calls.  What matters is which ARRAY OBJECT carries the poses:
      ctor_array : the 4x4 array handed to the constructor is overwritten in place and handed to update_pose
                   again (only kinds whose constructor takes a 4x4 pose),
      otherwise  : the first update_pose gets a new array, every later one the same array overwritten in place;
      stack      : the re-used array is one matrix of a (3, 4, 4) pose stack.
    After every step the collider is observed (the check judges each observation against the pose of that step).
    -> dict(start=., mids=[...], ctor_array=., stack=.) with poses as dict(R=rows, t=.)"""
    k = sh["kind"]
    if k not in POSE_KINDS:
        return None
    st = stream if stream in ("lattice", "exact", "near", "composed") else "random"

    def pose():
        return dict(R=gen_rotation(rng, st), t=gen_translation(rng, st))
    ctor_array = k in POSE_KINDS_4X4 and rng.random() < 0.5
    nm = rng.choice([0, 1, 1, 2]) if ctor_array else rng.choice([1, 1, 2])
    mids = [pose() for _ in range(nm)]
    if mids and rng.random() < 0.3:
        # a pure translation step, as in a simulation loop (pose[:3, 3] += v * dt)
        prev = mids[-1]
        mids.append(dict(R=[list(r) for r in prev["R"]], t=[x + rng.choice([0.25, -0.5, 1.0]) for x in prev["t"]]))
    return dict(start=pose(), mids=mids, ctor_array=ctor_array, stack=rng.random() < 0.3)


def history_stage_shapes(sh, hist):
    """shapes the collider must be equal to after construction and after every intermediate update_pose"""
    return [with_pose(sh, p["R"], p["t"]) for p in [hist["start"]] + list(hist["mids"])]


def shape_L(sh, margin=0.0):
    """L = max(1, largest feature size or centre distance)."""
    k = sh["kind"]
    feats = [1.0, margin]
    if k == "sphere":
        feats += [2 * sh["r"], normf(sh["c"])]
    elif k == "box":
        feats += list(sh["size"]) + [normf(sh["t"])]
    elif k == "ellipsoid":
        feats += [2 * x for x in sh["radii"]] + [normf(sh["t"])]
    elif k == "cylinder":
        feats += [2 * sh["r"], sh["l"], normf(sh["t"])]
    elif k in ("capsule", "cone"):
        feats += [2 * sh["r"], sh["h"], normf(sh["t"])]
        if k == "capsule":
            feats.append(sh["h"] + 2 * sh["r"])
    elif k == "disk":
        feats += [2 * sh["r"], normf(sh["c"])]
    elif k == "ellipse":
        feats += [2 * sh["r0"], 2 * sh["r1"], normf(sh["c"])]
    elif k == "hull":
        feats += [max(abs(x) for v in sh["vs"] for x in v) * 2]
    elif k == "mesh":
        feats += [max(abs(x) for v in sh["vs"] for x in v) * 2, normf(sh["t"])]
    return max(feats)


def shape_axes(sh):
    """World-frame directions attached to the shape (for directions parallel / orthogonal to them)."""
    k = sh["kind"]
    if "R" in sh:
        return [[sh["R"][i][j] for i in range(3)] for j in range(3)]
    if k == "disk":
        return [sh["n"]]
    if k == "ellipse":
        return [sh["a0"], sh["a1"]]
    return []


SIGN_VALUES = [0.0, 1.0, -1.0, 1e-300, -1e-300, 1e-9, -1e-9]
# powers of two: every product with a lattice coordinate is exact in binary64.  2^-50 and 2^-48 make
# projection differences of lattice meshes straddle the hill-climbing threshold 10 * 2^-52
POW2_VALUES = [0.0, 0.0, 1.0, -1.0, 2.0 ** -50, -(2.0 ** -50), 2.0 ** -48, -(2.0 ** -48), 2.0 ** -1000, 0.5, -2.0]


def gen_direction(rng, sh, cls):
    """cls: random | axis | sign | shape_axis | shape_orth"""
    if cls == "random":
        d = [rng.gauss(0, 1) for _ in range(3)]
        s = rng.choice([1.0, 1.0, 0.1, 3.0])
        return [x * s for x in d]
    if cls == "axis":
        d = [0.0, 0.0, 0.0]
        d[rng.randrange(3)] = rng.choice([1.0, -1.0, 2.0, -0.5])
        return d
    if cls == "sign":
        while True:
            d = [rng.choice(SIGN_VALUES) for _ in range(3)]
            if any(x != 0.0 for x in d):
                return d
    if cls == "pow2":
        while True:
            d = [rng.choice(POW2_VALUES) for _ in range(3)]
            if any(x != 0.0 for x in d):
                return d
    if cls in ("near_axis", "near_orth"):
        # almost parallel / almost orthogonal to one of the shape's own axes (relative 1e-3 .. 1e-9):
        # tolerance-based shortcuts for "aligned" directions take these for the aligned case
        axes = shape_axes(sh)
        if not axes:
            axes = [[1.0, 0.0, 0.0], [0.0, 1.0, 0.0], [0.0, 0.0, 1.0]]
        a = unit(rng.choice(axes))
        while True:
            w = [rng.gauss(0, 1) for _ in range(3)]
            dw = dotf(w, a)
            p_ = [w[i] - dw * a[i] for i in range(3)]
            if normf(p_) > 1e-3:
                p_ = unit(p_)
                break
        eps_ = 10 ** rng.uniform(-9, -3)
        sg = rng.choice([1.0, -1.0])
        if cls == "near_axis":
            return [sg * a[i] + eps_ * p_[i] for i in range(3)]
        return [p_[i] + sg * eps_ * a[i] for i in range(3)]
    if cls == "cone_switch" and sh["kind"] == "cone":
        # around the line r*|ld_xy| = h*ld_z where the answer switches between base rim and apex
        phi = rng.uniform(0, 2 * math.pi)
        f = rng.choice([0.9, 0.99, 1.01, 1.1, 1.0])
        ld = [sh["h"] * math.cos(phi), sh["h"] * math.sin(phi), sh["r"] * f]
        return matvec(sh["R"], ld)
    axes = shape_axes(sh)
    if not axes:
        return gen_direction(rng, sh, "axis")
    if cls == "shape_axis":
        a = rng.choice(axes)
        s = rng.choice([1.0, -1.0, 2.0])
        return [s * x for x in a]
    # orthogonal to one shape axis / combination of two
    if len(axes) >= 2:
        a, b = rng.sample(axes, 2)
        s, u = rng.choice([1.0, -1.0]), rng.choice([1.0, -1.0, 0.0, 0.5])
        return [s * x + u * y for x, y in zip(a, b)]
    a = axes[0]
    e = [0.0, 0.0, 0.0]
    e[rng.randrange(3)] = 1.0
    c = [a[1] * e[2] - a[2] * e[1], a[2] * e[0] - a[0] * e[2], a[0] * e[1] - a[1] * e[0]]
    if all(abs(x) < 1e-6 for x in c):
        return gen_direction(rng, sh, "axis")
    return c


# ------------------------------------------------------------------ Coq encoding
def cv(v):
    return "(V " + " ".join(cm.fhex(x) for x in v) + ")"


def cpose(Rm, t):
    return "(mkP " + " ".join(cm.fhex(x) for row in Rm for x in row) + " " + " ".join(cm.fhex(x) for x in t) + ")"


def clist(items):
    return "[" + "; ".join(items) + "]"


def cnat(n):
    return f"{int(n)}%nat"


def parse_coq_value(s):
    s = s.replace("%Z", "").replace("%float", "").replace("%nat", "")
    s = re.sub(r"\((-[0-9][0-9.e+-]*)\)", r"\1", s)
    s = s.replace("(", "[").replace(")", "]").replace(";", ",")
    s = re.sub(r"\bneg_infinity\b", "-1e999", s)
    s = re.sub(r"\binfinity\b", "1e999", s)
    s = re.sub(r"\bnan\b", "NaN", s)
    return json.loads(s)


def coq_support_expr(sh, d):
    """Coq term (list float) of the model's support point of the bare shape along d."""
    k = sh["kind"]
    D = cv(d)
    if k == "sphere":
        return f"v3l (support_sphere {D} {cv(sh['c'])} {cm.fhex(sh['r'])})"
    if k == "box":
        return f"ov3l (support_box_collider {D} {cpose(sh['R'], sh['t'])} {cv(sh['size'])})"
    if k == "cylinder":
        return f"v3l (support_cylinder {D} {cpose(sh['R'], sh['t'])} {cm.fhex(sh['r'])} {cm.fhex(sh['l'])})"
    if k == "capsule":
        return f"v3l (support_capsule {D} {cpose(sh['R'], sh['t'])} {cm.fhex(sh['r'])} {cm.fhex(sh['h'])})"
    if k == "ellipsoid":
        return f"v3l (support_ellipsoid {D} {cpose(sh['R'], sh['t'])} {cv(sh['radii'])})"
    if k == "cone":
        return f"v3l (support_cone {D} {cpose(sh['R'], sh['t'])} {cm.fhex(sh['r'])} {cm.fhex(sh['h'])})"
    if k == "disk":
        return f"v3l (support_disk {D} {cv(sh['c'])} {cm.fhex(sh['r'])} {cv(sh['n'])})"
    if k == "ellipse":
        return (f"v3l (support_ellipse {D} {cv(sh['c'])} {cv(sh['a0'])} {cv(sh['a1'])} "
                f"{cm.fhex(sh['r0'])} {cm.fhex(sh['r1'])})")
    if k == "hull":
        return f"ov3l (support_hull {D} {clist(cv(v) for v in sh['vs'])})"
    raise ValueError(k)


def coq_support_inner(sh, d):
    """Coq term of type V3 float (a default zero vector when the model returns None)."""
    k = sh["kind"]
    e = coq_support_expr(sh, d)
    if e.startswith("v3l "):
        return e[4:]
    return "(match " + e[5:] + " with Some v => v | None => V nan nan nan end)"


def coq_aabb_expr(sh):
    k = sh["kind"]
    if k == "sphere":
        return f"boxl (sphere_aabb {cv(sh['c'])} {cm.fhex(sh['r'])})"
    if k == "box":
        return f"oboxl (box_aabb {cpose(sh['R'], sh['t'])} {cv(sh['size'])})"
    if k == "cylinder":
        return f"boxl (cylinder_aabb {cpose(sh['R'], sh['t'])} {cm.fhex(sh['r'])} {cm.fhex(sh['l'])})"
    if k == "capsule":
        return f"boxl (capsule_aabb {cpose(sh['R'], sh['t'])} {cm.fhex(sh['r'])} {cm.fhex(sh['h'])})"
    if k == "ellipsoid":
        return f"boxl (ellipsoid_aabb {cpose(sh['R'], sh['t'])} {cv(sh['radii'])})"
    if k == "cone":
        return f"boxl (cone_aabb {cpose(sh['R'], sh['t'])} {cm.fhex(sh['r'])} {cm.fhex(sh['h'])})"
    if k == "disk":
        return f"boxl (disk_aabb {cv(sh['c'])} {cm.fhex(sh['r'])} {cv(sh['n'])})"
    if k == "ellipse":
        return (f"boxl (ellipse_aabb {cv(sh['c'])} {cv(sh['a0'])} {cv(sh['a1'])} "
                f"{cm.fhex(sh['r0'])} {cm.fhex(sh['r1'])})")
    if k == "hull":
        return f"oboxl (axis_aligned_bounding_box {clist(cv(v) for v in sh['vs'])})"
    if k == "mesh":
        return f"oboxl (mesh_aabb {cpose(sh['R'], sh['t'])} {clist(cv(v) for v in sh['vs'])})"
    raise ValueError(k)


# ------------------------------------------------------------------ exact rational geometry
def F(x):
    return Fr(x)


def Fv(v):
    return [Fr(x) for x in v]


def Fm(Rm):
    return [[Fr(x) for x in row] for row in Rm]


def qdot(a, b):
    return a[0] * b[0] + a[1] * b[1] + a[2] * b[2]


def qsub(a, b):
    return [a[0] - b[0], a[1] - b[1], a[2] - b[2]]


def qadd(a, b):
    return [a[0] + b[0], a[1] + b[1], a[2] + b[2]]


def qscale(s, a):
    return [s * a[0], s * a[1], s * a[2]]


def qmatvec(A, v):
    return [qdot(A[i], v) for i in range(3)]


def qmattvec(A, v):
    return [A[0][i] * v[0] + A[1][i] * v[1] + A[2][i] * v[2] for i in range(3)]


def qcross(a, b):
    return [a[1] * b[2] - a[2] * b[1], a[2] * b[0] - a[0] * b[2], a[0] * b[1] - a[1] * b[0]]


def qinv3(A):
    c0 = qcross(A[1], A[2])
    c1 = qcross(A[2], A[0])
    c2 = qcross(A[0], A[1])
    det = qdot(A[0], c0)
    if det == 0:
        raise ZeroDivisionError("singular pose")
    return [[c0[0] / det, c1[0] / det, c2[0] / det],
            [c0[1] / det, c1[1] / det, c2[1] / det],
            [c0[2] / det, c1[2] / det, c2[2] / det]]


SQRT_BITS = 160


def sqrt_bounds(q):
    """(lo, hi) rationals with lo <= sqrt(q) <= hi and hi - lo <= 2^-SQRT_BITS * max(1, sqrt q) (roughly)."""
    if q < 0:
        raise ValueError("sqrt of negative")
    if q == 0:
        return Fr(0), Fr(0)
    n, d = q.numerator, q.denominator
    # sqrt(n/d) = sqrt(n*d)/d ; scale by 4^k so that the integer root has >= SQRT_BITS bits
    m = n * d
    k = max(0, (2 * SQRT_BITS - m.bit_length()) // 2 + 1)
    r = isqrt(m << (2 * k))
    lo = Fr(r, d << k)
    hi = lo if r * r == (m << (2 * k)) else Fr(r + 1, d << k)
    return lo, hi


def shape_pose(sh):
    """(M rows, c) in exact rationals such that the shape is c + M.K."""
    k = sh["kind"]
    if k == "sphere":
        return [[Fr(1), Fr(0), Fr(0)], [Fr(0), Fr(1), Fr(0)], [Fr(0), Fr(0), Fr(1)]], Fv(sh["c"])
    if k in ("box", "cylinder", "capsule", "ellipsoid", "cone", "mesh"):
        return Fm(sh["R"]), Fv(sh["t"])
    if k == "ellipse":
        a0, a1 = Fv(sh["a0"]), Fv(sh["a1"])
        a2 = qcross(a0, a1)
        return [[a0[i], a1[i], a2[i]] for i in range(3)], Fv(sh["c"])
    raise ValueError(k)


# ---- large polytopes (ring / prism meshes with thousands of vertices): float screening, exact verdict
BIG_POLY = 200          # vertex count above which the screened evaluation is used
_BIG_CACHE = {}


def _big_arrays(sh):
    """float world vertices of a large hull / mesh (numpy), cached per shape dictionary (the cache entry
    keeps the vertex list alive and is re-validated against the pose)"""
    import numpy as np
    key = id(sh["vs"])
    pose = (repr(sh.get("R")), repr(sh.get("t")))
    ent = _BIG_CACHE.get(key)
    if ent is not None and ent[0] is sh["vs"] and ent[1] == pose:
        return ent[2]
    V = np.array(sh["vs"], dtype=float)
    if sh["kind"] == "mesh":
        W = V @ np.array(sh["R"], dtype=float).T + np.array(sh["t"], dtype=float)
    else:
        W = V
    if len(_BIG_CACHE) > 8:
        _BIG_CACHE.clear()
    _BIG_CACHE[key] = (sh["vs"], pose, W)
    return W


def world_vertex(sh, i):
    """exact world coordinates of vertex i of a hull / mesh"""
    if sh["kind"] == "hull":
        return Fv(sh["vs"][i])
    M, c = shape_pose(sh)
    return qadd(qmatvec(M, Fv(sh["vs"][i])), c)


def is_big_poly(sh):
    return sh["kind"] in ("hull", "mesh") and len(sh["vs"]) > BIG_POLY


def big_max_projection(sh, d):
    """exact max over the vertices of x.d for a large polytope: binary64 projections select the candidates
    (all vertices within 1e-9 * scale of the float maximum; the float error is below 1e-13 * scale, so the
    exact maximiser is among them), the candidates are evaluated exactly.  None when the screen is not
    applicable (tiny / huge / non-finite directions): the caller then evaluates every vertex exactly."""
    import numpy as np
    W = _big_arrays(sh)
    dd = np.array(d, dtype=float)
    md = float(np.max(np.abs(dd)))
    if not (1e-100 < md < 1e100) or not np.all(np.isfinite(W)):
        return None
    pr = W @ dd
    scale = md * (float(np.max(np.abs(W))) + 1.0) * 3.0
    cand = np.nonzero(pr >= pr.max() - 1e-9 * scale)[0]
    dq = Fv(d)
    return max(qdot(world_vertex(sh, int(i)), dq) for i in cand)


def big_nearest_vertex(sh, p):
    """exact min over the vertices of the max-norm distance to the exact point p (screened like above)"""
    import numpy as np
    W = _big_arrays(sh)
    pf = np.array([float(x) for x in p], dtype=float)
    if not (np.all(np.isfinite(pf)) and np.all(np.isfinite(W))):
        return None
    dist = np.max(np.abs(W - pf), axis=1)
    scale = float(np.max(np.abs(W))) + float(np.max(np.abs(pf))) + 1.0
    cand = np.nonzero(dist <= dist.min() + 1e-9 * scale)[0]
    return min(max(abs(a - b) for a, b in zip(p, world_vertex(sh, int(i)))) for i in cand)


def world_vertices(sh):
    if sh["kind"] == "hull":
        return [Fv(v) for v in sh["vs"]]
    M, c = shape_pose(sh)
    if sh["kind"] == "mesh":
        return [qadd(qmatvec(M, Fv(v)), c) for v in sh["vs"]]
    if sh["kind"] == "box":
        hs = [Fr(x) / 2 for x in sh["size"]]
        return [qadd(qmatvec(M, [sx * hs[0], sy * hs[1], sz * hs[2]]), c)
                for sx in (-1, 1) for sy in (-1, 1) for sz in (-1, 1)]
    raise ValueError(sh["kind"])


def support_value_bounds(sh, d, margin=0.0):
    """(lo, hi) enclosing  h_S(d) = max over the shape of x.d  (exact for polytopes)."""
    k = sh["kind"]
    d = Fv(d)
    if k in ("hull", "mesh", "box"):
        v = big_max_projection(sh, [float(x) for x in d]) if is_big_poly(sh) else None
        if v is None:
            v = max(qdot(p, d) for p in world_vertices(sh))
        lo = hi = v
    elif k == "disk":
        c, n, r = Fv(sh["c"]), Fv(sh["n"]), Fr(sh["r"])
        nn = qdot(n, n)
        dn = qdot(d, n)
        rad = qdot(d, d) - dn * dn / nn          # |d - (d.n) n/|n|^2 |^2  >= 0
        if rad < 0:
            rad = Fr(0)
        s_lo, s_hi = sqrt_bounds(rad)
        base = qdot(c, d)
        lo, hi = base + r * s_lo, base + r * s_hi
    else:
        M, c = shape_pose(sh)
        ld = qmattvec(M, d)
        base = qdot(c, d)
        if k == "sphere":
            s_lo, s_hi = sqrt_bounds(qdot(ld, ld))
            r = Fr(sh["r"])
            lo, hi = base + r * s_lo, base + r * s_hi
        elif k == "cylinder":
            r, l = Fr(sh["r"]), Fr(sh["l"])
            s_lo, s_hi = sqrt_bounds(ld[0] * ld[0] + ld[1] * ld[1])
            z = abs(ld[2]) * l / 2
            lo, hi = base + r * s_lo + z, base + r * s_hi + z
        elif k == "capsule":
            r, h = Fr(sh["r"]), Fr(sh["h"])
            s_lo, s_hi = sqrt_bounds(qdot(ld, ld))
            z = abs(ld[2]) * h / 2
            lo, hi = base + r * s_lo + z, base + r * s_hi + z
        elif k == "cone":
            r, h = Fr(sh["r"]), Fr(sh["h"])
            s_lo, s_hi = sqrt_bounds(ld[0] * ld[0] + ld[1] * ld[1])
            lo, hi = base + max(r * s_lo, h * ld[2]), base + max(r * s_hi, h * ld[2])
        elif k == "ellipsoid":
            a = Fv(sh["radii"])
            s_lo, s_hi = sqrt_bounds(sum((a[i] * ld[i]) ** 2 for i in range(3)))
            lo, hi = base + s_lo, base + s_hi
        elif k == "ellipse":
            r0, r1 = Fr(sh["r0"]), Fr(sh["r1"])
            s_lo, s_hi = sqrt_bounds((r0 * ld[0]) ** 2 + (r1 * ld[1]) ** 2)
            lo, hi = base + s_lo, base + s_hi
        else:
            raise ValueError(k)
    if margin:
        m_lo, m_hi = sqrt_bounds(qdot(d, d))
        lo, hi = lo + Fr(margin) * m_lo, hi + Fr(margin) * m_hi
    return lo, hi


def seg_dist2(k, h):
    """squared distance of local point k to the segment [-h/2, h/2] on the z axis"""
    t = min(max(k[2], -h / 2), h / 2)
    return k[0] * k[0] + k[1] * k[1] + (k[2] - t) ** 2


def in_shape_tol(sh, p, tau):
    """Is the exact point p (rationals) within about tau of the shape?  Sufficient AND
    (up to a factor ~(1+r/h) for the cone, 1/min-radius gauge scaling for ellipsoids)
    necessary; used with tau = 1e-9*L.  Returns (ok, detail)."""
    k = sh["kind"]
    tau = Fr(tau)
    if k in ("hull", "mesh", "box") and k != "box":
        best = big_nearest_vertex(sh, p) if is_big_poly(sh) else None
        if best is None:
            best = min(max(abs(a - b) for a, b in zip(p, v)) for v in world_vertices(sh))
        return best <= tau, f"max-norm distance to nearest vertex {float(best):.3e}"
    if k == "disk":
        c, n, r = Fv(sh["c"]), Fv(sh["n"]), Fr(sh["r"])
        w = qsub(p, c)
        wn = qdot(w, n)
        ok = wn * wn <= tau * tau * qdot(n, n) and qdot(w, w) <= (r + tau) ** 2
        return ok, f"plane offset {float(wn):.3e}, radial^2-r^2 {float(qdot(w, w) - r * r):.3e}"
    M, c = shape_pose(sh)
    kk = qmatvec(qinv3(M), qsub(p, c))
    if k == "sphere":
        r = Fr(sh["r"])
        return qdot(kk, kk) <= (r + tau) ** 2, f"|k|^2-r^2 = {float(qdot(kk, kk) - r * r):.3e}"
    if k == "box":
        hs = [Fr(x) / 2 for x in sh["size"]]
        ex = max(abs(kk[i]) - hs[i] for i in range(3))
        return ex <= tau, f"max excess {float(ex):.3e}"
    if k == "cylinder":
        r, l = Fr(sh["r"]), Fr(sh["l"])
        ok = kk[0] ** 2 + kk[1] ** 2 <= (r + tau) ** 2 and abs(kk[2]) <= l / 2 + tau
        return ok, f"radial^2-r^2 {float(kk[0] ** 2 + kk[1] ** 2 - r * r):.3e} z excess {float(abs(kk[2]) - l / 2):.3e}"
    if k == "capsule":
        r, h = Fr(sh["r"]), Fr(sh["h"])
        d2 = seg_dist2(kk, h)
        return d2 <= (r + tau) ** 2, f"dist^2-r^2 {float(d2 - r * r):.3e}"
    if k == "cone":
        r, h = Fr(sh["r"]), Fr(sh["h"])
        if not (-tau <= kk[2] <= h + tau):
            return False, f"z = {float(kk[2]):.6e} outside [0,h]"
        rr = max(Fr(0), r * (1 - kk[2] / h)) + tau * (1 + r / h)
        ok = kk[0] ** 2 + kk[1] ** 2 <= rr * rr
        return ok, f"radial^2 - allowed^2 {float(kk[0] ** 2 + kk[1] ** 2 - rr * rr):.3e}"
    if k == "ellipsoid":
        a = Fv(sh["radii"])
        g2 = sum((kk[i] / a[i]) ** 2 for i in range(3))
        return g2 <= (1 + tau / min(a)) ** 2, f"gauge^2-1 {float(g2 - 1):.3e}"
    if k == "ellipse":
        r0, r1 = Fr(sh["r0"]), Fr(sh["r1"])
        a2 = [M[i][2] for i in range(3)]
        off2 = kk[2] ** 2 * qdot(a2, a2)
        g2 = (kk[0] / r0) ** 2 + (kk[1] / r1) ** 2
        ok = off2 <= tau * tau and g2 <= (1 + tau / min(r0, r1)) ** 2
        return ok, f"plane offset^2 {float(off2):.3e} gauge^2-1 {float(g2 - 1):.3e}"
    raise ValueError(k)


def unit_approx(d):
    """rational vector within 2^-100 of d/|d| (d rational, non-zero)"""
    lo, hi = sqrt_bounds(qdot(d, d))
    return [x / hi for x in d]


def in_inflated_tol(sh, p, margin, d, tau):
    """p within tau of (shape + ball(margin))?  witnesses tried: b = margin*d/|d| and b = 0."""
    if not margin:
        return in_shape_tol(sh, p, tau)
    dq = Fv(d)
    cands = [[Fr(0)] * 3]
    if any(x != 0 for x in dq):
        cands.insert(0, qscale(Fr(margin), unit_approx(dq)))
    last = None
    for b in cands:
        ok, det = in_shape_tol(sh, qsub(p, b), Fr(tau))
        last = det
        if ok:
            return True, det
    return False, last


def finite(xs):
    return all(isinstance(x, (int, float)) and x == x and abs(x) != float("inf") for x in xs)


# ------------------------------------------------------------------ containment classes (C13)
def mesh_faces_exact(sh):
    """[(normal, v0, valid_as_supporting_halfspace)] of the triangles, exact, mesh frame."""
    vs = [Fv(v) for v in sh["vs"]]
    out = []
    for (i, j, k) in sh["triangles"]:
        n = qcross(qsub(vs[j], vs[i]), qsub(vs[k], vs[i]))
        valid = all(qdot(n, qsub(v, vs[i])) <= 0 for v in vs)
        out.append((n, vs[i], valid))
    return out


def contain_class(sh, p, tau, faces=None):
    """'in'  : the closed ball of radius tau around p lies in the shape (sufficient test),
       'out' : p is at distance >= tau from the shape (sufficient test),
       'band': neither could be certified.  p: exact rationals; exact arithmetic throughout."""
    k = sh["kind"]
    tau = Fr(tau) * (1 + Fr(1, 10 ** 6))      # local vs world distances differ by ~1e-16 relative
    if k == "disk":
        c, n, r = Fv(sh["c"]), Fv(sh["n"]), Fr(sh["r"])
        w = qsub(p, c)
        wn = qdot(w, n)
        if wn * wn >= tau * tau * qdot(n, n) or qdot(w, w) >= (r + tau) ** 2:
            return "out"
        return "band"
    M, c = shape_pose(sh)
    kk = qmatvec(qinv3(M), qsub(p, c))
    if k == "sphere":
        r = Fr(sh["r"])
        q = qdot(kk, kk)
        if r > tau and q <= (r - tau) ** 2:
            return "in"
        return "out" if q >= (r + tau) ** 2 else "band"
    if k == "box":
        hs = [Fr(x) / 2 for x in sh["size"]]
        if all(abs(kk[i]) <= hs[i] - tau for i in range(3)):
            return "in"
        return "out" if any(abs(kk[i]) >= hs[i] + tau for i in range(3)) else "band"
    if k == "cylinder":
        r, l = Fr(sh["r"]), Fr(sh["l"])
        rho2 = kk[0] ** 2 + kk[1] ** 2
        if r > tau and rho2 <= (r - tau) ** 2 and abs(kk[2]) <= l / 2 - tau:
            return "in"
        return "out" if (rho2 >= (r + tau) ** 2 or abs(kk[2]) >= l / 2 + tau) else "band"
    if k == "capsule":
        r, h = Fr(sh["r"]), Fr(sh["h"])
        d2 = seg_dist2(kk, h)
        if r > tau and d2 <= (r - tau) ** 2:
            return "in"
        return "out" if d2 >= (r + tau) ** 2 else "band"
    if k == "cone":
        r, h = Fr(sh["r"]), Fr(sh["h"])
        s_hi = sqrt_bounds(1 + (r / h) ** 2)[1]
        rho2 = kk[0] ** 2 + kk[1] ** 2
        allowed = r * (1 - kk[2] / h)
        if tau <= kk[2] <= h - tau and allowed - tau * s_hi >= 0 and rho2 <= (allowed - tau * s_hi) ** 2:
            return "in"
        if kk[2] <= -tau or kk[2] >= h + tau:
            return "out"
        b = allowed + tau * s_hi
        if b <= 0 or rho2 >= b * b:
            return "out"
        return "band"
    if k == "ellipsoid":
        a = Fv(sh["radii"])
        g2 = sum((kk[i] / a[i]) ** 2 for i in range(3))
        e = tau / min(a)
        if e < 1 and g2 <= (1 - e) ** 2:
            return "in"
        return "out" if g2 >= (1 + e) ** 2 else "band"
    if k == "mesh":
        faces = faces if faces is not None else mesh_faces_exact(sh)
        inside = True
        for n, v0, valid in faces:
            s = qdot(n, qsub(kk, v0))
            nn = qdot(n, n)
            if valid and s > 0 and s * s >= tau * tau * nn:
                return "out"
            if not (s < 0 and s * s >= tau * tau * nn):
                inside = False
        return "in" if inside and all(v for _, _, v in faces) else "band"
    raise ValueError(k)


# ------------------------------------------------------------------ exactly representable cases
def is_lattice_number(x, lim=64.0):
    """a multiple of 1/4 of magnitude <= lim: sums and products of a few of them are exact in binary64"""
    return abs(x) <= lim and float(x * 4.0).is_integer()


def is_pow2_or_zero(x):
    if x == 0.0:
        return True
    m, _ = math.frexp(abs(x))
    return m == 0.5


def exact_pose(sh):
    """the shape's pose is a signed permutation (or absent) with lattice translation: R^T d permutes d,
    c + R k is computed without rounding for lattice k"""
    if "R" in sh:
        return is_signed_permutation(sh["R"]) and all(is_lattice_number(x) for x in sh["t"])
    if sh["kind"] == "sphere":
        return all(is_lattice_number(x) for x in sh["c"])
    if sh["kind"] == "hull":
        return True
    if sh["kind"] == "disk":
        n = sh["n"]
        return sorted(abs(x) for x in n) == [0.0, 0.0, 1.0] and all(is_lattice_number(x) for x in sh["c"])
    if sh["kind"] == "ellipse":
        ok = all(sorted(abs(x) for x in a) == [0.0, 0.0, 1.0] for a in (sh["a0"], sh["a1"]))
        return ok and all(is_lattice_number(x) for x in sh["c"])
    return False


def exact_direction(d):
    """products with lattice numbers are exact and the 3-term sum does not depend on the order of
    evaluation (nor on fused multiply-add): at most two non-zero components, each a power of two, or
    all three of magnitude in {1/2, 1, 2}"""
    if not all(is_pow2_or_zero(x) for x in d):
        return False
    nz = [x for x in d if x != 0.0]
    return len(nz) <= 2 or all(abs(x) in (0.5, 1.0, 2.0) for x in nz)


# ------------------------------------------------------------------ Coq certificates (Checker/ShapesCert.v)
CERT_HEADER = """From Coq Require Import QArith List.
From D3 Require Import Base.Vec Checker.Shapes Checker.ShapesCert.
Import ListNotations.
"""


def to_spec(sh, margin=None):
    """the collider specification format of harness/narrow.py (shape expressions and witnesses)"""
    k = sh["kind"]

    def pose():
        Rm, t = sh["R"], sh["t"]
        return [list(Rm[0]) + [t[0]], list(Rm[1]) + [t[1]], list(Rm[2]) + [t[2]], [0.0, 0.0, 0.0, 1.0]]
    if k == "sphere":
        spec = dict(kind=k, center=list(sh["c"]), radius=sh["r"])
    elif k == "box":
        spec = dict(kind=k, pose=pose(), size=list(sh["size"]))
    elif k == "cylinder":
        spec = dict(kind=k, pose=pose(), radius=sh["r"], length=sh["l"])
    elif k in ("capsule", "cone"):
        spec = dict(kind=k, pose=pose(), radius=sh["r"], height=sh["h"])
    elif k == "ellipsoid":
        spec = dict(kind=k, pose=pose(), radii=list(sh["radii"]))
    elif k == "disk":
        spec = dict(kind=k, center=list(sh["c"]), radius=sh["r"], normal=list(sh["n"]))
    elif k == "ellipse":
        spec = dict(kind=k, center=list(sh["c"]), axes=[list(sh["a0"]), list(sh["a1"])], radii=[sh["r0"], sh["r1"]])
    elif k == "hull":
        spec = dict(kind=k, vertices=[list(v) for v in sh["vs"]])
    elif k == "mesh":
        spec = dict(kind=k, pose=pose(), vertices=[list(v) for v in sh["vs"]])
    else:
        raise ValueError(k)
    if margin:
        spec["margin"] = float(margin)
    return spec


def qlit(x):
    from .. import narrow
    return narrow._q(x)


def support_cert_expr(spec, s, d, tau):
    """membership within tau (Euclidean) and  max over the set <= s.d + tau  (absolute, as the property)"""
    from .. import narrow
    return (f"support_cert {narrow.sh_expr(spec)} {narrow.wit_expr(spec, s)} {narrow.vq(s)} {narrow.vq(d)} "
            f"{narrow._q(tau)} {narrow._q(tau)}")


def support_cert_item(var, spec, s, d, tau_lit):
    """one `support_cert` term for the shape bound to the Coq variable `var`; directions whose largest
    component is far from 1 are rescaled by an exact power of two (support_cert_scaled re-checks
    dc = c*d and proves the statement for d itself)"""
    from .. import narrow
    w = narrow.wit_expr(spec, s)
    m = max(abs(x) for x in d)
    if m != 0.0 and not (2.0 ** -30 <= m <= 2.0 ** 30):
        e = math.frexp(m)[1]
        c = Fr(2) ** (-e)
        dc = [float(Fr(x) * c) for x in d]
        if all(Fr(y) == Fr(x) * c for x, y in zip(d, dc)):
            return (f"support_cert_scaled {var} {w} {narrow.vq(s)} {narrow.vq(d)} {narrow.vq(dc)} "
                    f"{narrow._q(c)} {tau_lit}")
    return f"support_cert {var} {w} {narrow.vq(s)} {narrow.vq(d)} {tau_lit} {tau_lit}"


def member_tol_expr(spec, p, tau):
    from .. import narrow
    return f"in_shape_tolD {narrow.sh_expr(spec)} {narrow.wit_expr(spec, p)} {narrow.vq(p)} {narrow._q(tau)}"


def aabb_cert_expr(spec, lo, hi, tau):
    from .. import narrow
    ws = []
    for k in range(3):
        for sg in (-1.0, 1.0):
            e = [0.0, 0.0, 0.0]
            e[k] = sg
            ws.append(narrow.wit_expr(spec, narrow.support_point(spec, e)))
    wt = "(" + ", ".join(ws) + ")"
    return f"aabb_cert {narrow.sh_expr(spec)} {wt} {narrow.vq(lo)} {narrow.vq(hi)} {narrow._q(tau)}"


def outside_cert_expr(spec, p, n, g):
    from .. import narrow
    return f"outside_cert {narrow.sh_expr(spec)} {narrow.vq(p)} {narrow.vq(n)} {narrow._q(g)}"


def coq_bools(pid, exprs, tag="cert"):
    """evaluate checker expressions inside coqc (vm_compute); list of True / False"""
    if not exprs:
        return []
    outs = cm.coq_eval_lines(pid, CERT_HEADER, exprs, tag=tag, per_file=max(4, len(exprs) // (cm.NCPU * 2) + 1),
                             timeout=1500)
    res = []
    for o in outs:
        o = o.strip()
        if o not in ("true", "false"):
            raise RuntimeError(f"unexpected checker output {o[:200]}")
        res.append(o == "true")
    return res


REBUILD_TARGETS = ["theories/Model/ShapesRun.vo", "theories/Checker/ShapesCert.vo", "theories/Checker/ShapesMeshCone.vo"]


def _retry_inconsistent(f):
    """another agent rebuilt a shared dependency (Base/*.vo) while this check was running: the compiled
    libraries are then mutually inconsistent for a moment.  That is a build race, never a verdict:
    rebuild this check's own targets and evaluate again (up to three times)."""
    import time as _time
    last = None
    for attempt in range(4):
        try:
            return f()
        except RuntimeError as e:
            last = e
            if "inconsistent assumptions" not in str(e) and "Cannot find a physical path" not in str(e) \
                    and "is not a compiled" not in str(e):
                raise
            _time.sleep(5 + 20 * attempt)
            cm.coq_build(REBUILD_TARGETS)
    raise last


def coq_eval_lines_retry(pid, header, exprs, **kw):
    return _retry_inconsistent(lambda: cm.coq_eval_lines(pid, header, exprs, **kw))


def coq_eval_blocks(pid, header, blocks, tag="cases", per_file=8, timeout=900):
    return _retry_inconsistent(lambda: _coq_eval_blocks(pid, header, blocks, tag, per_file, timeout))


def _coq_eval_blocks(pid, header, blocks, tag="cases", per_file=8, timeout=900):
    """Like common.coq_eval_lines, but every case is a block (definitions, expression): the
    definitions (`[(name, term)]`, names local to the case; they are prefixed here) are emitted as
    Coq `Definition`s before the case's `Eval vm_compute`.  Large literals bound by `let ... in`
    inside one term make Coq's elaboration quadratic; top-level definitions do not.
    Returns the printed value of each case."""
    import re as _re
    import os as _os
    import shutil as _sh
    d = cm.WORK / pid / f"{tag}_{_os.getpid()}"      # private to this process: concurrent runs must not clobber each other
    if d.exists():
        _sh.rmtree(d, ignore_errors=True)
    d.mkdir(parents=True, exist_ok=True)
    files = []
    chunks = [blocks[i:i + per_file] for i in range(0, len(blocks), per_file)]
    for k, ch in enumerate(chunks):
        f = d / f"{tag}_{k}.v"
        with open(f, "w") as fh:
            fh.write(header)
            fh.write("\nSet Printing Width 1000000.\nSet Printing Depth 1000000.\n")
            for j, (defs, expr) in enumerate(ch):
                e = expr
                for name, term in defs:
                    full = f"c{j}_{name}"
                    fh.write(f"Definition {full} := {term}.\n")
                    e = _re.sub(r"\b" + _re.escape(name) + r"\b", full, e)
                fh.write(f"Eval vm_compute in ({e}).\n")
        files.append(str(f))
    res = cm.coq_eval_files(pid, files, timeout=timeout)
    outs = []
    for k, f in enumerate(files):
        rc, out = res[f]
        if rc != 0:
            raise RuntimeError(f"coqc failed on {f} (rc={rc}):\n{out[-3000:]}")
        parts = _re.split(r"^\s*= ", out, flags=_re.M)[1:]
        if len(parts) != len(chunks[k]):
            raise RuntimeError(f"{f}: expected {len(chunks[k])} results, got {len(parts)}\n{out[-2000:]}")
        for p in parts:
            idx = p.rfind("\n     : ")
            outs.append(p[:idx].strip() if idx >= 0 else p.strip())
    _sh.rmtree(d, ignore_errors=True)
    return outs


MY_COQ_FILES = ("Spec/Shapes.v", "Model/Support.v", "Model/Aabb.v", "Model/Contain.v", "Model/ShapesRun.v", "Proofs/ShapesTac.v",
                "Proofs/SupportA.v", "Proofs/SupportB.v", "Proofs/AabbProofs.v", "Proofs/AabbProofsB.v", "Proofs/ContainProofs.v",
                "Proofs/ContainCross.v", "Proofs/MeshClimb.v", "Proofs/MeshClimbGen.v", "Checker/ShapesCert.v", "Checker/ShapesBridge.v",
                "Checker/ShapesMeshCone.v", "Props/C03.v", "Props/C04.v", "Props/C13.v", "Base/RVec2.v")


def check_proofs_retry(R, files, build_targets):
    """R.check_proofs, repeated (up to twice, after a pause) when the BUILD failed for a reason that is
    not in this property's own files: another agent rebuilding / editing a shared library at the same
    moment (inconsistent assumptions, a file of theirs that does not compile right now).  A failure in
    one of our own files is reported at once."""
    import time as _time
    for attempt in range(3):
        R.check_proofs(files, build_targets=build_targets)
        broken = [x for x in R.proof_broken if "coq build failed" in x or "does not check" in x]
        if not broken:
            return
        log = str(R.cov.get("build_log_tail", "")) + str(R.cov.get("props_log_tail", ""))
        transient = "inconsistent assumptions" in log
        foreign = any("coq build failed" in b and not any(f in b for f in MY_COQ_FILES) for b in broken)
        if not (transient or foreign) or attempt == 2:
            return
        R.notes.append(dict(build_retry=broken[0], reason="concurrent rebuild of a shared library / failure outside this property's files"))
        for x in broken:
            R.proof_broken.remove(x)
        R.cov.pop("build_log_tail", None)
        R.cov.pop("props_log_tail", None)
        _time.sleep(40 + 40 * attempt)
