"""C01 — GJK distance query returns feasible, consistent and optimal closest points.

Decided by a Coq-proven result checker (proof-carrying results): for every generated
pair the implementation's (d, a, b) is converted to exact rationals and
`dist_cert A B wa wb a b d tau` (Checker/Narrow.v) is evaluated by vm_compute inside
coqc; its soundness theorem `dist_cert_sound` (Props/C01.v) yields, for that input,
exactly the statement of C01 (a within tau of A, b within tau of B, | |a-b| - d | <= tau,
no pair of points closer than d - tau, some pair within d + 3 tau).  A and B are the
exact shape expressions of the floats given to the constructors.  Witnesses (local
coordinates of a and b, direction b - a) are untrusted.
"""
import json
from fractions import Fraction as Fr

import numpy as np

from .. import common as cm
from .. import narrow as nw
from .. import jolt_corr as jc

PID = "C01"
PROOF_FILES = ["theories/Props/C01.v", "theories/Checker/Narrow.v", "theories/Checker/Shapes.v",
               "theories/Spec/Convex.v", "theories/Base/RVec.v", "theories/Proofs/JoltLoop.v", "theories/Proofs/JoltStall.v", "theories/Proofs/JoltStallEx.v", "theories/Proofs/JoltAffine.v", "theories/Proofs/JoltAffine2.v"]
MAX_FLOAT = 1.7976931348623157e308
CLIP = 100000.0


def make_case(rng, tier):
    if rng.random() < 0.3:
        # polytope pairs in (near) contact: these drive GJK into 3- and 4-point simplices, i.e. into
        # the triangle / tetrahedron arms of the simplex solver and the bit-set bookkeeping of the loop
        s1, s2, meta = nw.gen_pair(rng, tier, kinds=["hull", "box", "mesh"], stream="gap",
                                   gap=rng.choice([0.0, 1e-9, -1e-9, 1e-3, -1e-3, -0.1, -0.3, 0.05]), margin_prob=0.05)
        meta["stream"] = "polytope-contact"
    elif rng.random() < 0.12:
        s1, s2, meta = gen_extreme(rng)
    elif rng.random() < 0.1:
        s1, s2, meta = gen_big_default_clip(rng)
    else:
        s1, s2, meta = nw.gen_pair(rng, tier)
    kw = {}
    far = float(np.linalg.norm(nw.center_of(s1) - nw.center_of(s2))) - nw.feature_size(s1) - nw.feature_size(s2)
    if meta["stream"] == "big-default-clip":
        pass                                   # default clipping, centres closer than 300
    elif far > 250.0 or meta["stream"] == "wide":
        kw["max_distance_squared"] = 1e300     # clipping disabled (property: "or clipping disabled")
    if rng.random() < 0.15:
        # the collider is brought to its placement by update_pose (worker: harness/impl/narrow.py build)
        s1, s2 = dict(s1, via_update=True), dict(s2, via_update=True)
        meta["via_update"] = True
    return dict(c1=s1, c2=s2, ops=[dict(fn="gjk_jolt", kw=kw)], meta=meta)


def inner_point(spec):
    """A point of the collider's point set (centre of the primitive, mean of the vertices)."""
    if spec["kind"] == "mesh":
        T = np.array(spec["pose"], float)
        return T[:3, :3] @ np.array(spec["vertices"], float).mean(axis=0) + T[:3, 3]
    return nw.center_of(spec)


CURVED = ["sphere", "ellipsoid", "capsule", "cylinder", "cone", "disk", "ellipse"]


def screen_case(rng):
    k1 = rng.choice(CURVED)
    k2 = rng.choice(CURVED + ["box", "hull"])
    s1 = nw.gen_collider(rng, k1, "moderate", spread=1.5, margin_prob=0.0, sizes=None)
    s2 = nw.gen_collider(rng, k2, "moderate", spread=1.5, margin_prob=0.0, sizes=None)
    for sp in (s1, s2):
        for key in ("radius", "length", "height"):
            if key in sp:
                sp[key] = rng.uniform(0.05, 0.9)
        for key in ("radii", "size"):
            if key in sp:
                sp[key] = [rng.uniform(0.05, 0.9) for _ in sp[key]]
    if rng.random() < 0.5:
        s1, s2 = s2, s1
    meta = dict(stream="screen", kinds=[s1["kind"], s2["kind"]])
    meta["L"] = nw.scene_scale([s1, s2])
    return dict(c1=s1, c2=s2, ops=[dict(fn="gjk_jolt", kw={})], meta=meta)


def small_overlap_case(rng):
    """two small colliders (feature sizes 0.01 .. 0.03) whose centres are closer than their sizes: the query
    ends on a 3- or 4-point simplex of tiny volume (absolute thresholds in the barycentric reconstruction,
    seeded change C01-5)"""
    kinds = ["box"] * 6 + ["sphere", "capsule", "cylinder", "ellipsoid", "hull", "mesh", "cone"]
    sz = [0.01, 0.011, 0.012, 0.014, 0.016, 0.018, 0.02]
    s1 = nw.gen_collider(rng, rng.choice(kinds), "random", spread=0.3, margin_prob=0.0, sizes=sz)
    s2 = nw.gen_collider(rng, rng.choice(kinds), "random", spread=0.3, margin_prob=0.0, sizes=sz)
    off = np.array([rng.uniform(-1, 1) for _ in range(3)]) * rng.choice([0.2, 0.5, 0.9]) * 0.012
    s2 = nw.translate_spec(s2, nw.center_of(s1) - nw.center_of(s2) + off)
    meta = dict(stream="screen-small-overlap", kinds=[s1["kind"], s2["kind"]])
    meta["L"] = nw.scene_scale([s1, s2])
    return dict(c1=s1, c2=s2, ops=[dict(fn="gjk_jolt", kw={})], meta=meta)


def float_outside(spec, x):
    """float estimate (a lower bound up to rounding) of the distance of x from the collider, for the kinds
    with a closed form; None otherwise.  Selection only."""
    k = spec["kind"]
    m = float(spec.get("margin", 0.0))
    x = np.array(x, float)
    if k == "sphere":
        return float(np.linalg.norm(x - np.array(spec["center"], float))) - spec["radius"] - m
    if "pose" not in spec:
        return None
    T = np.array(spec["pose"], float)
    l = T[:3, :3].T @ (x - T[:3, 3])
    if k == "box":
        return float(np.max(np.abs(l) - 0.5 * np.array(spec["size"], float))) - m
    if k == "capsule":
        z = min(max(l[2], -0.5 * spec["height"]), 0.5 * spec["height"])
        return float(np.linalg.norm(l - np.array([0.0, 0.0, z]))) - spec["radius"] - m
    if k == "cylinder":
        return max(float(np.hypot(l[0], l[1])) - spec["radius"], abs(float(l[2])) - 0.5 * spec["length"]) - m
    if k == "ellipsoid":
        r = np.array(spec["radii"], float)
        f = float(np.linalg.norm(l / r)) - 1.0
        return 0.5 * f * float(np.min(r)) - m
    return None


def screen_suspicious(case, r, dirs):
    """float pre-test of an answer (selection only: the verdict is the Coq checker's)"""
    if "exc" in r or r.get("a") is None or r["d"] >= MAX_FLOAT * 0.99:
        return True
    a, b, d = np.array(r["a"], float), np.array(r["b"], float), float(r["d"])
    if not (np.all(np.isfinite(a)) and np.all(np.isfinite(b)) and np.isfinite(d)):
        return True
    tol = 1e-6 * case["meta"]["L"]
    if abs(float(np.linalg.norm(a - b)) - d) > tol:
        return True
    for sp, x in ((case["c1"], a), (case["c2"], b)):
        fo = float_outside(sp, x)
        if fo is not None and fo > 2.0 * tol:
            return True
        for u in dirs:
            if float(x @ u) - nw.support_value(sp, u) > tol:
                return True
    return False


def gen_big_default_clip(rng):
    """Big shapes (sizes 30..100) a moderate gap apart, DEFAULT clipping: the Minkowski difference
    extends more than sqrt(max_distance_squared) = 316 along many directions although the pair is much
    closer than that, so the early-out test must look at the sign of the support value (seeded C01-4)."""
    for _ in range(20):
        sizes = [64.0, 80.0, 100.0, 100.0, 10 ** rng.uniform(1.7, 2.0)]
        s1 = nw.gen_collider(rng, rng.choice(nw.KINDS), "random", spread=1.0, margin_prob=0.0, sizes=sizes)
        s2 = nw.gen_collider(rng, rng.choice(nw.KINDS), "random", spread=1.0, margin_prob=0.0, sizes=sizes)
        if rng.random() < 0.4:
            u = np.array([1.0, 0.0, 0.0])      # the first search direction of the loop is +x
        elif rng.random() < 0.4:
            u = np.zeros(3)
            u[rng.randrange(3)] = rng.choice([-1.0, 1.0])
        else:
            u = np.array(nw.rand_unit(rng), float)
        g = rng.choice([1.0, 10.0, 40.0, 100.0])
        shift = g + nw.support_value(s2, u) + nw.support_value(s1, -u)
        s1 = nw.translate_spec(s1, nw.center_of(s2) - nw.center_of(s1) + shift * u)
        if float(np.linalg.norm(nw.center_of(s1) - nw.center_of(s2))) < 300.0:
            break
    meta = dict(stream="big-default-clip", kinds=[s1["kind"], s2["kind"]])
    meta["L"] = nw.scene_scale([s1, s2])
    return s1, s2, meta


def gen_extreme(rng):
    """Two input classes inside the declared domain that drive the Jolt simplex solver into thin
    simplices (found by the C12/C20 and C09 checks): (a) flat / needle primitives (size ratio up to
    100), (b) a small smooth collider in front of the interior of a face of a big hull."""
    import math
    if rng.random() < 0.5:
        k1 = rng.choice(["ellipsoid", "ellipsoid", "box", "cylinder", "capsule", "ellipse"])
        s1 = nw.gen_collider(rng, k1, "random", spread=2.0, margin_prob=0.0)
        big, small = 10 ** rng.uniform(0, 0.7), 10 ** rng.uniform(-1.7, -1.0)
        if k1 == "ellipsoid":
            s1["radii"] = rng.sample([big, small, 10 ** rng.uniform(-1, 0.5)], 3)
        elif k1 == "box":
            s1["size"] = rng.sample([big, small, 10 ** rng.uniform(-1, 0.5)], 3)
        elif k1 == "cylinder":
            s1["radius"], s1["length"] = rng.sample([big, small], 2)
        elif k1 == "capsule":
            s1["radius"], s1["height"] = small, big
        else:
            s1["radii"] = [big, small]
        s2 = nw.gen_collider(rng, rng.choice(nw.KINDS), "moderate", spread=3.0, margin_prob=0.05)
        stream = "flat-needle"
    else:
        s2 = nw.gen_collider(rng, rng.choice(["hull", "mesh"]), "random", spread=1.0, margin_prob=0.0)
        V = np.array(s2["vertices"], float)
        V *= (10 ** rng.uniform(0.8, 1.6)) / max(1e-9, float(np.max(np.linalg.norm(V - V.mean(axis=0), axis=1))))
        s2["vertices"] = V.tolist()
        s1 = nw.gen_collider(rng, rng.choice(["sphere", "cylinder", "cone", "capsule", "ellipse", "disk", "ellipsoid"]),
                             "moderate", spread=0.5, margin_prob=0.0)
        for key in ("radius", "length", "height"):
            if key in s1:
                s1[key] = 10 ** rng.uniform(-1.5, -0.3)
        if "radii" in s1:
            s1["radii"] = [10 ** rng.uniform(-1.5, -0.3) for _ in s1["radii"]]
        u = nw.rand_unit(rng)
        g = rng.choice([0.5, 1.0, 3.0, 9.0])
        shift = g + nw.support_value(s2, u) + nw.support_value(s1, -u)
        s1 = nw.translate_spec(s1, (nw.center_of(s2) - nw.center_of(s1)) * 0 + shift * u)
        stream = "small-vs-big-face"
    meta = dict(stream=stream, kinds=[s1["kind"], s2["kind"]])
    meta["L"] = nw.scene_scale([s1, s2])
    return s1, s2, meta


def cert_expr(case, r):
    s1, s2, L = case["c1"], case["c2"], case["meta"]["L"]
    tau = Fr(1e-5) * Fr(L)
    a, b, d = r["a"], r["b"], r["d"]
    A, B = nw.sh_expr(s1), nw.sh_expr(s2)
    wa, wb = nw.wit_expr(s1, a), nw.wit_expr(s2, b)
    return f"dist_cert {A} {B} {wa} {wb} {nw.vq(a)} {nw.vq(b)} {nw._q(d)} {nw._q(tau)}"


def explain(case, r):
    """break a rejected certificate into its parts (for the replay file)"""
    s1, s2, L = case["c1"], case["c2"], case["meta"]["L"]
    tau = Fr(1e-5) * Fr(L)
    a, b, d = r["a"], r["b"], r["d"]
    A, B = nw.sh_expr(s1), nw.sh_expr(s2)
    wa, wb = nw.wit_expr(s1, a), nw.wit_expr(s2, b)
    ex = [f"in_shape_tol {A} {wa} {nw.vq(a)} {nw._q(tau)}",
          f"in_shape_tol {B} {wb} {nw.vq(b)} {nw._q(tau)}",
          f"Narrow.len_ok {nw.vq(a)} {nw.vq(b)} {nw._q(d)} {nw._q(tau)}",
          f"orb (Qle_bool {nw._q(d)} {nw._q(tau)}) (sep_cert {A} {B} (qsub {nw.vq(b)} {nw.vq(a)}) ({nw._q(d)} - {nw._q(tau)}))"]
    hdr = nw.COQ_HEADER + "From D3 Require Import Checker.Narrow.\n"
    outs = cm.coq_eval_lines(PID, hdr, ex, tag="explain", per_file=4)
    return dict(a_in_A=outs[0], b_in_B=outs[1], length_consistent=outs[2], separated_by_d_minus_tau=outs[3])


def run(tier, seed, replay=None):
    R = cm.Run(PID, "translation_validation", tier, seed)
    R.cov["rule"] = ("case = ordered pair of colliders (10 kinds, optional Margin) from streams random / lattice "
                     "(axis permutations, 45 deg, sizes and offsets from {1/4,1/2,1,2,4}, identical objects) / wide "
                     "(sizes 1e-2..1e2, positions to 500, clipping disabled) / constructed at a prescribed plane gap "
                     "or penetration in {0, +-1e-9, +-1e-6, +-1e-3, +-0.1, +-1, 10, 100}; distinct by canonical hash; "
                     "non-trivial = result not clipped and certificate evaluated")
    R.assumptions += [
        "the verdict per input is a Coq theorem (dist_cert_sound) applied to the implementation's output; universality over inputs comes from generation",
        "witnesses (local coordinates of the returned points, direction b-a) are computed in floating point by the harness and are untrusted",
        "a collider's point set is the exact shape expression of the floats handed to its constructor (disk: plane basis computed by the harness from the normal); harness/narrow.py parts() is trusted for that translation",
    ]
    R.check_proofs(PROOF_FILES, build_targets=["theories/Props/C01.vo", "theories/Model/JoltLoopRun.vo",
                                               "theories/Checker/Narrow.vo"])
    cases = []
    corpus = cm.VERIF / "corpus" / PID
    if replay:
        cases.append(json.loads(open(replay).read())["case"])
    else:
        if corpus.exists():
            for f in sorted(corpus.glob("*.json")):
                cases.append(json.loads(f.read_text())["case"])
        n = 480 if tier == "quick" else 4000
        for _ in range(n):
            cases.append(make_case(R.rng, tier))
    results = nw.run_cases(PID, cases)
    if not replay:
        # Screening stream: many more unit-scale pairs of curved colliders are only RUN; a float test
        # (|a-b| against d, support-plane distance of a and b to their colliders over 60 directions)
        # selects the suspicious answers, and only those are submitted to the Coq checker below.  This
        # reaches rare arms of the closest-point reconstruction (sliver final simplices, ~0.2 % of
        # pairs) that a few hundred certified cases do not (seeded change C01-3).
        ns = 4000 if tier == "quick" else 30000
        scr = [screen_case(R.rng) for _ in range(ns)] + [small_overlap_case(R.rng) for _ in range(ns)]
        sres = nw.run_cases(PID, scr, tag="screen")
        dirs = [np.array(nw.rand_unit(R.rng), float) for _ in range(60)]
        picked = 0
        for c, rr in zip(scr, sres):
            if screen_suspicious(c, rr[0], dirs) and picked < 40:
                picked += 1
                c["meta"]["stream"] = "screen-suspicious"
                cases.append(c)
                results.append(rr)
        R.cov["screened_only_by_float_test"] = len(scr) - picked
        R.cov["screen_suspicious_submitted_to_checker"] = picked
    R.cov["evaluations"] = len(cases)
    exprs, idx = [], []
    clipped = 0
    hist = {}
    for i, (c, rr) in enumerate(zip(cases, results)):
        r = rr[0]
        key = "-".join(c["meta"].get("kinds", ["?", "?"]))
        hist[c["meta"].get("stream", "corpus")] = hist.get(c["meta"].get("stream", "corpus"), 0) + 1
        if "exc" in r:
            R.failure(f"gjk_distance_jolt raised {r['exc']}: {r.get('exc_msg', '')}", c, site="gjk_distance_jolt")
            continue
        if r["d"] >= MAX_FLOAT * 0.99 or r["a"] is None:
            clipped += 1
            kw = c["ops"][0].get("kw", {})
            if kw.get("max_distance_squared", CLIP) > 1e200:
                R.failure("clipped although clipping was disabled", c, site="gjk_distance_jolt")
                continue
            # two points of the colliders closer than 316 mean: not beyond the clip distance
            if float(np.linalg.norm(inner_point(c["c1"]) - inner_point(c["c2"]))) < 316.0:
                R.failure("result clipped (MAX_FLOAT) although two points of the colliders are closer than "
                          "sqrt(max_distance_squared)", c, site="gjk_distance_jolt")
                continue
            # must really be farther than sqrt(max_distance_squared): certify with the centre direction
            nvec = (nw.center_of(c["c2"]) - nw.center_of(c["c1"])).tolist()
            g = Fr(CLIP) ** 1  # compare squares: dist >= 316.2 -> use 316
            exprs.append(f"sep_cert {nw.sh_expr(c['c1'])} {nw.sh_expr(c['c2'])} {nw.vq(nvec)} {nw._q(Fr(316))}")
            idx.append((i, "clip"))
            continue
        if not all(np.isfinite(r["a"])) or not all(np.isfinite(r["b"])) or not np.isfinite(r["d"]):
            R.failure("non-finite result", c, site="gjk_distance_jolt")
            continue
        exprs.append(cert_expr(c, r))
        idx.append((i, "dist"))
    hdr_ok = True
    try:
        verdicts = cm.coq_eval_lines(PID, nw.COQ_HEADER + "From D3 Require Import Checker.Narrow.\n", exprs,
                                     tag="cert", per_file=24, timeout=1500)
    except RuntimeError as e:
        R.proof_broken.append(f"checker evaluation failed: {str(e)[:400]}")
        verdicts = []
        hdr_ok = False
    distinct = set()
    rejected = 0
    for (i, kind), v in zip(idx, verdicts):
        c, r = cases[i], results[i][0]
        if v.strip() == "true":
            if kind == "dist":
                distinct.add(cm.canon_hash(c))
            continue
        rejected += 1
        if kind == "clip":
            R.failure("result clipped (MAX_FLOAT) but the pair is not certified farther than sqrt(max_distance_squared)", c,
                      site="gjk_distance_jolt")
        else:
            try:
                why = explain(c, r)
            except Exception as e:  # noqa
                why = dict(error=str(e)[:200])
            kid = known_solver_class(c, R)
            if kid is not None and any(k["id"] == "F-J2" for k in R.known):
                R.known_finding("F-J2", next(k["what"] for k in R.known if k["id"] == "F-J2") + f" [this run: {kid}]")
                R.cov["failures_matching_known_findings"] = R.cov.get("failures_matching_known_findings", 0) + 1
            else:
                R.failure(f"dist_cert rejected the result d={r['d']!r}: {why}", dict(c, result=r), site="gjk_distance_jolt")
    R.cov["programs"] = len(idx)
    R.cov["disagreements_checked"] = rejected
    R.cov["distinct_nontrivial"] = len(distinct)
    R.cov["clipped_results"] = clipped
    R.cov["input_histogram"] = hist
    for c, rr in list(zip(cases, results))[:3]:
        R.sample(dict(c1=c["c1"], c2=c["c2"], meta=c["meta"], result={k: rr[0].get(k) for k in ("d", "a", "b", "support_calls")}))
    loop_correspondence(R, cases, tier)
    if (R.corr_broken or R.proof_broken) and not R.violations and not replay:
        targeted_search(R, tier)
    return R.finish()


def known_solver_class(case, R):
    """Is a rejected distance answer explained by the recorded defect classes of the Jolt simplex
    solver (known findings C18-JOLT-ILLCOND / C18-JOLT-EPS-ABS)?  The simplices the solver saw are
    recovered by replaying the recorded support trace through Model/JoltLoop.v; for every iteration
    the solver's actual output (minus the next search direction of the implementation) is compared
    with the exact minimum-norm point (exact rationals) and classified by C18's own predicates.
    Returns a description of the first iteration that is both wrong beyond 1e-9 relative and inside
    a recorded class, else None."""
    from . import c18 as C18
    try:
        tc, out, _ = run_traces([case])
        if not out:
            return None
        o = out[0]["distance"]
        n = min(len(o["p"]), len(o["q"]))
        kw = case["ops"][0].get("kw", {})
        tr = jc._trace(o["p"][:n], o["q"][:n])
        ex = f"jolt_replay_y {cm.fhex(kw.get('tolerance', 1e-10))} {cm.fhex(kw.get('max_distance_squared', 100000.0))} {tr}"
        val = jc.parse(cm.coq_eval_lines(PID, jc.HEADER, [ex], tag="simplices", per_file=1)[0])
    except Exception as e:  # noqa
        R.notes.append(f"known_solver_class could not be evaluated: {str(e)[:200]}")
        return None
    dirs = o["dirs"]
    for i, Y in enumerate(val):
        if len(Y) < 3 or i + 1 >= len(dirs):
            continue
        v = [-x for x in dirs[i + 1]]
        try:
            _, _, q = C18.oracle(Y)
        except Exception:  # noqa
            continue
        nq = float(sum(x * x for x in q)) ** 0.5
        nv = sum(x * x for x in v) ** 0.5
        M = max(abs(x) for p in Y for x in p)
        err_rel = abs(nv - nq) / max(1.0, M)
        if err_rel <= 1e-9:
            continue
        ids, _ = C18.classify("jolt", "real:gjk-trace", Y, err_rel)
        if ids:
            return f"iteration {i}: solver returned |v| = {nv!r} for a {len(Y)}-point simplex whose minimum norm is {nq!r} ({'/'.join(ids)})"
    return None


def run_traces(cases):
    tc = [dict(c1=c["c1"], c2=c["c2"], fns=["distance"], kw=c["ops"][0].get("kw", {}), meta=c["meta"]) for c in cases]
    nwk = min(cm.NCPU, max(1, len(tc) // 6))
    chunks = [tc[i::nwk] for i in range(nwk)]
    res = cm.run_impl_parallel(PID, "jolttrace", [dict(cases=ch) for ch in chunks], timeout=1500, tag="trace")
    out = [None] * len(tc)
    for w, (rr, ch) in enumerate(zip(res, chunks)):
        if rr["status"] != "ok":
            continue
        for i, x in zip(range(w, len(tc), nwk), rr["result"]["results"]):
            out[i] = x
    keep = [(c, o) for c, o in zip(tc, out) if o is not None]
    return [k[0] for k in keep], [k[1] for k in keep], len(tc) - len(keep)


def loop_correspondence(R, cases, tier):
    """Model/JoltLoop.v (binary64, inside coqc) replays the support points the implementation
    obtained, iteration by iteration: search directions, iteration count, exit and (d, a, b)
    must agree (harness/jolt_corr.py)."""
    try:
        tc, out, lost = run_traces(cases)
        stats, mism = jc.compare(PID, tc, out, R.rng, lambda c: c["meta"]["L"])
    except RuntimeError as e:
        R.corr_broken.append(f"Jolt loop model could not be evaluated: {str(e)[:300]}")
        return
    stats["worker_lost"] = lost
    R.cov["loop_correspondence"] = stats
    R.cov["traces_validated_against_impl"] = stats.get("matched", 0)
    if mism:
        # second look with more perturbations before holding a difference against anyone
        sub = sorted({m[0] for m in mism})
        st2, mism2 = jc.compare(PID, [tc[i] for i in sub], [out[i] for i in sub], R.rng,
                                lambda c: c["meta"]["L"], tag="joltcorr2", npert=24)
        R.cov["loop_correspondence_second_look"] = st2
        R.cov["loop_first_look_differences"] = [f"{fn}: {why[:400]}" for (_, fn, why) in mism[:5]]
        # third look, for differences in the EXIT DECISION only (the model stops one iteration earlier or later than the
        # implementation, or would go on where it stopped): the relative-progress test `prev - v_len_sq <= eps * prev` compares
        # at one ulp, and on an ill-conditioned final simplex the closest point amplifies a single differently rounded dot
        # product (BLAS) to tens of ulps of v_len_sq.  Such a difference is excused only if the model's own exit flips under
        # perturbations of 1e-14 / 1e-13 of the trace; the implementation's (d, a, b) of these inputs is judged by dist_cert
        # like every other result.  (False alarm of the thorough tier, seed 0: tetrahedron mesh against a 0.3 x 9.2 x 0.46
        # ellipsoid, 24 iterations.)
        exit_only = [k for k, (j, fn, why) in enumerate(mism2) if why.startswith("model stops after") and "search direction" not in why and _exit_off_by_one(why)]
        if exit_only:
            sub3 = [sub[mism2[k][0]] for k in exit_only]
            st3, mism3 = jc.compare(PID, [tc[i] for i in sub3], [out[i] for i in sub3], R.rng,
                                    lambda c: c["meta"]["L"], tag="joltcorr3", npert=24, mags=(1e-14, 1e-13))
            R.cov["loop_correspondence_third_look_exit_decisions"] = st3
            still = {sub3[j] for (j, fn, why) in mism3}
            mism2 = [m for k, m in enumerate(mism2) if k not in exit_only or sub[m[0]] in still]
        for (j, fn, why) in mism2[:5]:
            c = tc[sub[j]]
            R.corr_broken.append(f"Model/JoltLoop.v vs gjk_distance_jolt ({fn}): {why[:600]} on c1={json.dumps(c['c1'])} c2={json.dumps(c['c2'])}")


def _exit_off_by_one(why):
    import re
    m = re.match(r"model stops after (\d+) iterations \(code (-?\d+)\), implementation made (\d+)", why)
    return bool(m) and abs(int(m.group(1)) - int(m.group(3))) <= 1


def targeted_search(R, tier):
    """A proof or the correspondence no longer checks: look harder for a concrete input on which
    the property itself fails (judged by dist_cert), so that the replay is a failing input."""
    n = 1500 if tier == "quick" else 6000
    cases = [make_case(R.rng, tier) for _ in range(n)]
    results = nw.run_cases(PID, cases, tag="search")
    exprs, idx = [], []
    for i, (c, rr) in enumerate(zip(cases, results)):
        r = rr[0]
        if "exc" in r:
            R.failure(f"gjk_distance_jolt raised {r['exc']}: {r.get('exc_msg', '')}", c, site="gjk_distance_jolt")
            continue
        if r["d"] >= MAX_FLOAT * 0.99 or r["a"] is None:
            continue
        if not (all(np.isfinite(r["a"])) and all(np.isfinite(r["b"])) and np.isfinite(r["d"])):
            R.failure("non-finite result", c, site="gjk_distance_jolt")
            continue
        exprs.append(cert_expr(c, r))
        idx.append(i)
    try:
        verdicts = cm.coq_eval_lines(PID, nw.COQ_HEADER + "From D3 Require Import Checker.Narrow.\n", exprs,
                                     tag="searchcert", per_file=24, timeout=1500)
    except RuntimeError:
        verdicts = []
    for i, v in zip(idx, verdicts):
        if v.strip() != "true":
            R.failure(f"dist_cert rejected the result d={results[i][0]['d']!r} (found by the targeted search)",
                      dict(cases[i], result=results[i][0]), site="gjk_distance_jolt")
    R.cov["targeted_search_cases"] = n
