"""C13 — Point containment predicates agree with the shapes and the distance functions.

Proofs: coq/theories/Proofs/ContainProofs.v, statements in Props/C13.v (model: Model/Contain.v).
Tie to the code: containment_test.points_in_* is run on batches of points in worker processes
and the Coq model (binary64 instance, per point) inside coqc; answers must be equal wherever
the exact oracle certifies a margin of 1e-9*L.
Property oracle (independent of the model): exact rational arithmetic (fractions.Fraction): a
point is classified 'in' (ball of radius tau around it inside the shape), 'out' (distance to
the shape >= tau) or 'band' by sufficient tests in exact local coordinates of the exact float
pose; the predicate must be True on 'in', False on 'out'.  Cross-agreement with the library's
own point_to_<shape> distances (cylinder, disk, box, ellipsoid) and with the colliders' support
functions is checked on the implementation's answers.
"""
import json
import math

from .. import common as cm
from . import shapes_common as sc
from .shapes_common import Fr

PID = "C13"
PROOF_FILES = ["theories/Props/C13.v", "theories/Proofs/ContainProofs.v", "theories/Proofs/ContainCross.v", "theories/Spec/Shapes.v",
               "theories/Base/RVec2.v", "theories/Checker/ShapesCert.v"]
TRACE_SCOPE = {"containment_test.py": ["points_in_sphere", "points_in_capsule", "points_in_ellipsoid", "points_in_disk",
                                       "points_in_cone", "points_in_cylinder", "points_in_box", "points_in_convex_mesh"]}
EPS = 2.0 ** -52
KINDS = ["sphere", "capsule", "ellipsoid", "disk", "cone", "cylinder", "box", "mesh"]
PUSH = [1.5, 4.0, 100.0, 1e4]


# ---------------------------------------------------------------- generation
def frame(sh):
    """float (M rows, c) mapping local to world; for the disk a frame built from the normal"""
    k = sh["kind"]
    if k == "sphere":
        return [[1.0, 0.0, 0.0], [0.0, 1.0, 0.0], [0.0, 0.0, 1.0]], sh["c"]
    if k == "disk":
        n = sh["n"]
        a = [1.0, 0.0, 0.0] if abs(n[0]) < 0.9 else [0.0, 1.0, 0.0]
        x = sc.unit([a[1] * n[2] - a[2] * n[1], a[2] * n[0] - a[0] * n[2], a[0] * n[1] - a[1] * n[0]])
        y = [n[1] * x[2] - n[2] * x[1], n[2] * x[0] - n[0] * x[2], n[0] * x[1] - n[1] * x[0]]
        return [[x[i], y[i], n[i]] for i in range(3)], sh["c"]
    return sh["R"], sh["t"]


def to_world(sh, k):
    M, c = frame(sh)
    v = sc.matvec(M, k)
    return [v[i] + c[i] for i in range(3)]


def rand_unit(rng):
    while True:
        v = [rng.gauss(0, 1) for _ in range(3)]
        n = sc.normf(v)
        if n > 1e-6:
            return [x / n for x in v]


def extent(sh):
    k = sh["kind"]
    if k == "sphere":
        return [sh["r"]] * 3
    if k == "box":
        return [x / 2 for x in sh["size"]]
    if k == "cylinder":
        return [sh["r"], sh["r"], sh["l"] / 2]
    if k == "capsule":
        return [sh["r"], sh["r"], sh["h"] / 2 + sh["r"]]
    if k == "cone":
        return [sh["r"], sh["r"], sh["h"]]
    if k == "ellipsoid":
        return list(sh["radii"])
    if k == "disk":
        return [sh["r"], sh["r"], sh["r"] * 0.1]
    if k == "mesh":
        m = max(abs(x) for v in sh["vs"] for x in v)
        return [m, m, m]
    raise ValueError(k)


def boundary_point(rng, sh):
    """(local boundary point, local outward unit normal) of a random smooth boundary location"""
    k = sh["kind"]
    phi = rng.uniform(0, 2 * math.pi)
    cs, sn = math.cos(phi), math.sin(phi)
    if k == "sphere":
        u = rand_unit(rng)
        return [sh["r"] * x for x in u], u
    if k == "box":
        hs = [x / 2 for x in sh["size"]]
        i = rng.randrange(3)
        sg = rng.choice([-1.0, 1.0])
        b = [rng.uniform(-0.95, 0.95) * h for h in hs]
        b[i] = sg * hs[i]
        n = [0.0, 0.0, 0.0]
        n[i] = sg
        return b, n
    if k == "cylinder":
        r, l = sh["r"], sh["l"]
        if rng.random() < 0.5:
            return [r * cs, r * sn, rng.uniform(-0.45, 0.45) * l], [cs, sn, 0.0]
        sg = rng.choice([-1.0, 1.0])
        rho = rng.uniform(0, 0.95) * r
        return [rho * cs, rho * sn, sg * l / 2], [0.0, 0.0, sg]
    if k == "capsule":
        r, h = sh["r"], sh["h"]
        if rng.random() < 0.5:
            return [r * cs, r * sn, rng.uniform(-0.45, 0.45) * h], [cs, sn, 0.0]
        u = rand_unit(rng)
        sg = 1.0 if u[2] >= 0 else -1.0
        return [r * u[0], r * u[1], r * u[2] + sg * h / 2], u
    if k == "cone":
        r, h = sh["r"], sh["h"]
        if rng.random() < 0.4:
            rho = rng.uniform(0, 0.95) * r
            return [rho * cs, rho * sn, 0.0], [0.0, 0.0, -1.0]
        z = rng.uniform(0.05, 0.95) * h
        rho = r * (1 - z / h)
        nn = math.hypot(h, r)
        return [rho * cs, rho * sn, z], [cs * h / nn, sn * h / nn, r / nn]
    if k == "ellipsoid":
        a = sh["radii"]
        u = rand_unit(rng)
        n = sc.unit([u[i] / a[i] for i in range(3)])
        return [a[i] * u[i] for i in range(3)], n
    if k == "disk":
        r = sh["r"]
        if rng.random() < 0.5:
            return [r * cs, r * sn, 0.0], [cs, sn, 0.0]
        rho = rng.uniform(0, 0.95) * r
        return [rho * cs, rho * sn, 0.0], [0.0, 0.0, rng.choice([-1.0, 1.0])]
    if k == "mesh":
        vs = sh["vs"]
        t = rng.choice(sh["triangles"])
        w = [rng.uniform(0.05, 1) for _ in range(3)]
        s = sum(w)
        w = [x / s for x in w]
        b = [sum(w[q] * vs[t[q]][i] for q in range(3)) for i in range(3)]
        e1 = [vs[t[1]][i] - vs[t[0]][i] for i in range(3)]
        e2 = [vs[t[2]][i] - vs[t[0]][i] for i in range(3)]
        n = [e1[1] * e2[2] - e1[2] * e2[1], e1[2] * e2[0] - e1[0] * e2[2], e1[0] * e2[1] - e1[1] * e2[0]]
        return b, sc.unit(n)
    raise ValueError(k)


def feature_points(sh):
    """local coordinates of exact features: centre, axis points, apex / rim / corners"""
    k = sh["kind"]
    e = extent(sh)
    pts = [[0.0, 0.0, 0.0]]
    if k == "box":
        pts += [[sx * e[0], sy * e[1], sz * e[2]] for sx in (-1, 1) for sy in (-1, 1) for sz in (-1, 0, 1)]
    elif k in ("cylinder",):
        pts += [[0, 0, e[2]], [0, 0, -e[2]], [e[0], 0, e[2]], [0, -e[0], -e[2]], [e[0], 0, 0], [0, 0, 2 * e[2]],
                [e[0], e[0], 0], [e[0] / 2, 0, -1.5 * e[2]], [1.5 * e[0], 0, e[2] / 2]]
    elif k == "capsule":
        pts += [[0, 0, e[2]], [0, 0, -e[2]], [e[0], 0, sh["h"] / 2], [0, e[0], 0], [0, 0, sh["h"] / 2],
                [0, 0, 1.25 * e[2]], [0, 0, -1.25 * e[2]], [e[0] / 2, 0, 1.5 * e[2]], [0, -e[0] / 2, -1.5 * e[2]],
                [e[0], 0, -sh["h"] / 2], [e[0], e[0], 0]]
    elif k == "cone":
        pts += [[0, 0, sh["h"]], [0, 0, sh["h"] / 2], [sh["r"], 0, 0], [0, -sh["r"], 0], [sh["r"] / 2, 0, sh["h"] / 2],
                [0, 0, -sh["h"] / 4], [0, 0, 1.25 * sh["h"]], [sh["r"] / 2, 0, 0.75 * sh["h"]], [sh["r"], sh["r"], 0],
                [sh["r"] / 4, 0, sh["h"] / 2], [0, sh["r"], sh["h"] / 4], [sh["r"] / 2, 0, -sh["h"] / 8]]
    elif k == "ellipsoid":
        pts += [[e[0], 0, 0], [0, -e[1], 0], [0, 0, e[2]], [e[0] / 2, e[1] / 2, e[2] / 2]]
    elif k == "sphere":
        pts += [[e[0], 0, 0], [0, 0, -e[0]], [0, 2 * e[0], 0]]
    elif k == "disk":
        # the slab of half width 10*eps around the plane: 5, 10, 11, 15 eps (absolute thresholds)
        pts += [[sh["r"], 0, 0], [0, -sh["r"], 0], [sh["r"] / 2, sh["r"] / 2, 0], [0, 0, sh["r"]], [2 * sh["r"], 0, 0],
                [sh["r"] / 2, 0, 5 * EPS], [0, sh["r"] / 2, -10 * EPS], [0, 0, 11 * EPS], [sh["r"] / 4, 0, -15 * EPS],
                [sh["r"], 0, 8 * EPS]]
    elif k == "mesh":
        pts += [list(v) for v in sh["vs"][:4]]
    if k in ("cylinder", "capsule", "cone", "ellipsoid", "box"):
        # almost on the axis (radial offset 1e-6 and 1e-9 of the extent): deep inside, where formulas
        # like sqrt(|p|^2 - z^2) or divisions by the radial distance lose everything
        zmid = sh["h"] / 2 if k == "cone" else 0.0
        pts += [[1e-6 * e[0], 0.0, zmid], [0.0, -1e-9 * e[1], zmid], [1e-9 * e[0], 1e-9 * e[1], zmid + 0.25 * e[2]]]
    return [[float(x) for x in p] for p in pts]


def gen_case(rng, kind, stream):
    sh = sc.gen_shape(rng, kind, stream, size_lo=0.2, size_hi=1e2)
    if kind == "mesh":
        if stream in ("lattice", "exact") or len(sh["vs"]) < 4:
            s = rng.choice(sc.LATTICE)
            base = rng.choice(["cube", "octa"])
            if base == "cube":
                sh["vs"] = [[sx * s, sy * s, sz * s] for sx in (-1, 1) for sy in (-1, 1) for sz in (-1, 1)]
            else:
                sh["vs"] = [[s if i == j else 0.0 for j in range(3)] for i in range(3)] + \
                           [[-s if i == j else 0.0 for j in range(3)] for i in range(3)]
        else:
            s = sc.gen_size(rng, "random", 0.2, 50.0)
            sh["vs"] = [[rng.uniform(-1, 1) * s for _ in range(3)] for _ in range(rng.choice([4, 6, 10, 20]))]
    return dict(shape=sh)


def fill_points(rng, case):
    """needs the triangles for meshes, so it runs after the mesh has been built once"""
    sh = case["shape"]
    L = sc.shape_L(sh)
    tau = 1e-9 * L
    n = rng.choice([1, 2, 5, 16, 16, 40])
    e = extent(sh)
    pts, cls = [], []
    feats = feature_points(sh)
    # the exact features of the shape (centre, points on the axis, apex, rim, corners, slab points) are
    # asked in every case with at least 16 points, a random half of them otherwise
    chosen = feats if n >= 16 else rng.sample(feats, max(1, len(feats) // 2))
    for k in chosen[:n]:
        pts.append(to_world(sh, k))
        cls.append("feature")
    if sh["kind"] == "ellipsoid":
        # the six poles pushed in and out by 4*tau: where a shortcut that mistakes a nearly spherical
        # ellipsoid for a sphere of radius radii[0] is wrong by the full difference of the radii
        for i in range(3):
            for sg in (-1.0, 1.0):
                for push in (-4.0, 4.0):
                    k = [0.0, 0.0, 0.0]
                    k[i] = sg * (sh["radii"][i] + push * tau)
                    pts.append(to_world(sh, k))
                    cls.append("push%+g" % push)
        n = max(n, len(pts))
    if sh.get("stream") == "exact" and n >= 16:
        # exhaustive small lattice: every operation of model and code is exact on these points, so the
        # booleans must be identical, boundary points included (343 points, k_i in {0, +-1/2, +-1, +-3/2} * extent)
        g = [-1.5, -1.0, -0.5, 0.0, 0.5, 1.0, 1.5]
        for a in g:
            for b in g:
                for c3 in g:
                    pts.append(to_world(sh, [a * e[0], b * e[1], c3 * e[2]]))
                    cls.append("grid")
        n = len(pts)
    while len(pts) < n:
        r = rng.random()
        if sh.get("stream") == "exact":
            r = 0.3 if r < 0.7 else r          # mostly exact features: every operation of model and code is exact
        if r < 0.25:
            k = [rng.uniform(-1.5, 1.5) * e[i] for i in range(3)]
            if sh["kind"] == "disk" and rng.random() < 0.5:
                k[2] = 0.0
            pts.append(to_world(sh, k))
            cls.append("random")
        elif r < 0.4:
            pts.append(to_world(sh, rng.choice(feats)))
            cls.append("feature")
        else:
            b, nrm = boundary_point(rng, sh)
            kmul = rng.choice(PUSH) * rng.choice([-1.0, 1.0])
            if rng.random() < 0.1:
                kmul = rng.choice([0.0, 0.3, -0.3])
            pts.append(to_world(sh, [b[i] + kmul * tau * nrm[i] for i in range(3)]))
            cls.append("push%+g" % kmul)
    case["points"] = pts
    case["pt_cls"] = cls
    # a second shape of the same kind (same array shapes) written INTO the argument arrays of the first
    # between two calls: histories on the same array objects
    if rng.random() < 0.6:
        sh2 = sc.gen_shape(rng, sh["kind"], "random", size_lo=0.2, size_hi=1e2)
        if sh["kind"] == "mesh":
            f = rng.choice([0.5, 1.5, 2.0])
            sh2 = dict(sh2, vs=[[f * x + 0.25 for x in v] for v in sh["vs"]])
            sh2.pop("triangles", None)
        case["shape2"] = sh2
    case["dirs"] = [[1.0, 0.0, 0.0], [-1.0, 0.0, 0.0], [0.0, 1.0, 0.0], [0.0, -1.0, 0.0], [0.0, 0.0, 1.0], [0.0, 0.0, -1.0],
                    rand_unit(rng), rand_unit(rng)]
    return case


def gen_cases(rng, tier):
    per = 8 if tier == "quick" else 90
    cases = []
    for kind in KINDS:
        for stream, share in (("random", 1.0), ("lattice", 0.6), ("exact", 0.6), ("near", 0.3), ("degen", 0.6)):
            for _ in range(int(per * share)):
                cases.append(gen_case(rng, kind, stream))
    rng.shuffle(cases)
    return cases


# ---------------------------------------------------------------- model side
def coq_case_expr(case):
    sh = case["shape"]
    k = sh["kind"]
    items = []
    for p in case["points"]:
        P = sc.cv(p)
        if k == "sphere":
            items.append(f"b2n (point_in_sphere {P} {sc.cv(sh['c'])} {cm.fhex(sh['r'])})")
        elif k == "capsule":
            items.append(f"b2n (point_in_capsule {P} {sc.cpose(sh['R'], sh['t'])} {cm.fhex(sh['r'])} {cm.fhex(sh['h'])})")
        elif k == "ellipsoid":
            items.append(f"b2n (point_in_ellipsoid {P} {sc.cpose(sh['R'], sh['t'])} {sc.cv(sh['radii'])})")
        elif k == "disk":
            items.append(f"b2n (point_in_disk {P} {sc.cv(sh['c'])} {cm.fhex(sh['r'])} {sc.cv(sh['n'])})")
        elif k == "cone":
            items.append(f"b2n (point_in_cone {P} {sc.cpose(sh['R'], sh['t'])} {cm.fhex(sh['r'])} {cm.fhex(sh['h'])})")
        elif k == "cylinder":
            items.append(f"b2n (point_in_cylinder {P} {sc.cpose(sh['R'], sh['t'])} {cm.fhex(sh['r'])} {cm.fhex(sh['l'])})")
        elif k == "box":
            items.append(f"b2n (point_in_box {P} {sc.cpose(sh['R'], sh['t'])} {sc.cv(sh['size'])})")
        elif k == "mesh":
            items.append(f"ob (point_in_convex_mesh {P} mT mvs mts)")
    if k == "mesh":
        vs = sc.clist(sc.cv(v) for v in sh["vs"])
        ts = sc.clist("(" + ", ".join(sc.cnat(i) for i in t) + ")" for t in sh["triangles"])
        return [("mT", sc.cpose(sh['R'], sh['t'])), ("mvs", vs), ("mts", ts)], sc.clist(items)
    return [], sc.clist(items)


# ---------------------------------------------------------------- oracle
def classify_case(case):
    sh = case["shape"]
    L = sc.shape_L(sh)
    tau = Fr(1e-9) * Fr(L)
    faces = sc.mesh_faces_exact(sh) if sh["kind"] == "mesh" else None
    return [sc.contain_class(sh, sc.Fv(p), tau, faces) for p in case["points"]]


def judge_case(case, r, classes):
    sh = case["shape"]
    L = sc.shape_L(sh)
    tau = 1e-9 * L
    name = "points_in_" + ("convex_mesh" if sh["kind"] == "mesh" else sh["kind"])
    if "exc" in r:
        return [f"{name} raised {r['exc']}: {r.get('exc_msg', '')}"]
    fails = []
    if r.get("args_modified"):
        fails.append(f"{name} modifies its argument(s) number {r['args_modified']} (0 = points, 1.. = shape parameters) in place")
    ip = r.get("inplace")
    if isinstance(ip, dict) and ip.get("same") is False:
        fails.append(f"{name}: after overwriting the argument arrays IN PLACE with another {sh['kind']} (shape2 of the replay) the same "
                     f"array objects give {ip['got']}, fresh arrays with the same values give {ip['want']} (result depends on object identity / stale state)")
    if r.get("inplace_exc"):
        fails.append(f"{name}: in-place edit history raised {r['inplace_exc']}")
    if r.get("second_call_same") is False:
        fails.append(f"{name}: a second call with the very same argument objects returns a different answer")
    for i, (p, c, b) in enumerate(zip(case["points"], classes, r["contained"])):
        if c == "in" and not b:
            fails.append(f"{name}: point {i} = {p} lies at least 1e-9*L inside but the predicate says False ({case['pt_cls'][i]})")
        if c == "out" and b:
            fails.append(f"{name}: point {i} = {p} lies at least 1e-9*L outside but the predicate says True ({case['pt_cls'][i]})")
    # element-wise for any batch: judged where the property speaks (points at least 1e-9*L inside or
    # outside); for points in the band the batched and the single evaluation go through different
    # BLAS kernels and may legitimately round to different sides of the boundary
    for i, (a, b) in enumerate(zip(r["single"], r["contained"])):
        if a != b and classes[i] != "band":
            fails.append(f"{name}: point {i} = {case['points'][i]} ({classes[i]}): batch answer {b} differs from the one-point-at-a-time answer {a}")
    for i, (a, b) in enumerate(zip(r["reversed"], r["contained"])):
        if a != b and classes[i] != "band":
            fails.append(f"{name}: point {i} = {case['points'][i]} ({classes[i]}): the answer depends on the order of the points in the batch")
    if "dist" in r:
        for i, (b, dist, c) in enumerate(zip(r["contained"], r["dist"], classes)):
            if not (dist == dist):
                continue            # NaN distances are C10's concern
            if b and dist > tau:
                fails.append(f"{name}: point {i} = {case['points'][i]} is contained but point_to_{sh['kind']} returns distance {dist!r} > 1e-9*L")
            if c == "out" and sh["kind"] in ("cylinder", "disk", "box") and dist < 0.5 * tau:
                fails.append(f"point_to_{sh['kind']}: point {i} = {case['points'][i]} is at least 1e-9*L outside but the distance is {dist!r}")
            if c == "in" and dist > tau:
                fails.append(f"point_to_{sh['kind']}: point {i} = {case['points'][i]} is inside but the distance is {dist!r}")
    if "sup" in r:
        for d, s in zip(case["dirs"], r["sup"]):
            h = sc.dotf(s, d)
            for i, (p, b) in enumerate(zip(case["points"], r["contained"])):
                if b and sc.dotf(p, d) > h + tau * max(1.0, sc.normf(d)):
                    fails.append(f"{name}: contained point {i} = {p} projects to {sc.dotf(p, d)!r} beyond the support value {h!r} along {d}")
    return fails


# ---------------------------------------------------------------- separating direction (untrusted hint)
def outward_direction(sh, p):
    """a world-frame direction along which p sticks out of the shape (floating point; the Coq checker
    outside_cert only needs SOME direction n with  p.n - h_S(n) >= tau*|n|)"""
    import numpy as np
    from .. import narrow
    k = sh["kind"]
    p = np.array(p, float)
    if k == "disk":
        c, n = np.array(sh["c"], float), np.array(sh["n"], float)
        w = p - c
        d = float(w @ n)
        u = w - d * n
        lu = float(np.linalg.norm(u))
        q = c + (u * (sh["r"] / lu) if lu > sh["r"] else u)
        return (p - q).tolist()
    M, c = frame(sh)
    M = np.array(M, float)
    loc = M.T @ (p - np.array(c, float))
    if k == "sphere":
        nl = loc
    elif k == "box":
        h = np.array(sh["size"], float) / 2
        nl = loc - np.clip(loc, -h, h)
    elif k == "cylinder":
        rho = math.hypot(loc[0], loc[1])
        f = min(1.0, sh["r"] / rho) if rho > 0 else 1.0
        q = np.array([loc[0] * f, loc[1] * f, min(max(loc[2], -sh["l"] / 2), sh["l"] / 2)])
        nl = loc - q
    elif k == "capsule":
        t = min(max(loc[2], -sh["h"] / 2), sh["h"] / 2)
        nl = loc - np.array([0.0, 0.0, t])
    elif k == "cone":
        rho = math.hypot(loc[0], loc[1])
        rs, zs = narrow._tri_project(rho, float(loc[2]), sh["r"], sh["h"])
        radial = np.array([loc[0], loc[1], 0.0]) / rho if rho > 0 else np.array([1.0, 0.0, 0.0])
        nl = (rho - rs) * radial + np.array([0.0, 0.0, loc[2] - zs])
    elif k == "ellipsoid":
        a = np.array(sh["radii"], float)
        t = narrow._ell_project(loc, [np.array([a[0], 0, 0]), np.array([0, a[1], 0]), np.array([0, 0, a[2]])])
        nl = loc - a * np.array(t)
    elif k == "mesh":
        vs = np.array(sh["vs"], float)
        best, nl = 0.0, None
        for (i, j, kk) in sh["triangles"]:
            nf = np.cross(vs[j] - vs[i], vs[kk] - vs[i])
            ln = float(np.linalg.norm(nf))
            if ln == 0:
                continue
            sdist = float(nf @ (loc - vs[i])) / ln
            if sdist > best:
                best, nl = sdist, nf / ln
        if nl is None:
            return None
    else:
        return None
    if float(np.linalg.norm(nl)) == 0.0:
        return None
    return (M @ nl).tolist()


def exact_point(sh, p):
    """model and implementation evaluate the predicate at p without rounding: signed-permutation pose,
    power-of-two sizes, dyadic coordinates with few bits"""
    if not sc.exact_pose(sh):
        return False
    k = sh["kind"]
    sizes = []
    if k in ("sphere", "disk"):
        sizes = [sh["r"]]
    elif k == "box":
        sizes = list(sh["size"])
    elif k == "cylinder":
        sizes = [sh["r"], sh["l"]]
    elif k in ("capsule", "cone"):
        sizes = [sh["r"], sh["h"]]
    elif k == "ellipsoid":
        sizes = list(sh["radii"])
    elif k == "mesh":
        sizes = [1.0]
        if not all(sc.is_lattice_number(x, 16.0) for v in sh["vs"] for x in v):
            return False
    if not all(sc.is_pow2_or_zero(x) and 2.0 ** -4 <= x <= 2.0 ** 4 for x in sizes):
        return False
    c = sh["c"] if k in ("sphere", "disk") else sh["t"]
    # p - c must have few significant bits (the slab points of the disk carry multiples of 2^-52)
    for a, b in zip(p, c):
        d = Fr(a) - Fr(b)
        if d != 0 and (d.denominator > 2 ** 60 or abs(d.numerator) >= 2 ** 12 or float(a) - float(b) != float(d)):
            return False
    return True


# ---------------------------------------------------------------- running
def run_impl(payloads_cases, script_tag, hits=None):
    cases = payloads_cases
    nw = min(cm.NCPU, max(1, len(cases) // 25))
    chunks = [cases[i::nw] for i in range(nw)]
    res = cm.run_impl_parallel(PID, "c13", [dict(cases=c) for c in chunks], timeout=3000, tag=script_tag)
    out = [None] * len(cases)
    for w, (rr, ch) in enumerate(zip(res, chunks)):
        idxs = list(range(w, len(cases), nw))
        if rr["status"] == "ok":
            if hits is not None:
                for f, lines in (rr["result"].get("line_hits") or {}).items():
                    hits.setdefault(f, set()).update(lines)
            for i, x in zip(idxs, rr["result"]["results"]):
                out[i] = x
        else:
            singles = cm.run_impl_parallel(PID, "c13", [dict(cases=[c]) for c in ch], timeout=1800, tag=script_tag + "_iso")
            for i, s in zip(idxs, singles):
                if s["status"] == "ok":
                    out[i] = s["result"]["results"][0]
                else:
                    out[i] = dict(exc=f"PROCESS-{s['status'].upper()}", exc_msg=f"rc={s.get('rc')} {s.get('log', '')[-300:]}")
    return out


def prepare(rng, cases):
    """meshes need their triangles (make_convex_mesh runs in a worker) before points can be placed"""
    need = [c for c in cases if c["shape"]["kind"] == "mesh" and c["shape"].get("triangles") is None and "points" not in c]
    if need:
        probe = [dict(shape=c["shape"], points=[[0.0, 0.0, 0.0]], dirs=[]) for c in need]
        res = run_impl(probe, "probe")
        for c, r in zip(need, res):
            if "triangles" in r:
                c["shape"]["triangles"] = r["triangles"]
            else:
                c["unbuildable"] = r.get("build_exc") or r.get("exc") or "?"
    out = []
    for c in cases:
        if c.get("unbuildable"):
            continue
        if "points" not in c:
            fill_points(rng, c)
        out.append(c)
    return out, len(cases) - len(out)


def run(tier, seed, replay=None):
    R = cm.Run(PID, "proof", tier, seed)
    R.cov["rule"] = ("case = one shape of the primitive domain P (8 predicates x streams random general position / lattice poses; "
                     "sizes in [0.2,1e2]) + a batch of 1-64 points mixing: random points within 1.5x the extent, exact features "
                     "(centre, axis points, apex, rim, corners), boundary pushes = boundary point +- k*1e-9*L along the outward "
                     "normal with k in {1.5,4,100,1e4} (10%: k in {0,+-0.3}, inside the band); half of the 'exact' stream cases (axis permutation "
                     "poses, power-of-two sizes) additionally get the exhaustive 7x7x7 lattice k_i in {0,+-1/2,+-1,+-3/2}*extent, on which "
                     "model and code must agree exactly; stream 'degen' = all sizes equal up to a relative 1e-7..1e-4 (nearly spherical ellipsoids, "
                     "nearly cubic boxes, ...) with the usual boundary pushes; 60% of the cases carry a call history on the SAME argument arrays "
                     "(call, overwrite the arrays in place with another shape, call, compare with fresh arrays); distinct_nontrivial counts "
                     "distinct (case hash, point index) pairs that the exact oracle classified 'in' or 'out' (i.e. judged points)")
    R.assumptions += [
        "theorems are about the Gallina model Model/Contain.v instantiated at exact real arithmetic; the tie to /repo is the correspondence check run here (binary64 instance of the same model vs implementation, booleans equal wherever the oracle certifies a 1e-9*L margin, AND - boundary points and absolute thresholds included - wherever every operation is exact in binary64: axis-permutation pose, power-of-two sizes, dyadic points)",
        "per-input verdict: the gate is an independent exact Python oracle (fractions.Fraction): sufficient exact tests for 'ball of radius 1e-9*L inside' / 'distance >= 1e-9*L' in local coordinates M^-1 (p - c) of the exact float pose; points the tests cannot certify (band) are not judged; the 'must be False' verdicts are doubled by the Coq-proven checker outside_cert (Checker/ShapesCert.v, a separating direction, vm_compute on exact rationals): coverage.certificates",
        "convex meshes: 'in' relies on the triangles (scipy ConvexHull via make_convex_mesh, or the cube / octahedron tables) forming the boundary of the hull; 'out' uses only faces verified exactly to be supporting half-spaces of all vertices",
        "a flat disk has no point 1e-9*L inside, so for points_in_disk only the False side, the model correspondence and the cross-agreements are judged",
        "IEEE rounding is not modelled by the theorems; its effect is only measured here against 1e-9*L",
        "harness/compat.py import shim; numpy/numba/CPython/BLAS",
    ]
    sc.check_proofs_retry(R, PROOF_FILES, build_targets=["theories/Props/C13.vo", "theories/Model/ShapesRun.vo",
                                               "theories/Checker/ShapesCert.vo"])

    cases = []
    corpus = cm.VERIF / "corpus" / PID
    if replay:
        cases.append(json.loads(open(replay).read())["case"])
    else:
        if corpus.exists():
            for f in sorted(corpus.glob("*.json")):
                cases.append(json.loads(f.read_text())["case"])
        cases += gen_cases(R.rng, tier)
    cases, unbuilt = prepare(R.rng, cases)

    hits = {}
    results = run_impl(cases, "impl", hits)
    classes = [classify_case(c) for c in cases]
    bad = []
    n_eval = 0
    hist_cls = {"in": 0, "out": 0, "band": 0}
    distinct = set()
    for c, r, cl in zip(cases, results, classes):
        n_eval += len(c["points"])
        f = judge_case(c, r, cl)
        if f:
            bad.append((c, f))
        h = cm.canon_hash(c)
        for i, x in enumerate(cl):
            hist_cls[x] += 1
            if x != "band" and "contained" in r:
                distinct.add((h, i))
    R.cov["evaluations"] = n_eval
    R.cov["cases"] = len(cases)
    R.cov["cases_not_constructible"] = unbuilt
    R.cov["distinct_nontrivial"] = len(distinct)

    # Coq-proven certificates for the 'must be False' verdicts: a separating direction
    from .. import narrow
    jobs = []
    for ci, (c, r, cl) in enumerate(zip(cases, results, classes)):
        if "contained" not in r:
            continue
        sh = c["shape"]
        if sh["kind"] == "mesh" and len(sh["vs"]) > 40:
            continue
        tau = narrow._q(Fr(1e-9) * Fr(sc.shape_L(sh)))
        items, pts = [], []
        try:
            spec = sc.to_spec(sh, None)
            outs_j = [j for j, x in enumerate(cl) if x == "out"]
            # at most 8 per case, the ones closest to the boundary (boundary pushes) first
            outs_j.sort(key=lambda j: (not c["pt_cls"][j].startswith("push"), j))
            for j in outs_j[:8]:
                p = c["points"][j]
                n = outward_direction(sh, p)
                if n is None or not sc.finite(n):
                    continue
                items.append(f"outside_cert shS {narrow.vq(p)} {narrow.vq(n)} {tau}")
                pts.append(j)
            if items:
                jobs.append((ci, pts, ([("shS", narrow.sh_expr(spec))], f"[{'; '.join(items)}]")))
        except Exception as e:
            R.notes.append(dict(certificate_construction_failed=f"{type(e).__name__}: {str(e)[:200]}", case_hash=cm.canon_hash(c)))
    # accepted mesh points: exact membership in the hull of the world vertices (the direction of the
    # equivalence that is NOT proved universally for convex meshes), certified per point
    from . import shapes_meshcone as mc
    mjobs = []
    for ci, (c, r, cl) in enumerate(zip(cases, results, classes)):
        sh = c["shape"]
        if "contained" not in r or sh["kind"] != "mesh" or len(sh["vs"]) > 30:
            continue
        try:
            spec = sc.to_spec(sh, None)
            W = narrow.parts(spec)[0][1]
            items = []
            for j, (p, b, x) in enumerate(zip(c["points"], r["contained"], cl)):
                if not b or x != "in" or len(items) >= 4:
                    continue
                w = mc.hull_weights_exact(W, p)
                if w is None:
                    continue
                items.append(f"member_cert shS (WHull [{'; '.join(narrow._q(v) for v in w)}]) {narrow.vq(p)}")
            if items:
                mjobs.append((ci, len(items), ([("shS", narrow.sh_expr(spec))], f"[{'; '.join(items)}]")))
        except Exception as e:
            R.notes.append(dict(membership_certificate_construction_failed=f"{type(e).__name__}: {str(e)[:200]}"))
    mcert = dict(submitted=sum(k for _, k, _ in mjobs), accepted=0,
                 theorem="Checker/ShapesCert.v member_cert_sound: the accepted point IS a convex combination of the mesh's world vertices")
    try:
        outs = sc.coq_eval_blocks(PID, sc.CERT_HEADER, [e for _, _, e in mjobs], tag="mcert",
                                  per_file=max(2, len(mjobs) // cm.NCPU + 1), timeout=1500)
        for o in outs:
            mcert["accepted"] += o.count("true")
    except RuntimeError as e:
        R.notes.append(dict(membership_certificate_evaluation_failed=str(e)[:500]))
    R.cov["mesh_accept_certificates"] = mcert

    cert = dict(out_class_points=hist_cls["out"], rule="at most 8 per case, boundary pushes first", submitted=sum(len(p) for _, p, _ in jobs), accepted=0, rejected=0)
    try:
        outs = sc.coq_eval_blocks(PID, sc.CERT_HEADER, [e for _, _, e in jobs], tag="cert",
                                  per_file=max(2, len(jobs) // cm.NCPU + 1), timeout=1500)
        for (ci, pts, _), o in zip(jobs, outs):
            verdicts = [x.strip() == "true" for x in o.strip().strip("[]").split(";")]
            if len(verdicts) != len(pts):
                raise RuntimeError(f"unexpected checker output {o[:200]}")
            for j, ok in zip(pts, verdicts):
                cert["accepted" if ok else "rejected"] += 1
                if ok and results[ci]["contained"][j]:
                    # certified >= tau outside (theorem) and the predicate says True: this IS a failure
                    if not any(cc is cases[ci] for cc, _ in bad):
                        bad.append((cases[ci], [f"points_in_{cases[ci]['shape']['kind']}: point {j} = {cases[ci]['points'][j]} is certified (outside_cert_sound) "
                                                 f"to be at least 1e-9*L away from the shape but the predicate says True"]))
    except RuntimeError as e:
        R.notes.append(dict(certificate_evaluation_failed=str(e)[:500]))
    cert["theorem"] = ("Checker/ShapesCert.v outside_cert_sound (distance of the point to every point of the shape >= 1e-9*L); "
                       "the 'at least 1e-9*L inside' side is judged by the Python oracle only")
    R.cov["certificates"] = cert
    from ..impl import shapes_trace as st
    import os
    path = str(cm.REPO / "distance3d" / "containment_test.py")
    cov = st.summarize({os.path.realpath(path): sorted(hits.get("containment_test.py", []))}, {path: TRACE_SCOPE["containment_test.py"]})
    R.cov["impl_line_coverage"] = dict(
        executable=sum(v["executable"] for v in cov.values()), hit=sum(v["hit"] for v in cov.values()),
        functions=len(cov), missed={k: v["missed"] for k, v in cov.items() if v["missed"]})

    exprs, idx = [], []
    for i, (c, r) in enumerate(zip(cases, results)):
        if "exc" in r:
            continue
        exprs.append(coq_case_expr(c))
        idx.append(i)
    ndiff = 0
    band_diff = 0
    n_exact = 0
    try:
        outs = sc.coq_eval_blocks(PID, sc.HEADER, exprs, per_file=max(4, len(exprs) // cm.NCPU + 1))
        for i, o in zip(idx, outs):
            m = sc.parse_coq_value(o)
            impl = [1 if b else 0 for b in results[i]["contained"]]
            d = []
            for j, (a, b, cl) in enumerate(zip(m, impl, classes[i])):
                exact = exact_point(cases[i]["shape"], cases[i]["points"][j])
                n_exact += 1 if exact else 0
                if a != b:
                    if exact:
                        d.append(f"point {j} = {cases[i]['points'][j]} ({cl}, every operation exact in binary64): model {a} vs implementation {b}")
                    elif cl == "band":
                        band_diff += 1
                    else:
                        d.append(f"point {j} = {cases[i]['points'][j]} ({cl}): model {a} vs implementation {b}")
            if len(m) != len(impl):
                d.append("model returned a different number of answers")
            if d:
                ndiff += 1
                if len(R.corr_broken) < 5:
                    R.corr_broken.append(f"Contain model vs implementation ({cases[i]['shape']['kind']}): {d[0]}")
                R.notes.append(dict(correspondence_diff=d[:3], case_hash=cm.canon_hash(cases[i])))
    except RuntimeError as e:
        R.corr_broken.append(f"model evaluation failed: {str(e)[:500]}")
    R.cov["traces_validated_against_impl"] = len(idx) - ndiff
    R.cov["correspondence_disagreements"] = ndiff
    R.cov["in_band_model_impl_differences"] = band_diff
    R.cov["points_compared_exactly"] = n_exact

    hist = {}
    hist_pt = {}
    for c in cases:
        key = c["shape"]["kind"] + "/" + c["shape"].get("stream", "?")
        hist[key] = hist.get(key, 0) + 1
        for x in c.get("pt_cls", []):
            x = x if not x.startswith("push") else "push"
            hist_pt[x] = hist_pt.get(x, 0) + 1
    R.cov["input_histogram"] = dict(cases_by_kind_stream=hist, points_by_generator=hist_pt, points_by_oracle_class=hist_cls)
    for c, r, cl in list(zip(cases, results, classes))[:3]:
        if "contained" in r:
            sh = {k: v for k, v in c["shape"].items() if k not in ("vs", "triangles")}
            R.sample(dict(shape=sh, points=c["points"][:3], generator=c.get("pt_cls", [])[:3],
                          oracle_class=cl[:3], contained=r["contained"][:3]))
    for c, f in bad[:5]:
        R.failure("; ".join(f[:3]), c, site="points_in_" + c["shape"]["kind"])
    if (R.proof_broken or R.corr_broken) and not bad and not replay:
        extra, _ = prepare(R.rng, gen_cases(R.rng, "thorough"))
        res2 = run_impl(extra, "search")
        R.cov["search_evaluations"] = sum(len(c["points"]) for c in extra)
        for c, r in zip(extra, res2):
            f = judge_case(c, r, classify_case(c))
            if f:
                R.failure("; ".join(f[:3]), c, site="points_in_" + c["shape"]["kind"])
                break
    return R.finish()
