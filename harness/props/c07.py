"""C07 — EPA returns the minimum translation vector whenever it reports success.

Decided per generated overlapping pair by Coq-proven result checkers
(coq/theories/Checker/Pen.v, theorems exported by Props/C07.v), evaluated by vm_compute on
the exact rationals of what distance3d.epa.epa returned:

  touch_cert     B moved by mtv: residual overlap <= tau along the witness direction, remaining gap
                 <= tau (a pair of witness points), hence also depth <= |mtv| + tau
  depth_ge_cert  for polytope pairs: EVERY direction sees an extent of A - B of at least
                 rho = |mtv| - tau  (cone tree over the normal fan of conv(A - B); the tree is built by
                 the harness from scipy's facet list and is untrusted) -> no shorter translation separates
  too_long_cert  certified refutation of minimality (a direction with extent < |mtv| - tau)
  sep_cert       certified refutation of "remaining gap <= tau"

tau = 1e-6 * L.  Non-polytope pairs (where EPA rarely succeeds at all) get the touching part and a
search for a refuting direction only.  "hulls, boxes and small meshes must succeed" is judged too.
"""
import json
import time
from fractions import Fraction as Fr

import numpy as np

from .. import common as cm
from .. import narrow as nw
from .. import narrow_pen as npn

PID = "C07"
PROOF_FILES = ["theories/Props/C07.v", "theories/Proofs/Epa.v", "theories/Checker/Pen.v", "theories/Checker/Narrow.v",
               "theories/Checker/Shapes.v", "theories/Spec/Convex.v"]
KINDS_POLY = ["box", "hull", "mesh"]
BUILD_TARGETS = ["theories/Props/C07.vo", "theories/Checker/Pen.vo", "theories/Checker/Narrow.vo",
                 "theories/Model/EpaRun.vo"]
# arms of gjk's exit / epa.py observed by the worker (harness/impl/narrowp.py)
ALL_ARMS = ["gjk_exit_n_points_1", "gjk_exit_n_points_2", "gjk_exit_n_points_3", "gjk_exit_n_points_4",
            "simplex_winding_pos", "simplex_winding_neg", "simplex_winding_flat", "closest_dist_negative",
            "winding_kept", "winding_flipped", "degenerate_face_skipped", "faces_added",
            "loose_edges_3", "loose_edges_gt3", "loose_edges_lt3", "loose_edge_overflow",
            "face_removed_last", "face_removed_swap", "edge_shared", "edge_not_shared", "iterations"]
MAX_TREE_NODES = dict(quick=600, thorough=3000)
CAP_WHAT = ("epa() with its default capacities (max_faces=64) raises AssertionError in Polytope.extend_with_point on an "
            "overlapping pair of polytopes with at most 30 vertices each")
F2_WHAT = ("gjk() handed epa() its 4x3 work array although it stopped with fewer than 4 live points "
           "(rows n_points..3 are stale or uninitialised, not the simplex GJK ended with); epa then reports "
           "success with a wrong vector, or fails on a small polytope pair")


def make_case_seeded(arg):
    import random
    seed, tier, k = arg
    return make_case(random.Random(seed), tier, k)


N_REGULAR = dict(quick=200, thorough=1400)
N_BIG = dict(quick=44, thorough=240)
CURVED = ["sphere", "ellipsoid", "capsule", "cylinder", "cone"]


def small_rotation(rng, angle):
    ax = nw.rand_unit(rng)
    K = np.array([[0.0, -ax[2], ax[1]], [ax[2], 0.0, -ax[0]], [-ax[1], ax[0], 0.0]])
    return np.eye(3) + np.sin(angle) * K + (1.0 - np.cos(angle)) * (K @ K)


def big_collider(rng, kind):
    """a collider from the upper decades of the declared size domain: radii / vertex radii 15 .. 50, box edges, heights
    and lengths 30 .. 100; hulls and meshes with 12 .. 30 vertices on a sphere, an ellipsoid or on 2-3 rings (drum)"""
    R = nw.rand_rotation(rng, "random")
    c = [rng.uniform(-20, 20) for _ in range(3)]
    rad = lambda: rng.uniform(15.0, 50.0)
    ln = lambda: rng.uniform(30.0, 100.0)
    if kind == "sphere":
        return dict(kind=kind, center=c, radius=rad())
    if kind == "ellipsoid":
        return dict(kind=kind, pose=nw.pose_of(R, c), radii=[rad(), rad(), rad()])
    if kind == "capsule":
        return dict(kind=kind, pose=nw.pose_of(R, c), radius=rad(), height=ln())
    if kind == "cylinder":
        return dict(kind=kind, pose=nw.pose_of(R, c), radius=rad(), length=ln())
    if kind == "cone":
        return dict(kind=kind, pose=nw.pose_of(R, c), radius=rad(), height=ln())
    if kind == "box":
        return dict(kind=kind, pose=nw.pose_of(R, c), size=[ln(), ln(), ln()])
    n = rng.choice([12, 16, 20, 24, 30])
    s = rad()
    shape = rng.choice(["sphere", "ellipsoid", "rings"])
    pts = []
    if shape == "rings":
        k = rng.choice([2, 3])
        m = max(4, n // k)
        h = rng.uniform(0.4, 1.0) * s
        for j in range(k):
            z = -h + 2 * h * j / (k - 1)
            rr = s * (1.0 if k == 2 or j != 1 else rng.uniform(1.0, 1.1))
            ph = rng.uniform(0, 2 * np.pi)
            for i in range(m):
                pts.append([rr * np.cos(ph + 2 * np.pi * i / m), rr * np.sin(ph + 2 * np.pi * i / m), z])
    else:
        sc = [1.0, 1.0, 1.0] if shape == "sphere" else [rng.uniform(0.5, 1.0) for _ in range(3)]
        for _ in range(n):
            v = np.array([rng.gauss(0, 1) for _ in range(3)])
            v *= s / np.linalg.norm(v)
            pts.append((v * sc).tolist())
    pts = [[float(x) for x in p_] for p_ in pts]
    if kind == "hull":
        return dict(kind=kind, vertices=(np.array(pts) @ R.T + np.array(c)).tolist())
    return dict(kind=kind, pose=nw.pose_of(R, c), vertices=pts)


def gen_big(rng, tier):
    """(s1, s2, meta): an overlapping pair of BIG colliders (feature sizes 15 .. 100) penetrating deeply in ABSOLUTE units
    (1 .. 50 length units), so that a relative slack in any of EPA's absolute tests exceeds tau = 1e-6 L.  Sub-streams:
    curved (two curved colliders: the expanding polytope gets ever smaller, nearly coplanar faces), mixed (curved x
    polytope), manyvert (hulls / meshes with 12 .. 30 vertices, boxes), nearly_aligned (a polytope against a slightly
    smaller copy of itself turned by 1e-6 .. 3e-4 rad -- or with every vertex moved by that relative amount -- and placed
    inside it: the vertices of A - B come in nearly, not exactly, coplanar families)"""
    for _ in range(200):
        sub = rng.choice(["curved"] * 3 + ["mixed"] * 3 + ["nearly_aligned"] * 3 + ["manyvert"])
        if sub == "curved":
            k1, k2 = rng.choice(CURVED), rng.choice(CURVED)
        elif sub == "mixed":
            k1, k2 = rng.choice(CURVED), rng.choice(KINDS_POLY)
            if rng.random() < 0.5:
                k1, k2 = k2, k1
        elif sub == "nearly_aligned":
            k1 = k2 = rng.choice(["hull", "hull", "box", "box", "mesh"])
        else:
            k1, k2 = rng.choice(KINDS_POLY), rng.choice(KINDS_POLY)
        s1 = big_collider(rng, k1)
        u = nw.rand_unit(rng)
        if sub == "nearly_aligned":
            ang = 10 ** rng.uniform(-6.0, -3.5)
            c1 = nw.center_of(s1)
            s2 = nw.transform_spec(nw.translate_spec(s1, -c1), small_rotation(rng, ang), np.zeros(3), scale=rng.uniform(0.8, 1.0))
            if s1["kind"] == "box":
                s2["size"] = [x * rng.uniform(0.9, 1.0) for x in s2["size"]]
            elif rng.random() < 0.5:
                V = np.array(s2["vertices"])
                V = V * (1.0 + ang * np.array([[rng.uniform(-1, 1) for _ in range(3)] for _ in V]))
                s2["vertices"] = V.tolist()
            off = np.array([rng.uniform(-1, 1) for _ in range(3)]) * 0.03 * nw.feature_size(s1)
            s2 = nw.translate_spec(s2, c1 + off)
            meta = dict(stream="big", sub=sub, kinds=[k1, k2], angle=ang, dir=u.tolist())
        else:
            s2 = big_collider(rng, k2)
            f = min(nw.feature_size(s1), nw.feature_size(s2))
            # overlap extent along u: 1 .. 50 length units, mostly a sizeable fraction of the smaller collider
            delta = min(50.0, rng.uniform(0.2, 1.0) * f) if rng.random() < 0.6 else rng.uniform(1.0, 50.0)
            dc = nw.center_of(s1) - nw.center_of(s2)
            lat = dc - float(dc @ u) * u
            jit = np.array([rng.uniform(-1, 1) for _ in range(3)]) * 0.2 * f
            lat = lat + jit - float(jit @ u) * u
            s2 = nw.translate_spec(s2, lat)
            s = nw.support_value(s1, u) + nw.support_value(s2, -u) - delta
            s2 = nw.translate_spec(s2, s * u)
            meta = dict(stream="big", sub=sub, kinds=[k1, k2], delta=delta, dir=u.tolist())
        meta["L"] = nw.scene_scale([s1, s2])
        a, b, dist = npn.closest_pair(s1, s2)
        if dist <= 1e-9 * meta["L"]:
            return s1, s2, meta
    raise RuntimeError("could not generate an overlapping pair")


def make_case(rng, tier, k):
    if k >= N_REGULAR.get(tier, 200):
        s1, s2, meta = gen_big(rng, tier)
        flip = bool(k % 2)
        meta.update(flip=flip, tier=tier, polytopes=bool(npn.is_polytope(s1) and npn.is_polytope(s2)))
        return dict(c1=s1, c2=s2, ops=[dict(fn="epa", flip=flip)], meta=meta)
    smooth = rng.random() < 0.12
    kinds = nw.KINDS if smooth else KINDS_POLY
    s1, s2, meta = npn.gen_overlapping(rng, tier, kinds, margin_prob=0.1 if smooth else 0.0)
    flip = bool(k % 2)
    meta["flip"] = flip
    meta["tier"] = tier
    meta["polytopes"] = bool(npn.is_polytope(s1) and npn.is_polytope(s2))
    return dict(c1=s1, c2=s2, ops=[dict(fn="epa", flip=flip)], meta=meta)


def f2_predicate(r):
    """exact: GJK's work array had fewer than 4 live rows when it was handed to epa"""
    return r.get("n_points") is not None and r["n_points"] < 4


class Judge:
    """builds the checker expressions of one success=True result"""

    def __init__(self, case, r):
        self.case, self.r = case, r
        self.s1, self.s2 = case["c1"], case["c2"]
        self.L = case["meta"].get("L") or nw.scene_scale([self.s1, self.s2])
        self.tau = Fr(1e-6) * Fr(self.L)
        self.mtv = [float(x) for x in r["mtv"]]
        self.len = float(np.linalg.norm(self.mtv))
        self.A, self.B = nw.sh_expr(self.s1), nw.sh_expr(self.s2)
        self.poly = npn.is_polytope(self.s1) and npn.is_polytope(self.s2)
        self.DH = npn.diff_hull(self.s1, self.s2) if self.poly else None
        extra = [self.mtv] if self.len > 0 else []
        if case["meta"].get("dir"):
            extra.append(case["meta"]["dir"])
        self.depth_or, self.n_or = npn.min_extent(self.s1, self.s2, extra_dirs=extra, DH=self.DH)
        self.s2m = nw.translate_spec(self.s2, self.mtv)
        self.tree_stats = None
        self.tree_fail = None

    def touch_expr(self):
        tauf = float(self.tau)
        if self.len > 0.25 * tauf:
            n = self.mtv
        else:
            n = self.n_or
        self.n_touch = npn.rat_dir(n)
        a, b, dist = npn.closest_pair(self.s1, self.s2m)
        self.gap_float = dist
        self.pair = (a, b)
        wa = nw.wit_expr(self.s1, a)
        wb = "(WSum WPt " + nw.wit_expr(self.s2, b - np.array(self.mtv)) + ")"
        self.overlap_float = npn.extent(self.s1, self.s2m, np.array([float(x) for x in self.n_touch]) /
                                        np.linalg.norm([float(x) for x in self.n_touch]))
        return (f"touch_cert {self.A} {self.B} {nw.vq(self.mtv)} {nw.vq(self.n_touch)} {wa} {wb} {nw._q(self.tau)}")

    def parts_exprs(self):
        n = self.n_touch
        a, b = self.pair
        wa = nw.wit_expr(self.s1, a)
        wb = "(WSum WPt " + nw.wit_expr(self.s2, b - np.array(self.mtv)) + ")"
        sh = f"(shift {nw.vq(self.mtv)} {self.B})"
        return [f"overlap_le_cert {self.A} {sh} {nw.vq(n)} {nw._q(self.tau)}",
                f"near_cert {self.A} {sh} {wa} {wb} {nw._q(self.tau)}"]

    def minimal_expr(self):
        """(kind, expr): proof of |mtv| <= depth + tau, or None"""
        rho = Fr(self.len * (1 + 4e-16) + 1e-300) - self.tau
        if rho <= 0:
            return "short", f"len_le {nw.vq(self.mtv)} {nw._q(self.tau)}"
        if not self.poly:
            return None
        try:
            ws, te, st = npn.depth_ge_args(self.s1, self.s2, float(rho), DH=self.DH)
        except npn.TreeFail as e:
            self.tree_fail = str(e)[:200]
            return None
        self.tree_stats = st
        if st["nodes"] > MAX_TREE_NODES.get(self.case["meta"].get("tier", "quick"), 600):
            self.tree_fail = f"cone tree has {st['nodes']} nodes (not evaluated in this tier)"
            return None
        return "tree", (f"andb (depth_ge_cert {self.A} {self.B} {ws} {te} {nw._q(rho)}) "
                        f"(len_le {nw.vq(self.mtv)} ({nw._q(rho)} + {nw._q(self.tau)}))")

    def too_long_expr(self):
        return f"too_long_cert {self.A} {self.B} {nw.vq(npn.rat_dir(self.n_or))} {nw.vq(self.mtv)} {nw._q(self.tau)}"

    def gap_refute_expr(self):
        a, b = self.pair
        g = Fr(self.gap_float) * Fr(999, 1000)
        sh = f"(shift {nw.vq(self.mtv)} {self.B})"
        return f"andb (sep_cert {self.A} {sh} {nw.vq((b - a).tolist())} {nw._q(g)}) (Qlt_bool {nw._q(self.tau)} {nw._q(g)})"


def prepare(arg):
    """runs in a worker process of the harness: all float oracles and witness builders of one
    success=True result -> checker expressions (strings) and the floats the verdict logic needs"""
    i, case, r = arg
    try:
        J = Judge(case, r)
        out = dict(i=i, touch=J.touch_expr(), len=J.len, tau=float(J.tau), depth_or=J.depth_or, poly=J.poly,
                   gap_float=J.gap_float, overlap_float=J.overlap_float)
        tauf = float(J.tau)
        if J.len > J.depth_or + tauf * (1 + 1e-3):
            out["too_long"] = J.too_long_expr()
        else:
            m = J.minimal_expr()
            if m is not None:
                out["minimal"] = list(m)
        out["tree_stats"], out["tree_fail"] = J.tree_stats, J.tree_fail
        # second-pass material (used only when touch_cert is rejected)
        out["gap_refute"] = J.gap_refute_expr() if J.gap_float > tauf * (1 + 1e-2) else None
        ov, n_best = npn.min_extent(J.s1, J.s2m, extra_dirs=[J.mtv] if J.len > 0 else [])
        out["overlap_oracle"] = ov
        out["overlap_retry"] = f"overlap_le_cert {J.A} (shift {nw.vq(J.mtv)} {J.B}) {nw.vq(npn.rat_dir(n_best))} {nw._q(J.tau)}"
        out["near_retry"] = J.parts_exprs()[1]
        return out
    except Exception as e:  # noqa
        import traceback
        return dict(i=i, error=f"{type(e).__name__}: {e}", tb=traceback.format_exc()[-600:])


BIG = dict(max_faces=4096, max_loose_edges=2048, max_iter=1024)


def is_capacity_assert(r):
    return r.get("exc") == "AssertionError" and "extend_with_point" in r.get("tb", "") and "max_faces" in r.get("tb", "")


CORR_HEADER = """From Coq Require Import List PrimFloat.
From D3 Require Import Base.Ops Base.Vec Model.EpaRun.
Import ListNotations.
Open Scope float_scope.
"""
CORR_TOL = 1e-9


N_PERT = 3


def model_exprs(case, r):
    """Model/EpaRun.epa_run_m (binary64, whole EPA loop) for vertex-hull pairs with four live rows: the exact inputs
    first, then N_PERT copies with every coordinate moved by a few ulps of the scene size (stability probe)"""
    import random
    s1, s2 = case["c1"], case["c2"]
    if s1["kind"] != "hull" or s2["kind"] != "hull" or "margin" in s1 or "margin" in s2:
        return None
    if r.get("n_points") != 4 or r.get("simplex") is None or "skipped" in r or r.get("stage") != "epa":
        return None
    S = [list(map(float, row)) for row in r["simplex"]]
    if case["ops"][0].get("flip"):
        S = [S[0], S[2], S[1], S[3]]
    if not all(np.isfinite(x) for row in S for x in row):
        return None
    L = case["meta"].get("L") or 1.0
    rng = random.Random(cm.canon_hash(dict(c1=s1, c2=s2)))
    fv = lambda v: "(V " + " ".join(cm.fhex(x) for x in v) + ")"
    out = []
    for k in range(1 + N_PERT):
        def pv(v):
            if k == 0:
                return [float(x) for x in v]
            return [float(x) + rng.choice([-4, -3, -2, -1, 1, 2, 3, 4]) * 2.0 ** -52 * L for x in v]
        V1 = [pv(v) for v in s1["vertices"]]
        V2 = [pv(v) for v in s2["vertices"]]
        SS = [pv(row) for row in S]
        hull = lambda V: "[" + "; ".join(fv(v) for v in V) + "]"
        out.append(f"epa_run_m {cm.fhex(1e-8)} 64 32 64 {hull(V1)} {hull(V2)} " + " ".join(fv(row) for row in SS))
    return out


def correspondence(R, cases, results):
    """success flag, mtv and number of faces of epa() against the binary64 run of Model/Epa.v.  Discrete observables
    (success, number of faces) and the vector itself are only demanded to agree where the MODEL's own behaviour is stable
    under perturbations of a few ulps of all inputs and np.argmin never had to decide between faces closer than 1e-9 L
    (lattice scenes: coplanar faces, dot products that are 0 up to rounding, BLAS/FMA order); otherwise only |mtv|."""
    import re
    exprs, idx = [], []
    for i, (c, r) in enumerate(zip(cases, results)):
        e = model_exprs(c, r)
        if e is not None:
            exprs += e
            idx.append(i)
    stats = dict(compared=0, agree=0, agree_length_only_model_unstable=0, mismatch=0, capacity_both=0)
    if not exprs:
        return stats
    try:
        outs = cm.coq_eval_lines(PID, CORR_HEADER, exprs, tag="model", per_file=8, timeout=1500)
    except RuntimeError as e:
        if "inconsistent assumptions" in str(e):
            cm.coq_build(BUILD_TARGETS)
            try:
                outs = cm.coq_eval_lines(PID, CORR_HEADER, exprs, tag="model", per_file=8, timeout=1500)
            except RuntimeError as e2:
                R.corr_broken.append(f"model evaluation failed: {str(e2)[:300]}")
                return stats
        else:
            R.corr_broken.append(f"model evaluation failed: {str(e)[:300]}")
            return stats
    num = r"\(?(-?[0-9.e+-]+|infinity|nan)\)?"
    pat = re.compile(r"\((\d+)%nat,\s*\{\|\s*vx := " + num + r"; vy := " + num + r"; vz := " + num + r"\s*\|\},\s*(\d+)%nat,\s*" + num + r"\)")

    def parse(o):
        m = pat.match(o.replace("\n", " "))
        if not m:
            return None
        return (int(m.group(1)), [float(x) for x in m.group(2, 3, 4)], int(m.group(5)), float(m.group(6).replace("infinity", "inf")))
    for n, i in enumerate(idx):
        runs = [parse(o) for o in outs[n * (1 + N_PERT):(n + 1) * (1 + N_PERT)]]
        if any(x is None for x in runs):
            R.corr_broken.append(f"unparsable model output for case {i}")
            continue
        tag, mv, nf, margin = runs[0]
        r = results[i]
        L = cases[i]["meta"].get("L") or 1.0
        stable = (margin > 1e-9 * L and all(x[0] == tag and x[2] == nf and x[3] > 1e-9 * L and
                                            max(abs(a - b) for a, b in zip(x[1], mv)) <= CORR_TOL * L for x in runs[1:]))
        stats["compared"] += 1
        if "exc" in r:
            ok = (tag == 2 and is_capacity_assert(r)) or not stable
            stats["capacity_both"] += int(tag == 2 and is_capacity_assert(r))
            impl = r["exc"]
        elif r.get("success"):
            dev = max(abs(a - b) for a, b in zip(mv, r["mtv"]))
            if stable:
                ok = tag == 1 and dev <= CORR_TOL * L and nf == r.get("n_faces")
            else:
                ok = tag != 1 or abs(float(np.linalg.norm(mv)) - float(np.linalg.norm(r["mtv"]))) <= 1e-6 * L
                stats["agree_length_only_model_unstable"] += int(ok)
            impl = (r["mtv"], r.get("n_faces"))
        else:
            ok = tag == 0 or not stable
            impl = "success=False"
        if ok:
            stats["agree"] += 1
        else:
            stats["mismatch"] += 1
            if len(R.corr_broken) < 5:
                R.corr_broken.append(f"Model/Epa.v vs epa() on case {i} ({cases[i]['meta'].get('stream')}): model tag={tag} mtv={mv} faces={nf} "
                                     f"argmin margin={margin} (stable under ulp perturbations); implementation {impl}")
    return stats


def run(tier, seed, replay=None):
    R = cm.Run(PID, "translation_validation", tier, seed)
    R.cov["rule"] = ("case = overlapping ordered pair of colliders (88% box/hull/mesh without margin, 12% all kinds) + simplex winding "
                     "(as returned / rows 1,2 swapped); streams: depth (B placed along a direction so that the overlap extent along it "
                     "is delta in {1e-6..1} * size), lattice (axis permutations, 45 deg, sizes and offsets from {1/4..4}: exact coincidences), "
                     "deep (nearby centres), nested (small inside large), big (18% of the cases: feature sizes 15 .. 100, penetration 1 .. 50 in "
                     "absolute units; curved x curved, curved x polytope, 12-30-vertex polytopes, a polytope against a slightly smaller copy of "
                     "itself turned by 1e-6 .. 3e-4 rad = nearly coplanar vertex families of A - B); overlap pre-checked by the harness' own float GJK; "
                     "distinct by canonical hash; non-trivial = gjk reported d == 0, epa returned success=True and the certificates were evaluated")
    R.assumptions += [
        "the verdict per input is a Coq theorem (Props/C07.v) applied to the implementation's output; universality over inputs comes from generation",
        "witnesses (direction, touching pair, cone tree from scipy's facets of conv(A-B), its split directions and points) are computed in floating point by the harness and are untrusted",
        "a collider's point set is the exact shape expression of the floats handed to its constructor (harness/narrow.py parts() is trusted for that translation)",
        "for non-polytope pairs (and when no cone tree is found) minimality is only searched for a certified refutation (sampled + locally optimised directions); absence of a refutation is not a proof there",
    ]
    tm = {}
    t0 = time.time()
    R.check_proofs(PROOF_FILES, build_targets=BUILD_TARGETS)
    tm['proofs'] = round(time.time() - t0, 1)
    t0 = time.time()
    cases = []
    corpus = cm.VERIF / "corpus" / PID
    if replay:
        cases.append(json.loads(open(replay).read())["case"])
    else:
        if corpus.exists():
            for f in sorted(corpus.glob("*.json")):
                cases.append(json.loads(f.read_text())["case"])
        n = N_REGULAR.get(tier, 200) + N_BIG.get(tier, 44)      # cases with k >= N_REGULAR[tier] come from the `big` stream
        seeds = [(R.rng.getrandbits(64), tier, k) for k in range(n)]
        cases += npn.par_map(PID, "c07", "make_case_seeded", seeds, tag="gen")
    for c in cases:
        c.pop("result", None)
    tm['generate'] = round(time.time() - t0, 1)
    t0 = time.time()
    results = [rr[0] for rr in npn.run_cases_confirmed(PID, cases)]
    tm['implementation'] = round(time.time() - t0, 1)
    R.cov["evaluations"] = len(cases)

    hist, arms, outcome = {}, {}, {}
    f2_cases, cap_cases = [], []

    def bump(d, k, n=1):
        d[k] = d.get(k, 0) + n

    # capacity assertions on polytope pairs: run again with enlarged capacities, judge that result too
    redo = [i for i, (c, r) in enumerate(zip(cases, results))
            if is_capacity_assert(r) and npn.is_polytope(c["c1"]) and npn.is_polytope(c["c2"]) and not f2_predicate(r)]
    big = {}
    if redo:
        rc = [dict(cases[i], ops=[dict(cases[i]["ops"][0], kw=BIG)]) for i in redo]
        for i, rr in zip(redo, npn.run_cases(PID, rc, tag="big")):
            big[i] = rr[0]

    # GJK stopped with fewer than 4 live rows: run the same query again with the dead rows replaced by proper support
    # points (completed tetrahedron, enlarged capacities); F2 is only blamed if EPA is right on that input
    COMP = 1000000
    comp_idx = [i for i, r in enumerate(results) if f2_predicate(r) and r.get("stage") == "epa"]
    comp = {}
    if comp_idx:
        rc = [dict(cases[i], ops=[dict(cases[i]["ops"][0], kw=BIG, complete=True)]) for i in comp_idx]
        for i, rr in zip(comp_idx, npn.run_cases_confirmed(PID, rc, tag="comp")):
            comp[i] = rr[0]

    to_judge = []
    for i, rcm in comp.items():
        if rcm.get("success") and "exc" not in rcm and rcm.get("mtv") is not None and all(np.isfinite(rcm["mtv"])):
            to_judge.append((COMP + i, cases[i], rcm))
    for i, (c, r) in enumerate(zip(cases, results)):
        meta = c.get("meta", {})
        bump(hist, meta.get("stream", "corpus") + ("/" + meta["sub"] if meta.get("sub") else ""))
        for k, v in r.get("arms", {}).items():
            bump(arms, k, v)
        poly = npn.is_polytope(c["c1"]) and npn.is_polytope(c["c2"])
        if "exc" in r and r.get("stage") != "epa":
            bump(outcome, "gjk_raised")
            R.failure(f"gjk raised {r['exc']}: {r.get('exc_msg', '')}", dict(c, result=r), site="gjk_distance_jolt")
            continue
        if "skipped" in r:
            bump(outcome, "gjk_no_overlap")
            continue
        bump(arms, f"gjk_exit_n_points_{r.get('n_points')}")
        if r.get("rows_supported") is not None and not all(r["rows_supported"]):
            bump(arms, "simplex_row_not_a_support_difference")
        if r.get("simplex_orientation") is not None:
            bump(arms, "simplex_winding_" + ("pos" if r["simplex_orientation"] > 0 else "neg" if r["simplex_orientation"] < 0 else "flat"))
        if "exc" in r or not r.get("success"):
            what = (f"epa raised {r['exc']}: {r.get('exc_msg', '')}" if "exc" in r else "epa returned success=False")
            bump(outcome, ("epa_raised_" + r["exc"] + ("_capacity" if is_capacity_assert(r) else "")) if "exc" in r else "epa_success_false")
            if poly:
                if f2_predicate(r):
                    f2_cases.append((i, what))
                elif i in big:
                    cap_cases.append(i)
                    rb = big[i]
                    if rb.get("success") and "exc" not in rb and (rb.get("faces_duplicate") or rb.get("faces_open_edges")):
                        # not the F19 class (a polytope that needs more than 64 faces): the buffer filled up with leaked faces
                        cap_cases.pop()
                        R.failure(what + f"; with max_faces=4096 EPA succeeds, but the polytope it returns then has {rb.get('faces_duplicate')} duplicate "
                                  f"triangles and {rb.get('faces_open_edges')} edges that are not shared by exactly two triangles (n_faces={rb.get('n_faces')}): "
                                  "the 64-slot face buffer was exhausted by faces that should have been removed, not by the size of the polytope",
                                  dict(c, result=r, result_big=rb), site="epa.epa")
                    elif rb.get("success") and "exc" not in rb and all(np.isfinite(rb["mtv"])):
                        to_judge.append((i, c, rb))
                    else:
                        R.failure(what + "; with max_faces=4096, max_loose_edges=2048, max_iter=1024: "
                                  + (f"raised {rb.get('exc')}" if "exc" in rb else "success=False"), dict(c, result=r, result_big=rb), site="epa.epa")
                else:
                    R.failure(what + " on a pair of small polytopes (all four simplex rows live)", dict(c, result=r), site="epa.epa")
            continue
        if not all(np.isfinite(r["mtv"])):
            bump(outcome, "non_finite")
            if f2_predicate(r):
                f2_cases.append((i, "success=True with a non-finite vector"))
            else:
                R.failure("success=True with a non-finite vector", dict(c, result=r), site="epa.epa")
            continue
        bump(outcome, "success")
        if r.get("faces_duplicate") or r.get("faces_open_edges"):
            bump(outcome, "success_but_returned_faces_not_a_closed_surface")
        to_judge.append((i, c, r))

    # float oracles + witness builders, in parallel
    t0 = time.time()
    try:
        prepared = npn.par_map(PID, "c07", "prepare", to_judge)
    except RuntimeError as e:
        R.corr_broken.append(str(e)[:400])
        prepared = []
    judged = {}
    exprs, slots = [], []
    for pz in prepared:
        if "error" in pz:
            R.corr_broken.append(f"harness oracle failed on case {pz['i']}: {pz['error']}")
            continue
        judged[pz["i"]] = pz
        exprs.append(pz["touch"])
        slots.append((pz["i"], "touch"))
        if "too_long" in pz:
            exprs.append(pz["too_long"])
            slots.append((pz["i"], "too_long"))
        elif "minimal" in pz:
            exprs.append(pz["minimal"][1])
            slots.append((pz["i"], "min_" + pz["minimal"][0]))
    tm['oracles_witnesses'] = round(time.time() - t0, 1)
    t0 = time.time()
    verdicts = npn_bools(R, exprs)
    tm['coq_certificates'] = round(time.time() - t0, 1)
    by_case = {}
    for (i, role), v in zip(slots, verdicts):
        by_case.setdefault(i, {})[role] = v

    distinct = set()
    unjudged = set()
    stats = dict(touch_proved=0, minimal_proved_tree=0, minimal_trivial_short=0, minimal_unproved_no_tree=0,
                 minimal_unproved_not_polytope=0, refuted_too_long=0, refuted_gap=0, refuted_overlap_oracle=0,
                 ambiguous=0)
    tree_nodes = []
    second, second_slots = [], []
    fails = {}
    for i, pz in judged.items():
        v = by_case.get(i, {})
        if not v or any(x is None for x in v.values()):
            unjudged.add(i)
            continue
        tauf = pz["tau"]
        problems = []
        if v.get("touch"):
            stats["touch_proved"] += 1
        else:
            if pz["gap_refute"]:
                second.append(pz["gap_refute"])
                second_slots.append((i, "gap_refuted"))
            if pz["overlap_oracle"] > tauf * (1 + 1e-2):
                problems.append(f"residual overlap after translating B by mtv is {pz['overlap_oracle']:.6g} > tau={tauf:.3g} in every direction "
                                f"(harness oracle: {'facets of conv(A-B), exact up to rounding' if pz['poly'] else 'sampled directions'})")
                stats["refuted_overlap_oracle"] += 1
            elif not pz["gap_refute"]:
                second.append(pz["overlap_retry"])
                second_slots.append((i, "overlap_retry"))
                second.append(pz["near_retry"])
                second_slots.append((i, "near_retry"))
        if "too_long" in v:
            if v["too_long"]:
                stats["refuted_too_long"] += 1
                problems.append(f"|mtv| = {pz['len']!r} exceeds the penetration depth (<= {pz['depth_or']!r}, certified by too_long_cert) by more than tau={tauf:.3g}")
            else:
                stats["ambiguous"] += 1
        elif v.get("min_tree"):
            stats["minimal_proved_tree"] += 1
            tree_nodes.append(pz["tree_stats"]["nodes"])
        elif v.get("min_short"):
            stats["minimal_trivial_short"] += 1
        elif "min_tree" in v or "min_short" in v:
            stats["minimal_unproved_no_tree"] += 1
            if len(R.notes) < 5:
                R.notes.append(f"cone tree rejected by the checker although the float oracle agrees (case {i})")
        elif pz["poly"]:
            stats["minimal_unproved_no_tree"] += 1
            if len(R.notes) < 5:
                R.notes.append(f"no cone tree (case {i}): {pz['tree_fail']}")
        else:
            stats["minimal_unproved_not_polytope"] += 1
        if problems:
            fails[i] = problems
        c = cases[i % COMP]
        distinct.add(cm.canon_hash(dict(c1=c["c1"], c2=c["c2"], flip=c["meta"].get("flip"), completed=i >= COMP)))
    if second:
        sv = npn_bools(R, second, tag="cert2")
        retry = {}
        for (i, role), v in zip(second_slots, sv):
            retry.setdefault(i, {})[role] = v
        for i, v in retry.items():
            pz = judged[i]
            if v.get("gap_refuted"):
                stats["refuted_gap"] += 1
                fails.setdefault(i, []).append(f"after translating B by mtv the colliders are still {pz['gap_float']:.6g} > tau={pz['tau']:.3g} apart (certified by sep_cert)")
            elif "overlap_retry" in v:
                if v.get("overlap_retry") and v.get("near_retry"):
                    stats["touch_proved"] += 1
                elif i not in fails:
                    stats["ambiguous"] += 1
    # ---------------------------------------------------------------- verdicts
    def completed_ok(i):
        """the same query with a proper tetrahedron instead of GJK's work array succeeded and passed every certificate"""
        k = COMP + i
        return k in judged and k not in fails and k not in unjudged

    comp_status = dict(passed=0, failed=0, unavailable=0)
    for i in comp:
        if completed_ok(i):
            comp_status["passed"] += 1
        elif "skipped" in comp[i]:
            comp_status["unavailable"] += 1
        else:
            comp_status["failed"] += 1
    for i, problems in fails.items():
        if i >= COMP:
            continue            # completed-simplex reruns are only evidence for the F2 attribution below
        c, r = cases[i], results[i]
        if f2_predicate(r):
            f2_cases.append((i, problems[0]))
        else:
            extra = " [result obtained with enlarged capacities after the default run hit max_faces]" if i in big else ""
            R.failure("; ".join(problems) + extra, dict(c, result=big.get(i, r)), site="epa.epa")
    # F2 attribution: n_points < 4 AND (EPA is right once the dead rows are replaced, or no tetrahedron exists and a dead
    # row is demonstrably not a support difference of this run)
    f2_ok, f2_not = [], []
    for i, what in f2_cases:
        r = results[i]
        dead_unsupported = r.get("rows_supported") is not None and not all(r["rows_supported"][(r.get("n_points") or 0):])
        if completed_ok(i) or ("skipped" in comp.get(i, {}) and dead_unsupported):
            f2_ok.append((i, what))
        else:
            f2_not.append((i, what))
    for i, what in f2_not[:5]:
        rcm = comp.get(i, {})
        R.failure(what + " [GJK stopped with n_points < 4, but the same query with the dead rows replaced by support points does not pass either: "
                  + (f"raised {rcm.get('exc')}" if "exc" in rcm else f"success={rcm.get('success')} problems={fails.get(COMP + i)}") + "]",
                  dict(cases[i], result=r, result_completed=rcm), site="epa.epa")
    f2_cases = f2_ok
    known = {e["id"]: e for e in R.known}
    for e in R.known:          # tolerate other ids: match the entries by their call site
        site = e.get("site", "")
        if "extend_with_point" in site:
            known.setdefault("F19", e)
    if f2_cases:
        if "F2" in known:
            R.known_finding("F2", f"{F2_WHAT}; {len(f2_cases)} of {len(cases)} cases this run, e.g. {f2_cases[0][1][:160]}")
        else:
            for i, what in f2_cases[:5]:
                R.failure(what + " [GJK stopped with n_points < 4]", dict(cases[i], result=results[i]), site="gjk_distance_jolt->epa.epa")
    if cap_cases:
        if "F19" in known:
            R.known_finding("F19", f"{CAP_WHAT}; {len(cap_cases)} of {len(cases)} cases this run")
        else:
            for i in cap_cases[:5]:
                R.failure(CAP_WHAT + f" (with max_faces=4096: success, n_faces={big[i].get('n_faces')})",
                          dict(cases[i], result=results[i]), site="epa.Polytope.extend_with_point")
    t0 = time.time()
    R.cov["model_correspondence"] = correspondence(R, cases, results)
    tm["model_correspondence"] = round(time.time() - t0, 1)
    R.cov["phase_s"] = tm
    R.cov["programs"] = len(judged)
    R.cov["disagreements_checked"] = len(fails) + len(f2_cases) + len(cap_cases)
    R.cov["distinct_nontrivial"] = len(distinct)
    R.cov["input_histogram"] = hist
    R.cov["outcomes"] = outcome
    R.cov["verdicts"] = stats
    R.cov["arms"] = dict(sorted(arms.items()))
    R.cov["arms_not_reached"] = [a for a in ALL_ARMS if a not in arms]
    R.cov["f2_cases_gjk_exit_with_fewer_than_4_points"] = len(f2_cases)
    R.cov["f2_completed_simplex_reruns"] = dict(run=len(comp), **comp_status)
    R.cov["capacity_cases_rerun_with_enlarged_limits"] = len(cap_cases)
    if tree_nodes:
        R.cov["cone_tree_nodes"] = dict(min=min(tree_nodes), median=int(np.median(tree_nodes)), max=max(tree_nodes))
    for i in [k for k in judged if k < COMP][:3]:
        c, r = cases[i], results[i]
        R.sample(dict(c1=c["c1"], c2=c["c2"], meta=c["meta"],
                      result={k: r.get(k) for k in ("mtv", "success", "n_faces", "n_points", "simplex", "arms")},
                      oracle_depth=judged[i]["depth_or"]))
    return R.finish()


def npn_bools(R, exprs, tag="cert"):
    """evaluate boolean checker expressions; None per expression if coqc could not be run"""
    if not exprs:
        return []
    outs = None
    for attempt in range(3):
        try:
            outs = cm.coq_eval_lines(PID, npn.COQ_HEADER, exprs, tag=tag, per_file=10, timeout=1500)
            break
        except RuntimeError as e:
            if attempt < 2 and "inconsistent assumptions" in str(e):
                import time as _t
                _t.sleep(15 * attempt)
                cm.coq_build(BUILD_TARGETS)     # another agent rebuilt a dependency meanwhile
                continue
            R.proof_broken.append(f"checker evaluation failed: {str(e)[:400]}")
            return [None] * len(exprs)
    res = []
    for o in outs:
        o = o.strip()
        if o not in ("true", "false"):
            R.proof_broken.append(f"unexpected checker output {o[:200]}")
            return [None] * len(exprs)
        res.append(o == "true")
    return res
