"""C16 — hydroelastic contact forces obey action-reaction, symmetry and frame invariance.

Property verdicts (per generated pair of factory bodies at arbitrary poses of BOTH bodies):
  action-reaction   f12 = -f21 in the world frame
  swap              contact_forces(b2, b1) returns the two wrenches swapped
  common motion     contact_forces(g b1, g b2) returns both wrenches rotated by g
  repetition        calling again on the same (re-expressed) objects, also after an interleaved
                    call against a third body, reproduces the wrenches
  each within 5 % of the force magnitude (torques: of force magnitude x size), with an
  unchanged intersection flag; and the tree broad phase yields exactly the pair set of the
  brute-force broad phase (compared as sets, exactly).
Proofs (Props/C16.v, about Model/HydroWrench.v over the reals): the wrench transform
satisfies action-reaction, swap symmetry and equivariance under a common rigid motion;
express_in is idempotent and clears every cache; tree query = brute force (corollary of the
C05 theorems).
Tie to the code: the PrimFloat instance of the model's accumulate_wrenches is run on the
implementation's own contact surface (forces, centres, centres of mass, frame) and must
reproduce both wrenches; express_in is compared on a sample of vertices; cached properties
(com, aabbs, tetrahedra_points, root AABB) must equal those of a body rebuilt from the
current vertices after every call.
"""
import json
import math

from .. import common as cm
from .. import hydrogen as hg
from . import c15 as k15

PID = "C16"
PROOF_FILES = ["theories/Props/C16.v", "theories/Proofs/HydroWrenchProofs.v", "theories/Proofs/HydroBroad.v"]
TOL = 0.05
BUILD_TARGETS = ["theories/Props/C16.vo", "theories/Model/HydroRun.vo", "theories/Checker/Poly.vo"]

MODEL_HEADER = """From Coq Require Import List ZArith PrimFloat.
From D3 Require Import Base.Ops Base.Vec Model.AabbTree Model.Hydro Model.HydroWrench Model.HydroRun.
Import ListNotations.
Open Scope float_scope.
"""


def fv(p):
    return "(V " + " ".join(cm.fhex(x) for x in p) + ")"


def fpose(T):
    return "(mk_pose " + " ".join(cm.fhex(T[i][j]) for i in range(3) for j in range(3)) + " " + \
        " ".join(cm.fhex(T[i][3]) for i in range(3)) + ")"


def flist(xs, f):
    return "[" + "; ".join(f(x) for x in xs) + "]"


def norm(v):
    return math.sqrt(sum(x * x for x in v))


def sub(a, b):
    return [x - y for x, y in zip(a, b)]


def rot_apply(T, v):
    return [sum(T[i][k] * v[k] for k in range(3)) for i in range(3)]


def dev(a, b):
    return norm(sub(a, b))


def gen_case(rng, k, tier):
    mode = ["random", "random", "lattice", "stacked", "random", "separated", "stacked", "random"][k % 8]
    s1, s2 = hg.body_pair(rng, mode, fine=(tier != "quick" and rng.random() < 0.2))
    c = dict(b1=s1, b2=s2, g=hg.rigid_motion(rng, 1.0, lattice=(k % 16 == 3)), mode=mode, cls=mode, broad=(k % 2 == 0),
             max_rows=400, details_k=5 if tier == "quick" else 16)
    if k % 8 == 6:
        # body 2 strongly elongated along its own x axis (sweep-type broad phases depend on the axis)
        a = hg.logu(rng, 0.1, 2.0)
        s2 = dict(shape="box", params=dict(size=[a * rng.uniform(3.0, 6.0), a * rng.uniform(0.3, 0.6), a * rng.uniform(0.4, 0.8)]),
                  pose=s2["pose"], E=s2["E"])
        ctr = [s2["pose"][i][3] + 0.3 * a * rng.uniform(-1, 1) for i in range(3)]
        s1 = dict(s1, pose=hg.pose([r[:3] for r in s1["pose"][:3]], ctr))
        c.update(b1=s1, b2=s2, cls="elongated", broad=True)
    if k % 2 == 1:
        # a call history on the same objects: three bodies, roles / frames change, in-place pose updates, cache reads
        s3, _ = hg.body_pair(rng, "random")
        ctr = [0.5 * (s1["pose"][i][3] + s2["pose"][i][3]) + 0.3 * hg.body_size(s1) * rng.uniform(-1, 1) for i in range(3)]
        s3["pose"] = hg.pose(hg.rand_rot(rng), ctr)
        steps = []
        # always: b2 second, then b2 first against b3 (re-expressed), then b2 second again; tree mode twice around a frame change
        fixed = [((0, 1), "cf"), ((1, 2), "brute"), ((0, 1), "tree"), ((0, 2), "tree"), ((0, 1), "tree"), ((1, 0), "cf")]
        for n_step, item in enumerate(fixed + [None, None]):
            pr, mode = item if item is not None else (None, None)
            if pr is None:
                i3 = rng.randrange(3)
                j3 = rng.choice([x for x in range(3) if x != i3])
                pr, mode = (i3, j3), rng.choice(["cf", "brute", "tree"])
            st = dict(pair=list(pr), mode=mode, read=[x for x in range(3) if rng.random() < 0.5])
            if n_step > 0 and rng.random() < 0.5:
                sc = 0.15 * hg.body_size(s1)
                if rng.random() < 0.3:
                    # rotate about the origin of the frame the body is expressed in (right multiplication)
                    q = [1.0] + [0.2 * rng.uniform(-1, 1) for _ in range(3)]
                    st["move"] = [rng.randrange(3), hg.pose(hg.rot_from_quat(q), [0.0, 0.0, 0.0]), "right"]
                else:
                    st["move"] = [rng.randrange(3), hg.pose(hg.IDENT, [sc * rng.uniform(-1, 1) for _ in range(3)]), "left"]
            steps.append(st)
        c["history"] = dict(specs=[s1, s2, s3], steps=steps)
    if k % 4 == 1:
        # a third body near body 1 for interleaved calls
        s3, _ = hg.body_pair(rng, "random")
        ctr = [s1["pose"][i][3] + 0.3 * hg.body_size(s1) * rng.uniform(-1, 1) for i in range(3)]
        s3["pose"] = hg.pose(hg.rand_rot(rng), ctr)
        c["b3"] = s3
    return c


def run_workers(cases, tag, per=1, timeout=2400):
    res, _ = hg.run_cases(cm, PID, "c16", cases, tag, per=per, timeout=timeout, notes=WORKER_NOTES)
    return res


WORKER_NOTES = []


def cross3(a, b):
    return [a[1] * b[2] - a[2] * b[1], a[2] * b[0] - a[0] * b[2], a[0] * b[1] - a[1] * b[0]]


def run_wrench_AB(run, order, g, exclude):
    """world-frame (force on A, torque on A about its centre of mass, force on B, torque on B) of one run from its contacts,
    leaving out the tetrahedron pairs in `exclude` (keys (index in A, index in B)); a common motion g is undone."""
    T = run["frame2world"]
    F1, T1, T2 = [0.0] * 3, [0.0] * 3, [0.0] * 3
    for ct in run["contacts"]:
        key = (ct["i"], ct["j"]) if order == "12" else (ct["j"], ct["i"])
        if key in exclude:
            continue
        f = ct["force"]
        F1 = [F1[k] + f[k] for k in range(3)]
        t1 = cross3(sub(ct["com"], run["com1"]), f)
        t2 = cross3(sub(ct["com"], run["com2"]), [-x for x in f])
        T1 = [T1[k] + t1[k] for k in range(3)]
        T2 = [T2[k] + t2[k] for k in range(3)]
    w = [rot_apply(T, F1), rot_apply(T, T1), rot_apply(T, [-x for x in F1]), rot_apply(T, T2)]
    if g is not None:
        Rt = [[g[j][i] for j in range(3)] for i in range(3)]
        w = [rot_apply(Rt, v) for v in w]
    return w if order == "12" else [w[2], w[3], w[0], w[1]]


RUNS = {   # comparison group -> (run A, run B) as (pair of body indices in specs, pre-calls, moved by g?)
    "swap": (((0, 1), [], False), ((1, 0), [], False)),
    "common motion": (((0, 1), [], False), ((0, 1), [], True)),
    "repeat 1": (((0, 1), [], False), ((0, 1), [[0, 1]], False)),
    "repeat 2": (((0, 1), [], False), ((0, 1), [[0, 1], [0, 1]], False)),
    "after an interleaved call against a third body": (((0, 1), [], False), ((0, 1), [[0, 1], [0, 1], [0, 1], [0, 2]], False)),
    "call against the third body vs fresh bodies": (((0, 2), [], False), ((0, 2), [[0, 1], [0, 1], [0, 1]], False)),
}


def explained(R, c, group, fm, tq):
    """Does a known finding EXPLAIN the failed comparison of `group`?  Both runs are repeated with per-contact output; the
    tetrahedron pairs of the finding's input class are determined per pair -
      F17: |raw plane normal| / (|E1 grad p1| + |E2 grad p2|) < 1e-9 in either run (rounding-noise plane),
      lost vertex (F26): hydrogen.concurrent_lines AND (area != exact rational area in either run, or the pair is reported
      by one run only) -
    and left out of BOTH sums.  Only if the remaining wrenches agree within 5 % the finding explains the failure.
    Returns the id of the explaining known finding or None."""
    if group not in RUNS:
        group = "swap"
    f17 = [k for k in R.known if k.get("id") == "F17"]
    lostk = [k for k in R.known if "concurrent_lines" in k.get("match", "")]
    if not f17 and not lostk:
        return None
    specs = [c["b1"], c["b2"]] + ([c["b3"]] if c.get("b3") is not None else [])
    (pa, prea, ga), (pb, preb, gb) = RUNS[group]
    if max(pa + pb) >= len(specs):
        return None
    cases = [dict(kind="contacts", specs=specs, pair=list(pa), pre=prea, g=c["g"] if ga else None),
             dict(kind="contacts", specs=specs, pair=list(pb), pre=preb, g=c["g"] if gb else None)]
    res, _ = hg.run_cases(cm, PID, "c16", cases, "explain", per=1, timeout=2400)
    if any(x is None or "exc" in x for x in res):
        return None
    A, B = res
    oa = "12"
    ob = "21" if (pb[0], pb[1]) == (pa[1], pa[0]) else "12"

    def keyed(run, order):
        return {((ct["i"], ct["j"]) if order == "12" else (ct["j"], ct["i"])): ct for ct in run["contacts"]}
    ka, kb = keyed(A, oa), keyed(B, ob)
    noise = {k for k, ct in list(ka.items()) + list(kb.items()) if ct["ratio"] < 1e-9}
    lost = set()
    if lostk:
        for k in set(ka) | set(kb):
            ct = ka.get(k) or kb.get(k)
            bad = (k not in ka) or (k not in kb)
            for x in (ka.get(k), kb.get(k)):
                if x is not None and not bad:
                    Lc = k15.scale_of(x["t1"], x["t2"])
                    if abs(hg.exact_area(hg.exact_polygon(x["t1"], x["t2"], x["plane"]), x["plane"]) - x["area"]) > 1e-9 * Lc * Lc:
                        bad = True
            if bad and hg.concurrent_lines(ct["t1"], ct["t2"], ct["plane"]):
                lost.add(k)

    def agree(excl):
        wa = run_wrench_AB(A, oa, c["g"] if ga else None, excl)
        wb = run_wrench_AB(B, ob, c["g"] if gb else None, excl)
        return max(dev(wa[0], wb[0]) / fm, dev(wa[2], wb[2]) / fm, dev(wa[1], wb[1]) / tq, dev(wa[3], wb[3]) / tq) <= TOL
    if agree(set()):
        return None          # the re-run does not even show the failure: nothing to attribute
    if f17 and noise and agree(noise):
        return "F17"
    if lostk and lost and agree(noise | lost):
        return lostk[0]["id"] if not (noise and f17) or agree(lost) else "F17"
    return None


def judge(R, c, r, stats):
    """property verdicts for one case; returns True if the case was non-trivial (a contact)"""
    if r is None or "exc" in r:
        R.failure(f"contact_forces raised {None if r is None else r.get('exc')}: {None if r is None else r.get('exc_msg')}", c,
                  site="contact_forces")
        return False
    base, sw, mv = r["base"], r["swap"], r["moved"]
    G = c["g"]
    Ls = max(hg.body_size(c["b1"]), hg.body_size(c["b2"]))
    Ls += dev([c["b1"]["pose"][i][3] for i in range(3)], [c["b2"]["pose"][i][3] for i in range(3)])
    f12 = base["w12"][:3]
    fm = max(norm(f12), norm(base["w21"][:3]), norm(sw["w21"][:3]), norm(sw["w12"][:3]), norm(mv["w12"][:3]))
    # contact forces that cancel (a bar passing symmetrically through a block): the net force is rounding noise of the
    # individual contact forces; "5 % of the force magnitude" is then taken of 1e-6 x the sum of the contact force magnitudes
    floor = 1e-6 * r["internals"].get("force_abs_sum", 0.0)
    if 0.0 < fm < floor:
        stats["cancelling_force_cases"] = stats.get("cancelling_force_cases", 0) + 1
        fm = floor
    # a grazing contact: every observed force is below 1e-9 of the natural force scale E * size^3 of the pair; the
    # relative comparisons are meaningless there (flags may flicker), nothing is judged
    fscale = max(c["b1"].get("E", 1.0), c["b2"].get("E", 1.0)) * min(hg.body_size(c["b1"]), hg.body_size(c["b2"])) ** 3
    if 0.0 < fm < 1e-9 * fscale:
        stats["grazing_flag_changes"] += 1
        return False
    ratios = [x.get("min_normal_ratio") for x in (r["internals"], sw, mv, r["repeat2"]) if x.get("min_normal_ratio") is not None]
    for key in ("inter_b3", "inter_back", "b3_fresh"):
        if key in r and r[key].get("min_normal_ratio") is not None:
            ratios.append(r[key]["min_normal_ratio"])
    noise_plane = bool(ratios) and min(ratios) < 1e-9
    has_f17 = any(k.get("id") == "F17" for k in R.known)

    def fail(what, group="swap"):
        # a known finding is credited only if leaving out the tetrahedron pairs of ITS input class from both runs
        # brings the comparison back under 5 % (explained()); the scene-wide indicators are not sufficient
        kid = explained(R, c, group, fm, fm * Ls)
        if kid is not None:
            stats["f17_inputs" if kid == "F17" else "lost_vertex_inputs"] = stats.get("f17_inputs" if kid == "F17" else "lost_vertex_inputs", 0) + 1
            kf = [k for k in R.known if k.get("id") == kid][0]
            R.known_finding(kid, kf.get("what", what)[:300])
            if sum(1 for n in R.notes if isinstance(n, dict) and n.get("known_finding_input") == kid) < 2:
                R.notes.append(dict(known_finding_input=kid, comparison=what, case=c))
        else:
            R.failure(what + f" (force magnitude {fm:.6g}, worst plane conditioning {min(ratios) if ratios else None}; no known "
                             f"finding explains it: leaving out the rounding-noise planes / lost-vertex contacts does not restore agreement)",
                      c, site="contact_forces")

    flags = dict(base=base["inter"], swap=sw["inter"], moved=mv["inter"], repeat1=r["repeat1"]["inter"], repeat2=r["repeat2"]["inter"],
                 internals=r["internals"]["inter"])
    if "inter_back" in r:
        flags["inter_back"] = r["inter_back"]["inter"]
    if len(set(flags.values())) > 1:
        # a grazing contact of negligible force may appear / disappear; anything else is a failure
        if fm > 0 and any(norm(x["w12"][:3]) > 1e-9 * max(1.0, fm) for x in (base, sw, mv)) and \
                max(norm(x["w12"][:3]) for x in (base, sw, mv)) > 1e-6 * max(r["internals"].get("force_abs_sum", 0.0), 1e-300):
            grp = ("swap" if flags["swap"] != flags["base"] else "common motion" if flags["moved"] != flags["base"] else
                   "repeat 1" if flags["repeat1"] != flags["base"] else "repeat 2" if flags["repeat2"] != flags["base"] else
                   "after an interleaved call against a third body")
            fail(f"intersection flag changes: {flags}", grp)
        else:
            stats["grazing_flag_changes"] += 1
    if fm == 0.0:
        for name, x in (("base", base), ("swap", sw), ("moved", mv), ("repeat1", r["repeat1"]), ("repeat2", r["repeat2"])):
            if any(v != 0.0 for v in x["w12"] + x["w21"]):
                R.failure(f"zero force but non-zero wrench in {name}: {x['w12']} {x['w21']}", c, site="accumulate_wrenches")
        if base["inter"] and c["mode"] == "separated":
            R.failure("separated bodies reported as intersecting", c, site="find_contact_surface")
        return False
    tq = fm * Ls
    checks = [
        ("action-reaction: f12 + f21", dev(f12, [-x for x in base["w21"][:3]]) / fm),
        ("swap: f21(b2,b1) vs f12(b1,b2)", dev(sw["w21"][:3], f12) / fm),
        ("swap: f12(b2,b1) vs f21(b1,b2)", dev(sw["w12"][:3], base["w21"][:3]) / fm),
        ("swap: torque21(b2,b1) vs torque12(b1,b2)", dev(sw["w21"][3:], base["w12"][3:]) / tq),
        ("swap: torque12(b2,b1) vs torque21(b1,b2)", dev(sw["w12"][3:], base["w21"][3:]) / tq),
        ("common motion: f12", dev(mv["w12"][:3], rot_apply(G, f12)) / fm),
        ("common motion: f21", dev(mv["w21"][:3], rot_apply(G, base["w21"][:3])) / fm),
        ("common motion: torque12", dev(mv["w12"][3:], rot_apply(G, base["w12"][3:])) / tq),
        ("common motion: torque21", dev(mv["w21"][3:], rot_apply(G, base["w21"][3:])) / tq),
        ("repeat 1: f12", dev(r["repeat1"]["w12"][:3], f12) / fm),
        ("repeat 2: f12", dev(r["repeat2"]["w12"][:3], f12) / fm),
        ("repeat 2: f21", dev(r["repeat2"]["w21"][:3], base["w21"][:3]) / fm),
        ("repeat 2: torque12", dev(r["repeat2"]["w12"][3:], base["w12"][3:]) / tq),
        ("repeat 2: torque21", dev(r["repeat2"]["w21"][3:], base["w21"][3:]) / tq),
    ]
    if "inter_back" in r:
        checks += [("after an interleaved call against a third body: f12", dev(r["inter_back"]["w12"][:3], f12) / fm),
                   ("after an interleaved call against a third body: torque21", dev(r["inter_back"]["w21"][3:], base["w21"][3:]) / tq)]
        f3 = max(norm(r["b3_fresh"]["w12"][:3]), norm(r["inter_b3"]["w12"][:3]))
        if f3 > 0:
            checks += [("call against the third body vs fresh bodies: f12", dev(r["inter_b3"]["w12"][:3], r["b3_fresh"]["w12"][:3]) / f3),
                       ("call against the third body vs fresh bodies: torque21",
                        dev(r["inter_b3"]["w21"][3:], r["b3_fresh"]["w21"][3:]) / (f3 * Ls))]
    for name, val in checks:
        grp = name.split(":")[0]
        stats["worst"][grp] = max(stats["worst"].get(grp, 0.0), val if not (noise_plane) else 0.0)
        if val > TOL:
            fail(f"{name}: relative deviation {val:.4g} > 5 %", grp)
            break
    return True


def judge_history(R, c, r, stats):
    """the call history on the same objects against the cache-free snapshots"""
    h = r.get("history") if r and "exc" not in r else None
    if not h:
        return
    stats["history_steps"] = stats.get("history_steps", 0) + len(h)
    Ls = max(hg.body_size(sp) for sp in c["history"]["specs"])
    for k, (st, o) in enumerate(zip(c["history"]["steps"], h)):
        e, g = o["exp"], o["got"]
        fm = max(norm(e["w12"][:3]), norm(g["w12"][:3]))
        where = f"history step {k} ({st['mode']}, bodies {st['pair']}, in-place move {'yes' if st.get('move') else 'no'})"
        if o.get("moved_others"):
            R.failure(f"{where}: the in-place update of the pose array of body {st['move'][0]} moved the world vertices of bodies "
                      f"{o['moved_others']} as well (a body shares its pose array with another one after an earlier call)", c,
                      site="RigidBody.express_in (call history)")
            return
        if e["inter"] != g["inter"] and fm > 0:
            R.failure(f"{where}: intersection flag {g['inter']} on the live objects, {e['inter']} on cache-free copies of their state", c,
                      site="contact_forces (call history)")
            return
        if e["pairs"] is not None and e["pairs"] != g["pairs"]:
            only_g = [p for p in g["pairs"] if p not in e["pairs"]][:4]
            only_e = [p for p in e["pairs"] if p not in g["pairs"]][:4]
            R.failure(f"{where}: intersecting tetrahedron pairs differ from those of cache-free copies of the same state: "
                      f"only live {only_g} only copies {only_e}", c, site="find_contact_surface (call history)")
            return
        if fm > 0:
            df = max(dev(e["w12"][:3], g["w12"][:3]), dev(e["w21"][:3], g["w21"][:3])) / fm
            dtq = max(dev(e["w12"][3:], g["w12"][3:]), dev(e["w21"][3:], g["w21"][3:])) / (fm * (Ls + 1e-300))
            stats["worst"]["history"] = max(stats["worst"].get("history", 0.0), df, dtq)
            if max(df, dtq) > TOL:
                R.failure(f"{where}: wrenches on the live objects deviate by {max(df, dtq):.3g} (> 5 %) from those of cache-free copies "
                          f"of the same state", c, site="contact_forces (call history)")
                return
            if max(df, dtq) > 1e-9:
                R.corr_broken.append(f"{where}: live objects and cache-free copies differ by {max(df, dtq):.3g}")
        for key in ("caches_i", "caches_j"):
            if not all(o[key].values()):
                R.corr_broken.append(f"{where}: stale cached property afterwards: {o[key]}")
                R.notes.append(dict(stale_cache=o[key], step=k, case_hash=cm.canon_hash(c)))
                return


def judge_details_wrenches(R, c, r, stats):
    """The wrenches returned by contact_forces(..., return_details=True): (a) the same call must give the same wrench with
    and without details (base, swapped, moved; > 5 % of the force magnitude is a failure, any other difference breaks the
    correspondence - the unchanged code is bit-identical); (b) the property clauses action-reaction, swap symmetry and
    equivariance under the common motion are judged on the details-on wrenches themselves whenever they are not
    bit-identical to the details-off wrenches (which are judged by judge())."""
    on = dict(base=r["details"], swap=r.get("details_swap"), moved=r.get("details_moved"))
    off = dict(base=r["base"], swap=r["swap"], moved=r["moved"])
    if any(v is None for v in on.values()):
        return
    G = c["g"]
    Ls = max(hg.body_size(c["b1"]), hg.body_size(c["b2"]))
    Ls += dev([c["b1"]["pose"][i][3] for i in range(3)], [c["b2"]["pose"][i][3] for i in range(3)])
    fm = max([norm(x["w12"][:3]) for x in on.values()] + [norm(x["w12"][:3]) for x in off.values()])
    floor = 1e-6 * r["internals"].get("force_abs_sum", 0.0)
    fm = max(fm, floor)
    fscale = max(c["b1"].get("E", 1.0), c["b2"].get("E", 1.0)) * min(hg.body_size(c["b1"]), hg.body_size(c["b2"])) ** 3
    if fm <= 1e-9 * fscale:
        return
    tq = fm * Ls
    stats["details_wrench_cases"] = stats.get("details_wrench_cases", 0) + 1
    identical = True
    for name in ("base", "swap", "moved"):
        a, b = on[name], off[name]
        if a["w12"] == b["w12"] and a["w21"] == b["w21"] and a["inter"] == b["inter"]:
            continue
        identical = False
        d = max(dev(a["w12"][:3], b["w12"][:3]) / fm, dev(a["w21"][:3], b["w21"][:3]) / fm,
                dev(a["w12"][3:], b["w12"][3:]) / tq, dev(a["w21"][3:], b["w21"][3:]) / tq)
        if a["inter"] != b["inter"] or d > TOL:
            R.failure(f"contact_forces({name} call, return_details=True) returns other wrenches than the same call without details: "
                      f"relative deviation {d:.4g} (> 5 % of the force magnitude {fm:.6g}); with details w12 = {a['w12']}, without "
                      f"w12 = {b['w12']}", c, site="contact_forces(return_details=True)")
            break
        R.corr_broken.append(f"contact_forces({name} call): wrenches with and without details differ by {d:.3g}")
    if identical:
        return
    ba, sw, mv = on["base"], on["swap"], on["moved"]
    checks = [
        ("action-reaction with details: f12 + f21", dev(ba["w12"][:3], [-x for x in ba["w21"][:3]]) / fm),
        ("swap with details: f21(b2,b1) vs f12(b1,b2)", dev(sw["w21"][:3], ba["w12"][:3]) / fm),
        ("swap with details: f12(b2,b1) vs f21(b1,b2)", dev(sw["w12"][:3], ba["w21"][:3]) / fm),
        ("swap with details: torque21(b2,b1) vs torque12(b1,b2)", dev(sw["w21"][3:], ba["w12"][3:]) / tq),
        ("swap with details: torque12(b2,b1) vs torque21(b1,b2)", dev(sw["w12"][3:], ba["w21"][3:]) / tq),
        ("common motion with details: f12", dev(mv["w12"][:3], rot_apply(G, ba["w12"][:3])) / fm),
        ("common motion with details: f21", dev(mv["w21"][:3], rot_apply(G, ba["w21"][:3])) / fm),
        ("common motion with details: torque12", dev(mv["w12"][3:], rot_apply(G, ba["w12"][3:])) / tq),
        ("common motion with details: torque21", dev(mv["w21"][3:], rot_apply(G, ba["w21"][3:])) / tq),
    ]
    for name, val in checks:
        if val > TOL:
            R.failure(f"{name}: relative deviation {val:.4g} > 5 % (force magnitude {fm:.6g}; the details-off wrenches of the same "
                      f"calls are judged separately)", c, site="contact_forces(return_details=True)")
            break


def correspondence(R, c, r, stats):
    """model / bookkeeping checks that need no tolerance of the property"""
    d = []
    if r is None or "exc" in r:
        return d
    it = r["internals"]
    if it["w12"] != r["base"]["w12"] or it["w21"] != r["base"]["w21"] or it["inter"] != r["base"]["inter"]:
        d.append("contact_forces(b1, b2) is not reproduced by find_contact_surface + accumulate_wrenches on fresh, equal bodies")
    if r["base"]["w12"][:3] != [-x for x in r["base"]["w21"][:3]] and not all(x == 0.0 for x in r["base"]["w12"][:3] + r["base"]["w21"][:3]):
        d.append(f"f12 is not the exact negation of f21: {r['base']['w12'][:3]} vs {r['base']['w21'][:3]}")
    for key in ("caches_after_repeat", "caches_after_b3", "caches_after_back"):
        if key in r and not all(r[key].values()):
            d.append(f"stale cache after express_in ({key}): {r[key]}")
    ex = r.get("express")
    if ex:
        if not all(ex["caches"].values()):
            d.append(f"stale cache after express_in: {ex['caches']}")
        if ex["pose_after"] != ex["new"]:
            d.append("express_in does not store the new frame")
        if ex["aliased"]:
            d.append("express_in stores the caller's array (no copy)")
        sc = 1.0 + max(abs(x) for p in ex["after"] for x in p)
        if max(dev(a, b) for a, b in zip(ex["after"], ex["after2"])) > 1e-12 * sc:
            d.append("express_in into the frame the body is already in moves the vertices")
    br = r.get("broad")
    if br:
        stats["broad_cases"] += 1
        stats["broad_pairs"] += br["n_broad_brute"]
        if not br["broad_equal"]:
            R.failure(f"tree broad phase and brute-force broad phase differ: only tree {br.get('broad_only_tree')} only brute "
                      f"{br.get('broad_only_brute')}", c, site="find_contact_surface(use_aabb_trees)")
        elif br["broad_dups"]:
            R.failure("a broad phase reports a pair twice", c, site="find_contact_surface(use_aabb_trees)")
        elif not br["uniq_equal"]:
            R.failure("unique tetrahedron index lists of the two broad phases differ", c, site="find_contact_surface(use_aabb_trees)")
        if not br["narrow_equal"] or br["inter_brute"] != br["inter_tree"]:
            R.failure(f"intersecting tetrahedron pairs differ between the broad phases: only tree {br.get('narrow_only_tree')} only brute "
                      f"{br.get('narrow_only_brute')}", c, site="find_contact_surface(use_aabb_trees)")
        else:
            sc = max(1e-300, it.get("force_abs_sum", 0.0)) * (1.0 + hg.body_size(c["b1"]) + hg.body_size(c["b2"]))
            if dev(br["w12_brute"], br["w12_tree"]) > 1e-9 * sc or dev(br["w21_brute"], br["w21_tree"]) > 1e-9 * sc:
                d.append("wrenches differ between the broad phases although the pair sets agree")
    return d


def run(tier, seed, replay=None):
    R = cm.Run(PID, "proof", tier, seed)
    R.cov["rule"] = (
        "case = two RigidBody.make_* bodies (sphere, ellipsoid, cube, box, cylinder, capsule) with world poses of BOTH bodies "
        "(random rotations / lattice rotations / axis-aligned stacked boxes / separated), Young's moduli in [1e-2, 1e2], a common "
        "rigid motion g, optionally a third body; observed: contact_forces(b1,b2), (b2,b1), (g b1, g b2), two repetitions on the "
        "same objects, an interleaved call against the third body, find_contact_surface with both broad phases, express_in; "
        "distinct = canonical hash; non-trivial = the bodies are in contact with a non-zero force")
    R.assumptions += [
        "the 5 % comparisons are measurements on generated inputs (discretisation noise of the contact model), not theorems",
        "theorems in Props/C16.v are about Model/HydroWrench.v over the reals (wrench algebra, express_in, broad-phase equivalence via C05)",
        "torques are compared relative to force magnitude x (largest body size + centre distance)",
        "harness/compat.py import shim; numpy/numba/OpenBLAS/CPython",
    ]
    R.check_proofs([f for f in PROOF_FILES if (cm.COQ / f).exists()],
                   build_targets=BUILD_TARGETS)
    cases = []
    if replay:
        cases.append(json.loads(open(replay).read())["case"])
    else:
        corpus = cm.VERIF / "corpus" / PID
        if corpus.exists():
            for f in sorted(corpus.glob("*.json")):
                cases.append(json.loads(f.read_text())["case"])
        n = 63 if tier == "quick" else 480
        for k in range(n):
            cases.append(gen_case(R.rng, k, tier))
    from concurrent.futures import ThreadPoolExecutor
    # two small cases interpreted (NUMBA_DISABLE_JIT=1) under coverage measurement, concurrently
    small = [c for c in cases if c["b1"]["shape"] in ("cube", "box") and c["b2"]["shape"] in ("cube", "box")
             and not str(c.get("cls", "")).startswith("corpus")][:2]
    small += [c for c in cases if c.get("mode") == "separated" and c["b1"]["shape"] in ("cube", "box", "sphere")][:1]
    with ThreadPoolExecutor(2) as ex:
        fcov = ex.submit(cm.run_impl, PID, "c16", dict(cases=[dict(c, broad=True) for c in small], trace=True), 1500, False, "cov")
        res = run_workers(cases, "impl")
        rc = fcov.result()
    if rc["status"] == "ok" and rc["result"].get("coverage"):
        rep = {}
        for f, v in rc["result"]["coverage"].items():
            rep[f] = dict(statements=v["statements"], lines_reached=v["statements"] - len(v["missing_lines"]), missing_lines=v["missing_lines"],
                          branch_arcs=v["branches"], arcs_reached=v["branches"] - v["missing_branches"], missing_arcs=v["missing_arcs"])
        R.cov["implementation_coverage"] = rep
        # the interpreted run must agree with the compiled one
        for c, r in zip(small, rc["result"]["results"]):
            j = res[cases.index(c)]
            if r and j and "exc" not in r and "exc" not in j:
                sc = max(1e-300, max(abs(x) for x in j["base"]["w12"] + j["base"]["w21"]))
                dv = max(abs(a - b) for a, b in zip(r["base"]["w12"] + r["base"]["w21"], j["base"]["w12"] + j["base"]["w21"])) / sc
                R.cov["interpreted_vs_compiled_max_relative_deviation"] = max(R.cov.get("interpreted_vs_compiled_max_relative_deviation", 0.0), dv)
                # 1-ulp differences between the two execution modes can flip a polygon vertex on coincident face lines (known
                # finding F26 family, measured 0.4 % by the C20 check): only a difference at the property's 5 % breaks the tie
                if r["base"]["inter"] != j["base"]["inter"] or dv > TOL:
                    R.corr_broken.append(f"interpreted and compiled contact_forces disagree by {dv:.3g}")
    else:
        R.cov["implementation_coverage"] = "coverage run failed: " + str(rc.get("log", ""))[-300:]
    R.cov["evaluations"] = len(cases)
    stats = dict(worst={}, f17_inputs=0, grazing_flag_changes=0, broad_cases=0, broad_pairs=0, wrench_model_compared=0,
                 express_model_compared=0, max_wrench_dev=0.0, max_express_dev=0.0)
    distinct = set()
    hist = {}
    for c, r in zip(cases, res):
        key = f"{c.get('mode')}:{c['b1']['shape']}-{c['b2']['shape']}"
        hist[c.get("mode", "?")] = hist.get(c.get("mode", "?"), 0) + 1
        if judge(R, c, r, stats):
            distinct.add(cm.canon_hash(c))
        judge_history(R, c, r, stats)
        for d in correspondence(R, c, r, stats):
            if len(R.corr_broken) < 6:
                R.corr_broken.append(d)
            R.notes.append(dict(correspondence_diff=d, case=c))
    # return_details=True: the contact surface in the world frame must satisfy the polygon properties there
    # (poly_cert, Checker/Poly.v) and be the rigid image of the surface computed in body 2's frame
    cert_exprs, cert_idx = [], []
    KEYS = sorted(["contact_polygons", "contact_polygon_triangles", "contact_planes", "intersecting_tetrahedra1",
                   "intersecting_tetrahedra2", "contact_coms", "contact_forces", "contact_areas", "pressures", "contact_point"])
    for i, (c, r) in enumerate(zip(cases, res)):
        if r is None or "exc" in r or "details" not in r:
            continue
        dt = r["details"]
        judge_details_wrenches(R, c, r, stats)
        if not dt["inter"]:
            if dt["keys"]:
                R.failure("details of a non-intersecting pair are not empty", c, site="ContactSurface.make_details")
            continue
        if dt["keys"] != KEYS:
            R.failure(f"details keys {dt['keys']}", c, site="ContactSurface.make_details")
            continue
        stats["details_cases"] = stats.get("details_cases", 0) + 1
        T = dt["frame2world"]
        Ls = 1.0 + max(abs(x) for ct in dt["contacts"] for p in ct["t1"] + ct["t2"] for x in p)
        fs = max(1e-300, max(norm(ct["force"]) for ct in dt["contacts"]))
        if dev(dt["sum_force"], r["base"]["w21"][:3]) > 1e-9 * max(1e-300, r["internals"].get("force_abs_sum", 0.0)):
            R.failure(f"sum of the world-frame contact forces {dt['sum_force']} is not the force on body 1 {r['base']['w21'][:3]}", c,
                      site="ContactSurface.make_details")
        if dt["area_sum"] > 0 and dev(dt["contact_point"], [x / dt["area_sum"] for x in dt["weighted_coms"]]) > 1e-9 * Ls:
            R.failure("contact_point is not the area-weighted mean of the contact centres", c, site="ContactSurface.make_details")
        for ct, lc in zip(dt["contacts"], dt["local"]):
            want_poly = [[sum(T[a][b] * p[b] for b in range(3)) + T[a][3] for a in range(3)] for p in lc["poly"]]
            want_f = rot_apply(T, lc["force"])
            want_n = rot_apply(T, lc["plane"][:3])
            want_com = [sum(T[a][b] * lc["com"][b] for b in range(3)) + T[a][3] for a in range(3)]
            want_d = lc["plane"][3] + sum(want_n[a] * T[a][3] for a in range(3))
            bad = None
            if len(ct["poly"]) != len(want_poly) or max(dev(a, b) for a, b in zip(ct["poly"], want_poly)) > 1e-11 * Ls:
                bad = "polygon"
            elif dev(ct["force"], want_f) > 1e-11 * fs:
                bad = "force"
            elif dev(ct["plane"][:3], want_n) > 1e-11 or abs(ct["plane"][3] - want_d) > 1e-10 * Ls:
                bad = "plane"
            elif dev(ct["com"], want_com) > 1e-11 * Ls or abs(ct["area"] - lc["area"]) > 0.0:
                bad = "centre/area"
            elif ct["area"] > 0 and abs(ct["pressure"] - norm(ct["force"]) / ct["area"]) > 1e-9 * max(1e-300, ct["pressure"]):
                bad = "pressure"
            elif ct["tris"] != [[0, k + 1, k + 2] for k in range(min(len(ct["poly"]), 8) - 2)]:
                # (TRIANGLES has 6 rows: a polygon with more than 8 vertices - unfiltered duplicate vertices - is
                #  integrated over its first 8; its area is judged against the exact polygon by C15)
                bad = "triangles"
            if bad:
                R.failure(f"world-frame details: {bad} is not the image of the contact computed in body 2's frame under frame2world",
                          dict(c, contact=ct, local=lc), site="ContactSurface._transform_to_world")
                break
            if k15.finite(ct["plane"], ct["poly"], ct["force"]):
                tl = k15.tols_for(ct["t1"], ct["t2"], [1.0], max(1.0, dt["E1"]))
                cert_exprs.append(k15.cert_expr(ct["t1"], ct["t2"], ct["plane"], ct["poly"], ct["force"], tl))
                cert_idx.append((i, ct))
    if cert_exprs:
        try:
            vs = hg.coq_eval(cm, PID, k15.CERT_HEADER, cert_exprs, "cert", max(8, len(cert_exprs) // (2 * cm.NCPU) + 1), 1500, BUILD_TARGETS)
            stats["details_certificates"] = len(vs)
            for (i, ct), v in zip(cert_idx, vs):
                bits = hg.parse_coq_value(v)
                if not all(bits):
                    why = [k15.CERT_BITS[j] for j, b in enumerate(bits) if not b]
                    R.failure(f"poly_cert rejected a world-frame contact of contact_forces(return_details=True): failed {why}",
                              dict(cases[i], contact=ct), site="ContactSurface.make_details")
        except RuntimeError as e:
            R.proof_broken.append(f"checker evaluation failed: {str(e)[:300]}")
    # model runs
    exprs, idx = [], []
    for i, (c, r) in enumerate(zip(cases, res)):
        if r is None or "exc" in r:
            continue
        it = r["internals"]
        if "forces" in it and it["n"] > 0:
            exprs.append(f"[run_wrench {flist(it['forces'], fv)} {flist(it['coms'], fv)} {fv(it['com1'])} {fv(it['com2'])} {fpose(it['frame2world'])}]")
            idx.append((i, "wrench"))
        ex = r.get("express")
        if ex:
            exprs.append(f"run_express {fpose(ex['old'])} {fpose(ex['new'])} {flist(ex['before'], fv)}")
            idx.append((i, "express"))
        for k, o in enumerate(r.get("history") or []):
            sf = o["got"].get("surface")
            if sf:
                exprs.append(f"[run_wrench {flist(sf['forces'], fv)} {flist(sf['coms'], fv)} {fv(sf['com1'])} {fv(sf['com2'])} {fpose(sf['frame2world'])}]")
                idx.append((i, ("history", k)))
    try:
        outs = hg.coq_eval(cm, PID, MODEL_HEADER, exprs, "model", max(4, len(exprs) // (2 * cm.NCPU) + 1), 1500, BUILD_TARGETS)
        for (i, kind), txt in zip(idx, outs):
            c, r = cases[i], res[i]
            m = hg.parse_coq_value(txt)
            if isinstance(kind, tuple):
                # a history step: the implementation's wrenches against the proven wrench algebra (Model/HydroWrench.v) applied to
                # its own contact surface, with the centres of mass of the (possibly re-expressed) bodies as they are
                k = kind[1]
                o = r["history"][k]["got"]
                sf = o["surface"]
                stats["wrench_model_compared"] += 1
                Lh = 1.0 + max(norm(sub(p, sf["com1"])) for p in sf["coms"]) + max(norm(sub(p, sf["com2"])) for p in sf["coms"])
                sc = max(1e-300, sf["force_abs_sum"])
                got = o["w12"] + o["w21"]
                df = max(dev(m[0][0:3], got[0:3]), dev(m[0][6:9], got[6:9])) / sc
                dt = max(dev(m[0][3:6], got[3:6]), dev(m[0][9:12], got[9:12])) / (sc * Lh)
                stats["max_wrench_dev"] = max(stats["max_wrench_dev"], df, dt)
                if df > 1e-9 or dt > 1e-9:
                    st = c["history"]["steps"][k]
                    R.failure(f"history step {k} ({st['mode']}, bodies {st['pair']}): the wrenches returned for the implementation's own contact "
                              f"surface are not those of the wrench algebra proved in Props/C16.v (torque about each body's own centre of "
                              f"mass; com1 = {sf['com1']}, com2 = {sf['com2']}): force deviation {df:.3g}, torque deviation {dt:.3g} "
                              f"(relative to the sum of the contact force magnitudes x lever arm); implementation {got}, model {m[0]}",
                              c, site="accumulate_wrenches (call history)")
                continue
            if kind == "wrench":
                it = r["internals"]
                stats["wrench_model_compared"] += 1
                Ls = 1.0 + max(norm(sub(p, it["com1"])) for p in it["coms"]) + max(norm(sub(p, it["com2"])) for p in it["coms"])
                sc = max(1e-300, it["force_abs_sum"])
                got = it["w12"] + it["w21"]
                df = max(dev(m[0][0:3], got[0:3]), dev(m[0][6:9], got[6:9])) / sc
                dt = max(dev(m[0][3:6], got[3:6]), dev(m[0][9:12], got[9:12])) / (sc * Ls)
                stats["max_wrench_dev"] = max(stats["max_wrench_dev"], df, dt)
                if df > 1e-9 or dt > 1e-9:
                    R.failure(f"accumulate_wrenches on the implementation's own contact surface deviates from the proven wrench algebra "
                              f"(Props/C16.v): force {df:.3g}, torque {dt:.3g}; implementation {got}, model {m[0]}", c, site="accumulate_wrenches")
                elif df > 1e-11 or dt > 1e-11:
                    if len(R.corr_broken) < 6:
                        R.corr_broken.append(f"accumulate_wrenches: model {m[0]} implementation {got}")
                    R.notes.append(dict(wrench_diff=dict(model=m[0], impl=got), case=c))
            else:
                ex = r["express"]
                stats["express_model_compared"] += 1
                sc = 1.0 + max(abs(x) for p in ex["before"] + ex["after"] for x in p) + max(abs(ex["old"][k][3]) + abs(ex["new"][k][3]) for k in range(3))
                dv = max(dev(a, b) for a, b in zip(m, ex["after"])) / sc
                stats["max_express_dev"] = max(stats["max_express_dev"], dv)
                if dv > 1e-13:
                    if len(R.corr_broken) < 6:
                        R.corr_broken.append(f"express_in: model {m[:2]} implementation {ex['after'][:2]}")
                    R.notes.append(dict(express_diff=dict(model=m, impl=ex["after"]), case=c))
    except RuntimeError as e:
        R.corr_broken.append(f"model evaluation failed: {str(e)[:500]}")
    R.cov["distinct_nontrivial"] = len(distinct)
    R.cov["input_histogram"] = hist
    R.cov["measured"] = stats
    if WORKER_NOTES:
        R.notes.append(dict(worker_retries=list(WORKER_NOTES)))
    for c, r in list(zip(cases, res))[:2]:
        if r and "exc" not in r:
            R.sample(dict(b1=c["b1"], b2=c["b2"], g=c["g"], base=r["base"], swap=r["swap"], moved=r["moved"]))
    if (R.proof_broken or R.corr_broken) and not R.violations and not replay:
        # targeted search: more cases of the degenerate classes, judged by the property only
        extra = [gen_case(R.rng, 3 + 8 * k if k % 2 else k, tier) for k in range(48)]
        res2 = run_workers(extra, "search")
        R.cov["search_evaluations"] = len(extra)
        for c, r in zip(extra, res2):
            judge(R, c, r, stats)
    return R.finish()
