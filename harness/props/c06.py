"""C06 — BVH broad phase plus narrow phase finds exactly the brute-force collisions.

Proof: coq/theories/Proofs/Bvh{Dict,Proofs,Detect,Whitelists,Colliders,NoAssert,Real}.v + Props/C06.v about the
model Model/Bvh.v (BoundingVolumeHierarchy, self_collision.detect / detect_any,
urdf_utils.self_collision_whitelists) on top of the C05 tree model.

Tie to the code, on every run, for generated robots (URDF chains / trees loaded by pytransform3d's
UrdfTransformManager with sphere / box / cylinder collision objects, plus capsule / cone / mesh / ...
colliders registered through add_collider) and command histories (fill_tree_with_colliders,
add_collider (also under a frame name that is in use = REPLACEMENT of the registered object, and after a
collider was taken out of the public dict = removal + re-adding / swapping), set_joint, add_transform, whitelist
changes, update_collider_poses, interleaved with the three broad-phase queries, detect, detect_any and state dumps;
every returned collider is identified as an OBJECT (number in creation order), not by its frame name):

  * property oracle (Python, independent of the model): all-pairs brute force over the AABBs of NEW
    colliders built at the poses the registered colliders have (closed-interval overlap) and over an
    all-pairs gjk_intersection matrix; poses_current = every collider sits at the transform manager's
    current transform right after update_collider_poses;
  * correspondence: the Coq model, fed with the same transform-manager snapshots, the same AABB table
    and the same narrow-phase answers, is evaluated by vm_compute (binary64 tree, bit-exact w.r.t. the
    implementation) and must return the same results IN THE SAME ORDER (dict order of the query
    results and of detect's contact dict, pair order of the tree queries, payload rows of the tree,
    pose stamps, raised exception types);
  * the generated self-collision whitelists are compared with the model's LinkInfo transliteration.
"""
import json
import math
import re

from .. import common as cm
from .c14 import gen_mesh, quat_to_rot

PID = "C06"
PROOF_FILES = ["theories/Props/C06.v", "theories/Proofs/BvhDict.v", "theories/Proofs/BvhProofs.v",
               "theories/Proofs/BvhDetect.v", "theories/Proofs/BvhWhitelists.v", "theories/Proofs/BvhColliders.v",
               "theories/Proofs/BvhNoAssert.v", "theories/Proofs/BvhReal.v", "theories/Proofs/BvhIdentity.v"]

HEADER = """From Coq Require Import List ZArith PrimFloat.
From D3 Require Import Model.AabbTree Model.AabbTreeRun Model.Bvh Model.BvhRun.
Import ListNotations.
Notation B := (@Box float).
"""
EXC = {"KeyError": -201, "TypeError": -202, "IndexError": -203, "AssertionError": -102}
OFF_B, OFF_Q = 500, 1000


# ---------------------------------------------------------------- generators
def rpy_to_rot(r, p, y):
    cr, sr, cp, sp, cy, sy = math.cos(r), math.sin(r), math.cos(p), math.sin(p), math.cos(y), math.sin(y)
    return [[cy * cp, cy * sp * sr - sy * cr, cy * sp * cr + sy * sr],
            [sy * cp, sy * sp * sr + cy * cr, sy * sp * cr - cy * sr],
            [-sp, cp * sr, cp * cr]]


def pose16(R, t):
    return [R[0][0], R[0][1], R[0][2], t[0], R[1][0], R[1][1], R[1][2], t[1],
            R[2][0], R[2][1], R[2][2], t[2], 0.0, 0.0, 0.0, 1.0]


def gen_rot(rng):
    k = rng.random()
    if k < 0.15:
        return [[1.0, 0, 0], [0, 1.0, 0], [0, 0, 1.0]]
    if k < 0.35:
        a = rng.choice([math.pi / 2, -math.pi / 2, math.pi, math.pi / 4])
        ax = rng.randrange(3)
        rp = [0.0, 0.0, 0.0]
        rp[ax] = a
        return rpy_to_rot(*rp)
    return quat_to_rot([rng.gauss(0, 1) for _ in range(4)])


def gen_pose(rng, spread):
    return pose16(gen_rot(rng), [rng.uniform(-spread, spread) for _ in range(3)])


def gen_len(rng, lo, hi):
    if rng.random() < 0.25:
        return rng.choice([v for v in (0.05, 0.1, 0.125, 0.25, 0.5) if lo <= v <= hi] or [lo])
    return rng.uniform(lo, hi)


def gen_geom(rng, kinds):
    kind = rng.choice(kinds)
    if kind == "sphere":
        return kind, dict(radius=gen_len(rng, 0.05, 0.3))
    if kind == "box":
        return kind, dict(size=[gen_len(rng, 0.05, 0.5) for _ in range(3)])
    if kind == "cylinder":
        return kind, dict(radius=gen_len(rng, 0.03, 0.2), length=gen_len(rng, 0.1, 0.6))
    if kind == "capsule":
        return kind, dict(radius=gen_len(rng, 0.03, 0.2), height=gen_len(rng, 0.1, 0.6))
    if kind == "cone":
        return kind, dict(radius=gen_len(rng, 0.05, 0.25), height=gen_len(rng, 0.1, 0.6))
    if kind == "mesh":
        m = gen_mesh(rng)
        s = 0.3 / max(1e-9, max(abs(x) for x in m["vertices"]))
        m["vertices"] = [x * s for x in m["vertices"]]
        return kind, m
    raise ValueError(kind)


def gen_urdf(rng, tier):
    nl = rng.choice([1, 2, 3, 3, 4, 4, 5, 6] if tier == "quick" else [1, 2, 3, 4, 5, 6, 7, 8, 9])
    shape = rng.choice(["chain", "tree", "tree", "star"])
    links, joints = [], []
    with_visuals = rng.random() < 0.2
    for i in range(nl):
        ncol = rng.choices([0, 1, 2, 3], [0.12, 0.58, 0.24, 0.06])[0]
        cols = []
        for k in range(ncol):
            kind, params = gen_geom(rng, ["sphere", "box", "cylinder"])
            o = [rng.uniform(-0.15, 0.15) for _ in range(3)]
            if rng.random() < 0.5:
                o += [0.0, 0.0, 0.0]
            else:
                o += [rng.uniform(-math.pi, math.pi) for _ in range(3)]
            cols.append(dict(name=(f"c{k}" if rng.random() < 0.3 else None), kind=kind, params=params, origin=o))
        links.append(dict(name=f"l{i}", collisions=cols))
        if with_visuals:
            vis = []
            for k in range(rng.choices([0, 1, 2], [0.3, 0.5, 0.2])[0]):
                kind, params = gen_geom(rng, ["sphere", "box", "cylinder"])
                vis.append(dict(name=(f"v{k}" if rng.random() < 0.3 else None), kind=kind, params=params,
                                origin=[rng.uniform(-0.15, 0.15) for _ in range(3)] + [0.0, 0.0, 0.0]))
            links[-1]["visuals"] = vis
        if i > 0:
            parent = dict(chain=i - 1, star=0).get(shape, rng.randrange(i))
            jt = rng.choices(["revolute", "prismatic", "continuous", "fixed"], [0.5, 0.2, 0.15, 0.15])[0]
            ax = [0.0, 0.0, 0.0]
            if rng.random() < 0.6:
                ax[rng.randrange(3)] = 1.0
            else:
                v = [rng.gauss(0, 1) for _ in range(3)]
                n = math.sqrt(sum(x * x for x in v))
                ax = [x / n for x in v]
            d = rng.uniform(0.15, 0.55)
            v = [rng.gauss(0, 1) for _ in range(3)]
            n = math.sqrt(sum(x * x for x in v))
            o = [d * x / n for x in v] + ([0.0, 0.0, 0.0] if rng.random() < 0.5 else
                                           [rng.uniform(-math.pi, math.pi) for _ in range(3)])
            lim = 0.3 if jt == "prismatic" else 1.5
            joints.append(dict(name=f"j{i}", type=jt, parent=f"l{parent}", child=f"l{i}", origin=o, axis=ax,
                               lower=-rng.uniform(0.1, lim), upper=rng.uniform(0.1, lim)))
    if rng.random() < 0.5:      # declaration order is arbitrary in URDF: children may come before their parents
        rng.shuffle(links)
        rng.shuffle(joints)
    return dict(name="robot", root="l0", links=links, joints=joints)


def urdf_frames(u, visuals=False):
    out = []
    for ln in u["links"]:
        for k, c in enumerate(ln.get("visuals", []) if visuals else ln["collisions"]):
            out.append(f"{'visual' if visuals else 'collision'}:{ln['name']}/{c['name'] if c.get('name') else k}")
    return out


def gen_whitelist(rng, frames):
    """hand-made, in general asymmetric"""
    wl = {}
    mode = rng.choice(["self", "random", "random", "empty", "neighbours"])
    for i, f in enumerate(frames):
        if mode == "empty":
            w = []
        elif mode == "self":
            w = [f]
        elif mode == "neighbours":
            w = [f] + ([frames[i - 1]] if i > 0 else []) + ([frames[i + 1]] if rng.random() < 0.5 and i + 1 < len(frames) else [])
        else:
            w = [g for g in frames if rng.random() < 0.3]
            if rng.random() < 0.7 and f not in w:
                w.append(f)
        if rng.random() < 0.1:
            w.append("no_such_frame")
        wl[f] = w
    return wl


def gen_world(rng, tier, stream):
    use_urdf = rng.random() < 0.8
    u = gen_urdf(rng, tier) if use_urdf else None
    empty = use_urdf and rng.random() < 0.04        # a robot without any collider: queries on an empty tree
    if empty:
        for ln in u["links"]:
            ln["collisions"] = []
    base = u["root"] if u else "base"
    parents = ([ln["name"] for ln in u["links"]] if u else ["base"]) + ["origin"]
    extras = []
    for k in range(0 if empty else
                   rng.choices([0, 1, 2, 3, 5], [0.35, 0.25, 0.2, 0.15, 0.05])[0] if use_urdf else rng.randint(1, 7)):
        kind, params = gen_geom(rng, ["capsule", "cone", "mesh", "sphere", "box", "cylinder"])
        extras.append(dict(frame=f"x{k}", parent=rng.choice(parents), T=gen_pose(rng, 0.6),
                           kind=kind, params=params, pose0=gen_pose(rng, 0.6)))
    cmds = []
    frames = []          # registered frames, as the generator believes
    use_visuals = bool(u) and any(ln.get("visuals") for ln in u["links"]) and rng.random() < 0.6
    uframes = urdf_frames(u, use_visuals) if u else []
    movable = [j for j in (u["joints"] if u else []) if j["type"] != "fixed"]

    def observe(p_query=0.5):
        obs = []
        if rng.random() < p_query:
            for _ in range(rng.randint(1, 3)):
                kind, params = gen_geom(rng, ["sphere", "box", "capsule", "cylinder"])
                if rng.random() < 0.5:       # a big query collider: hits several, seldom all
                    params = {k: ([x * 2.5 for x in v] if isinstance(v, list) else v * 2.5) for k, v in params.items()}
                wl = [f for f in frames if rng.random() < 0.2] if rng.random() < 0.4 else []
                if wl and rng.random() < 0.3:
                    wl.append("unknown")
                obs.append(dict(op="query", kind=kind, params=params, pose=gen_pose(rng, rng.choice([0.2, 0.5, 0.8])),
                                whitelist=wl))
        if rng.random() < 0.5:
            obs.append(dict(op="self"))
        if rng.random() < 0.75:
            obs.append(dict(op="detect"))
        if rng.random() < 0.6:
            obs.append(dict(op="detect_any"))
        if rng.random() < 0.5:
            obs.append(dict(op="dump"))
        rng.shuffle(obs)
        return obs

    generated = False
    pending = list(range(len(extras)))
    rng.shuffle(pending)
    first = pending[:rng.randint(0, len(pending))] if u else pending
    adds_first = bool(u) and rng.random() < 0.3     # colliders registered before the robot is loaded:
    if u and not adds_first:                         # fill_tree_with_colliders has to move them too
        generated = rng.random() < 0.7 and (not use_visuals or stream == "beyond")
        cmds.append(dict(op="fill", whitelists=generated, use_visuals=use_visuals))
        frames += uframes
    for k in list(first):
        cmds.append(dict(op="add", extra=k))
        frames.append(extras[k]["frame"])
        pending.remove(k)
    if u and adds_first:
        generated = rng.random() < 0.7 and (not use_visuals or stream == "beyond")
        cmds.append(dict(op="fill", whitelists=generated, use_visuals=use_visuals))
        frames += uframes
    have_wl = generated and not first and not use_visuals

    def maybe_wl(force=False):
        nonlocal have_wl
        if force or rng.random() < 0.5:
            only_missing = generated and rng.random() < 0.5
            tgt = [f for f in frames if f not in uframes] if only_missing else frames
            wl = gen_whitelist(rng, frames)
            wl = {f: wl[f] for f in tgt}
            if stream == "beyond" and wl and rng.random() < 0.5:
                wl.pop(rng.choice(sorted(wl)))          # a frame without whitelist: KeyError in detect
            cmds.append(dict(op="set_wl", wl=wl, replace=(not only_missing and rng.random() < 0.5)))
            have_wl = True

    def spare():
        """geometry + own frame for a collider that replaces another one (new tool) or is swapped in"""
        kind, params = gen_geom(rng, ["capsule", "cone", "mesh", "sphere", "box", "cylinder"])
        if rng.random() < 0.4:          # a bigger tool: reaches its neighbours
            sc = rng.uniform(1.5, 3.0)
            params = {k: (v if k == "triangles" else [x * sc for x in v] if isinstance(v, list) else v * sc)
                      for k, v in params.items()}
        extras.append(dict(frame=f"s{len(extras)}", parent=rng.choice(parents), T=gen_pose(rng, 0.6),
                           kind=kind, params=params, pose0=gen_pose(rng, 0.6), spare=True))
        return len(extras) - 1

    def tool_change():
        """replace / take out / swap registered colliders: the dict changes, the tree keeps the old leaves until the
        next update_collider_poses (which follows in the same round)"""
        targets = [f for f in frames if not f.endswith("_alias") and f != "floating"]
        for f in rng.sample(targets, min(len(targets), rng.choice([1, 1, 2, 3]))):
            kind = rng.choice(["replace", "replace", "replace", "remove_readd", "remove_readd", "swap", "remove"])
            if kind == "replace":            # add_collider under a name in use: same number of colliders
                cmds.append(dict(op="add", extra=spare(), frame=f, no_tm=True, replace=True))
            elif kind == "remove_readd":
                cmds.append(dict(op="remove", frame=f))
                if rng.random() < 0.25:
                    cmds.extend(observe(0.8))
                if rng.random() < 0.3:      # the same tool is put on again
                    cmds.append(dict(op="add", extra=0, frame=f, no_tm=True, replace=True, same=True))
                else:
                    cmds.append(dict(op="add", extra=spare(), frame=f, no_tm=True, replace=True))
            elif kind == "swap":             # one out, another one (own frame) in: same number of colliders
                cmds.append(dict(op="remove", frame=f))
                frames.remove(f)
                k = spare()
                cmds.append(dict(op="add", extra=k))
                frames.append(extras[k]["frame"])
                maybe_wl(force=True)
            elif len(frames) > 1:
                cmds.append(dict(op="remove", frame=f))
                frames.remove(f)
        if rng.random() < 0.25:
            cmds.extend(observe(0.8))      # dict and tree disagree until the update: correspondence only

    if not have_wl:
        maybe_wl(force=rng.random() < 0.85)
    if first and rng.random() < 0.3:
        cmds += observe(0.3)       # before any update: extras sit at their construction pose
    rounds = rng.randint(1, 3 if tier == "quick" else 5)
    for r in range(rounds):
        change = bool(frames) and rng.random() < 0.4
        if change and r == 0 and rng.random() < 0.7:
            cmds.append(dict(op="update"))          # the BVH is in use before the first tool change
            cmds += observe(0.8)
        for j in movable:
            if rng.random() < 0.7:
                lo, hi = (j["lower"], j["upper"]) if j["type"] != "continuous" else (-math.pi, math.pi)
                v = rng.choice([lo, hi, 0.0]) if rng.random() < 0.2 else rng.uniform(lo, hi)
                cmds.append(dict(op="set_joint", joint=j["name"], value=v))
        for e in extras:
            if e["frame"] in frames and rng.random() < 0.4:
                cmds.append(dict(op="move", frame=e["frame"], parent=e["parent"], T=gen_pose(rng, 0.6),
                                 inplace=rng.random() < 0.5))
        if pending and rng.random() < 0.5:
            k = pending.pop()
            cmds.append(dict(op="add", extra=k))
            frames.append(extras[k]["frame"])
            maybe_wl(force=True)
        if change:
            tool_change()
        if stream == "beyond" and rng.random() < 0.5:
            kind = rng.choice(["dup", "alias", "no_tm", "stale", "refill"])
            done = [c["extra"] for c in cmds if c["op"] == "add" and "reuse" not in c and "frame" not in c]
            if kind == "dup" and done:
                k = rng.choice(done)
                cmds.append(dict(op="add", extra=rng.randrange(len(extras)), frame=extras[k]["frame"], no_tm=True))
                cmds += observe(0.8)
            elif kind == "alias" and done:
                k = rng.choice(done)
                cmds.append(dict(op="add", extra=k, frame=extras[k]["frame"] + "_alias", reuse=k))
                frames.append(extras[k]["frame"] + "_alias")
                maybe_wl(force=True)
            elif kind == "no_tm" and extras:
                cmds.append(dict(op="add", extra=rng.randrange(len(extras)), frame="floating", no_tm=True))
            elif kind == "stale":
                cmds += observe(0.8)            # transform manager changed, no update yet
            elif kind == "refill" and u:
                cmds.append(dict(op="fill", whitelists=rng.random() < 0.5, use_visuals=use_visuals))
        cmds.append(dict(op="update"))
        cmds += observe()
        if rng.random() < 0.25:
            maybe_wl(force=True)
            cmds += observe(0.0)
    return dict(urdf=u, extras=extras, cmds=cmds,
                base2origin=(gen_pose(rng, 1.0) if rng.random() < 0.3 else None))


def gen_case(rng, tier, stream="property"):
    return dict(A=gen_world(rng, tier, stream), B=gen_world(rng, tier, "property"), stream=stream)


# ---------------------------------------------------------------- helpers
def overlap(a, b):
    return (a[0] <= b[1] and a[1] >= b[0] and a[2] <= b[3] and a[3] >= b[2]
            and a[4] <= b[5] and a[5] >= b[4])


def fl(x):
    return f"({cm.fhex(x)})%float"


def coq_box(b):
    return "(B " + " ".join(fl(x) for x in b) + ")"


def coq_list(xs):
    return "[" + "; ".join(xs) + "]"


def parse_out(s):
    s = s.replace("%Z", "")
    s = re.sub(r"\((-[0-9]+)\)", r"\1", s)
    s = s.replace("(", "[").replace(")", "]").replace(";", ",")
    return json.loads(s)


class Frames:
    def __init__(self):
        self.num = {}

    def __call__(self, name):
        if name not in self.num:
            self.num[name] = len(self.num)
        return self.num[name]


# ---------------------------------------------------------------- model side
def world_to_coq(wres, off, fr):
    """-> (heap, AT rows, NT rows, coq cmds, expectations, unstable_narrow, truncated)
    expectations: list of (index of the coq cmd, expected encoding, index of the impl cmd)"""
    objs = wres["objects"]
    heap = [f"({off + i}, 0)" for i in range(len(objs))]
    at = [f"(({off + i}, {s}), {coq_box(st['aabb'])})" for i, o in enumerate(objs) for s, st in enumerate(o["stamps"])]
    nt = {}
    unstable = False
    cmds, exp = [], []
    truncated = False
    nq = 0

    def tm_table(tm):
        rows = []
        for f, v in tm.items():
            if v is not None and "stamp" in v:
                rows.append(f"({fr(f)}, {v['stamp']})")
        return coq_list(rows)

    def wl_rows(wl_items):
        return coq_list([f"({fr(k)}, {coq_list([str(fr(g)) for g in v])})" for k, v in wl_items])

    def enc_datum(d):
        return [-1, -1] if d is None else [fr(d[0]), d[1]]

    def push(c, expected, k):
        cmds.append(c)
        exp.append((len(cmds) - 1, expected, k))

    def cmd_frame(rec, k):
        return rec["frame"] if "frame" in rec else rec["_frame"]

    def add_narrow(snap):
        nonlocal unstable
        objs = snap["narrow_objs"]
        for a, (oa, sa) in enumerate(objs):
            for b, (ob, sb) in enumerate(objs):
                v = snap["narrow"][a][b]
                if oa < 0 or ob < 0:
                    unstable = True
                    continue
                key = ((off + oa, sa), (off + ob, sb))
                if not isinstance(v, bool) or snap["narrow_fresh"][a][b] != v or nt.get(key, v) != v:
                    unstable = True
                    continue
                nt[key] = v

    for k, (rec) in enumerate(wres["cmds"]):
        op = rec["op"]
        code = [EXC.get(rec["exc"], -999)] if rec["exc"] else None
        if op == "fill":
            cmds.append(f"CSetTm {tm_table(rec.get('tm', {}))}")
            w = wl_rows([(a, b) for a, b in rec.get("generated_wl", [])])
            objs_ = coq_list([f"({fr(f)}, {i})" for f, i in rec.get("new", [])])
            push(f"CFill {objs_} {w}", code or [0], k)
        elif op == "add":
            if "oid" not in rec:
                truncated = True
                break
            push(f"CAdd {fr(rec['frame'])} {rec['oid']}", code or [0], k)
        elif op == "remove":
            push(f"CRemove {fr(cmd_frame(rec, k))}", code or [0], k)
        elif op in ("set_joint", "move"):
            if code:
                truncated = True
                break
            for i, st in rec.get("poked", []):
                cmds.append(f"CPoke {i} {st}")
            continue
        elif op == "set_wl":
            push(("CReplaceWl " if rec["_replace"] else "CSetWl ") + wl_rows(list(rec["_wl"].items())), [0], k)
        elif op == "update":
            cmds.append(f"CSetTm {tm_table(rec.get('tm', {}))}")
            push("CUpdate", code or [0], k)
        elif op == "query":
            at.append(f"(({OFF_Q + off + nq}, 0), {coq_box(rec['q_aabb'])})")
            wl = coq_list([str(fr(f)) for f in rec["_whitelist"]])
            e = code or ([1] + [x for f, i in rec["r"] for x in (fr(f), i)])
            push(f"CQuery ({OFF_Q + off + nq}, 0) {wl}", e, k)
            nq += 1
        elif op == "self":
            e = code or ([2] + [x for a, b in rec["r"] for x in enc_datum(a) + enc_datum(b)])
            push("CSelf", e, k)
        elif op == "detect":
            if "snap" in rec:
                add_narrow(rec["snap"])
            e = code or ([3] + [x for f, v in rec["r"] for x in (fr(f), 1 if v else 0)])
            push("CDetect", e, k)
        elif op == "detect_any":
            if "snap" in rec:
                add_narrow(rec["snap"])
            e = code or [4, 1 if rec["r"] else 0]
            push("CDetectAny", e, k)
        elif op == "dump":
            s = rec["snap"]
            e = [5, len(s["entries"])] + [x for en in s["entries"] for x in (fr(en["frame"]), en["oid"], en.get("stamp_actual", -1))]
            e += [x for d in s["ext"] for x in enc_datum(d)]
            push("CDump", code or e, k)
        if rec["exc"] and op in ("fill", "add", "update"):
            truncated = True       # the implementation's object is now partially updated: not modelled
            break
    ntr = [f"(({a[0]}, {a[1]}), ({b[0]}, {b[1]}))" for (a, b), v in nt.items() if v]
    return heap, at, ntr, cmds, exp, unstable, truncated


def case_to_coq(case, res):
    """-> (expr, expectations per world, cross expectation, flags)"""
    parts = {}
    flags = dict(unstable=False, truncated=False)
    AT, NT = [], []
    for name, off in (("A", 0), ("B", OFF_B)):
        wres = res[name]
        fr = Frames()
        # hand the command arguments that the worker does not echo
        for rec, cmd in zip(wres["cmds"], case[name]["cmds"]):
            if rec["op"] == "query":
                rec["_whitelist"] = cmd.get("whitelist", [])
            if rec["op"] == "set_wl":
                rec["_wl"], rec["_replace"] = cmd["wl"], cmd.get("replace", False)
            if rec["op"] == "remove":
                rec["_frame"] = cmd["frame"]
        heap, at, nt, cmds, exp, unstable, truncated = world_to_coq(wres, off, fr)
        AT += at
        NT += nt
        flags["unstable"] |= unstable
        flags["truncated"] |= truncated
        parts[name] = dict(heap=heap, cmds=cmds, exp=exp, fr=fr, truncated=truncated)
    cross = None
    if "cross" in res and not flags["truncated"]:
        c = res["cross"]
        if c["exc"]:
            cross = [EXC.get(c["exc"], -999)]
        else:
            fa, fb = parts["A"]["fr"], parts["B"]["fr"]
            cross = [2]
            for a, b in c["r"]:
                cross += ([-1, -1] if a is None else [fa(a[0]), a[1]]) + ([-1, -1] if b is None else [fb(b[0]), b[1]])
    expr = (f"run_case {coq_list(AT)} {coq_list(NT)} {coq_list(parts['A']['heap'])} {coq_list(parts['A']['cmds'])} "
            f"{coq_list(parts['B']['heap'])} {coq_list(parts['B']['cmds'])}")
    return expr, parts, cross, flags


# ---------------------------------------------------------------- whitelists (LinkInfo) model
def wl_to_coq(u, rec):
    """Coq expression of self_collision_whitelists for the transform manager of this fill command"""
    links = {ln["name"]: i for i, ln in enumerate(u["links"])}
    suff, other = {}, {}

    def fname(s):
        m = re.match(r"collision:(.*)/(.*)$", s)
        if m and m.group(1) in links:
            k = suff.setdefault(m.group(2), len(suff))
            return f"NColl {links[m.group(1)]} {k}", ["C", links[m.group(1)], k]
        if s in links:
            return f"NLink {links[s]}", ["L", links[s]]
        k = other.setdefault(s, len(other))
        return f"NOther {k}", ["O", k]

    tr = coq_list([f"({fname(a)[0]}, {fname(b)[0]})" for a, b in rec["transforms"]])
    nodes = coq_list([fname(n)[0] for n in rec["nodes"]])
    objs = coq_list([fname(f)[0] for f in rec["collision_frames"]])
    expected = [[fname(k)[1], [fname(g)[1] for g in v]] for k, v in rec["generated_wl"]]
    return f"self_collision_whitelists {tr} {nodes} {objs}", expected


def parse_wl(s):
    s = re.sub(r"NColl (\d+) (\d+)", r'["C", \1, \2]', s)
    s = re.sub(r"NLink (\d+)", r'["L", \1]', s)
    s = re.sub(r"NOther (\d+)", r'["O", \1]', s)
    s = s.replace("(", "[").replace(")", "]").replace(";", ",")
    return json.loads(s)


# ---------------------------------------------------------------- property oracle
def judge_world(wcase, wres, stats):
    """Brute-force oracle on one world's observations. -> list of failures"""
    fails = []
    if "harness_exc" in wres:
        return [f"worker could not run the world: {wres['harness_exc']}: {wres.get('harness_msg')}"]
    objs = wres["objects"]
    inv_ok, tm_dirty, seen_ids = True, False, {}
    frames_seen = set()
    changed = set()         # frames whose registered object was replaced (add_collider under a name in use / re-added)
    tool_changes = 0        # removals
    seen_here = {}          # detect / detect_any answers since the last state change
    for k, (cmd, rec) in enumerate(zip(wcase["cmds"], wres["cmds"])):
        op = rec["op"]
        if op in ("fill", "add", "update", "set_joint", "move", "set_wl", "remove"):
            seen_here = {}
        if rec["exc"] and op in ("fill", "add", "update", "set_joint", "move", "remove"):
            if inv_ok and not (op in ("update", "fill") and rec["exc"] == "KeyError" and tm_dirty is None):
                fails.append(f"cmd {k} ({op}) raised {rec['exc']}: {rec.get('msg', '')[:80]}")
            break
        if op == "add":
            f = rec["frame"]
            if f in frames_seen or "reuse" in cmd:
                inv_ok = False          # frame name in use (the replaced object stays in the tree until the next
                #                         update_collider_poses) / aliased object: judged again after the update
            if f in frames_seen or cmd.get("replace"):
                changed.add(f)
            if cmd.get("no_tm") and not cmd.get("replace"):
                inv_ok = False
                tm_dirty = None         # frame unknown to the transform manager: update will raise
            frames_seen.add(f)
            if tm_dirty is not None:
                tm_dirty = True
        elif op == "remove":
            frames_seen.discard(cmd["frame"])
            inv_ok = False              # the removed object's leaf stays in the tree until the next update
            tool_changes += 1
            if tm_dirty is not None:
                tm_dirty = True
        elif op in ("set_joint", "move"):
            if tm_dirty is not None:
                tm_dirty = True
            if rec.get("poked"):
                inv_ok = False          # colliders moved through an aliased array: the tree is stale until update
        elif op == "fill":
            if frames_seen & set(rec.get("frames", [])):
                pass                     # second fill replaces the objects: consistent again after its update
            frames_seen |= set(rec.get("frames", []))
            if tm_dirty is not None:
                tm_dirty = False
                inv_ok = not any("reuse" in c for c in wcase["cmds"][:k] if c["op"] == "add")
        elif op == "update":
            if tm_dirty is not None:
                tm_dirty = False
                inv_ok = not any("reuse" in c for c in wcase["cmds"][:k] if c["op"] == "add")
        snap = rec.get("snap")
        if snap is None or not inv_ok:
            continue
        if rec["exc"] and not (op in ("detect", "detect_any") and rec["exc"] == "KeyError"
                               and any(e["frame"] not in snap["wl"] for e in snap["entries"])):
            fails.append(f"cmd {k} ({op}) raised {rec['exc']}: {rec.get('msg', '')[:80]}")
            continue
        ent = snap["entries"]
        box = {}
        for e in ent:
            b = objs[e["oid"]]["stamps"][e["stamp_actual"]]["aabb"]
            box[e["frame"]] = b
            if [float(x).hex() for x in e["aabb_actual"]] != [float(x).hex() for x in b]:
                fails.append(f"cmd {k}: aabb() of the collider at {e['frame']} differs from a new collider at the same pose")
            if tm_dirty is False and e["stamp_tm"] != e["stamp_actual"]:
                fails.append(f"cmd {k}: after update_collider_poses the collider at {e['frame']} is not at the "
                             f"transform manager's transform")
        stats["snapshots"] += 1
        ids = {e["frame"]: e["oid"] for e in ent}
        # tree payload: exactly one row per registered collider
        rows = sorted((d[0], d[1]) for d in snap["ext"] if d is not None)
        if rows != sorted(ids.items()):
            fails.append(f"cmd {k}: payload rows of the tree {rows[:4]}.. differ from colliders_ {sorted(ids.items())[:4]}..")
        if snap.get("collider_frames") != snap.get("added") or snap.get("get_colliders") != [e["oid"] for e in ent]:
            fails.append(f"cmd {k}: get_collider_frames()/get_colliders() differ from what was registered")
        stats["empty_bvh"] += not ent
        if rec["exc"]:
            continue
        if (changed or tool_changes) and op in ("query", "self", "detect", "detect_any"):
            stats["judged_after_replacement_or_removal"] += 1
        if op in ("detect", "detect_any"):
            # detect's broad-phase calls must hand out registered objects only (identity, not frame name)
            reg = set(ids.values())
            alien = sorted({o for pr in rec.get("narrow_calls", []) for o in pr if o not in reg})
            if alien:
                fails.append(f"cmd {k}: {op}: aabb_overlapping_colliders handed collider object(s) #{alien[:4]} to the "
                             f"narrow phase that are not registered in colliders_ (replaced or removed earlier)")
            stats["narrow_calls_identified"] += len(rec.get("narrow_calls", []))
        if op == "query":
            want = sorted((f, ids[f]) for f in ids if overlap(box[f], rec["q_aabb"]) and f not in cmd.get("whitelist", []))
            got = sorted((f, i) for f, i in rec["r"])
            if got != want or len({f for f, _ in rec["r"]}) != len(rec["r"]):
                fails.append(f"cmd {k}: aabb_overlapping_colliders returned {got[:5]}, brute force {want[:5]}")
            stats["query"] += 1
            stats["query_returned_replaced_frame"] += any(f in changed for f, _ in want)
            stats["query_nonempty"] += bool(want) and len(want) < len(ids)
            stats["query_whitelist_removed_something"] += any(
                overlap(box[f], rec["q_aabb"]) for f in ids if f in cmd.get("whitelist", []))
        elif op == "self":
            want = sorted((f, ids[f], g, ids[g]) for f in ids for g in ids if f != g and overlap(box[f], box[g]))
            if any(a is None or b is None for a, b in rec["r"]):
                fails.append(f"cmd {k}: aabb_overlapping_with_self returned a None payload")
            else:
                got = [(a[0], a[1], b[0], b[1]) for a, b in rec["r"]]
                if sorted(got) != want or len(set(got)) != len(got):
                    fails.append(f"cmd {k}: aabb_overlapping_with_self returned {len(got)} pairs, brute force {len(want)}")
            stats["self"] += 1
            stats["self_nonempty"] += bool(want)
        elif op in ("detect", "detect_any"):
            N = [row[:len(ent)] for row in snap["narrow"][:len(ent)]]
            if any(not isinstance(v, bool) for row in N for v in row):
                stats["narrow_raised"] += 1
                continue
            wl = snap["wl"]
            fr = [e["frame"] for e in ent]
            if any(f not in wl for f in fr):
                continue
            n = len(fr)
            must = {fr[a] for a in range(n) for b in range(n) if N[a][b] and fr[b] not in wl[fr[a]]}
            may = {fr[a] for a in range(n) for b in range(n)
                   if (N[a][b] or N[b][a]) and (fr[b] not in wl[fr[a]] or fr[a] not in wl[fr[b]])}
            # completeness presupposes that colliding shapes have overlapping AABBs (C04)
            c04 = [(fr[a], fr[b]) for a in range(n) for b in range(n) if N[a][b] and not overlap(box[fr[a]], box[fr[b]])]
            if c04:
                stats["narrow_without_aabb_overlap"] += 1
            if op == "detect":
                got = dict((f, v) for f, v in rec["r"])
                marked = {f for f, v in got.items() if v}
                if sorted(got) != sorted(fr) or len(rec["r"]) != len(fr):
                    fails.append(f"cmd {k}: detect keys {sorted(got)[:5]} differ from the collider frames")
                elif not (must <= marked) and not c04:
                    fails.append(f"cmd {k}: detect misses {sorted(must - marked)[:4]} (collide with a frame outside their whitelist)")
                elif not (marked <= may):
                    fails.append(f"cmd {k}: detect marks {sorted(marked - may)[:4]} without any non-whitelisted collision")
                seen_here["detect"] = bool(marked)
                if "detect_any" in seen_here and seen_here["detect_any"] != bool(marked) and not c04:
                    fails.append(f"cmd {k}: detect marks {sorted(marked)[:3]} but detect_any returned {seen_here['detect_any']} in the same state")
                stats["detect"] += 1
                stats["detect_mixed"] += bool(marked) and len(marked) < n
                stats["detect_partner_only"] += len(marked - must)
                stats["detect_continue_taken"] += [f for f, _ in rec["r"]] != fr
            else:
                if rec["r"] != bool(must) and not c04:
                    fails.append(f"cmd {k}: detect_any returned {rec['r']}, all-pairs oracle {bool(must)}")
                seen_here["detect_any"] = bool(rec["r"])
                if "detect" in seen_here and seen_here["detect"] != bool(rec["r"]) and not c04:
                    fails.append(f"cmd {k}: detect_any returned {rec['r']} but detect marked {'some' if seen_here['detect'] else 'no'} frame in the same state")
                stats["detect_any"] += 1
                stats["detect_any_true"] += bool(must)
    return fails, inv_ok


def judge_case(case, res, stats):
    fails = []
    if res.get("harness_exc") == "PROCESS-UNCONFIRMED-TIMEOUT":
        return []
    if "harness_exc" in res:
        return [f"worker could not run the case: {res['harness_exc']}: {res.get('harness_msg')}"]
    ok = {}
    for name in ("A", "B"):
        r = judge_world(case[name], res[name], stats)
        if isinstance(r, list):
            return r
        f, ok[name] = r
        fails += [f"{name}: {x}" for x in f]
    if ok.get("A") and ok.get("B") and "cross" in res and all(
            not rec["exc"] for nm in ("A", "B") for rec in res[nm]["cmds"] if rec["op"] in ("fill", "add", "update")):
        c = res["cross"]
        sa, sb = res["A"]["final"], res["B"]["final"]
        ba = {e["frame"]: (e["oid"], res["A"]["objects"][e["oid"]]["stamps"][e["stamp_actual"]]["aabb"]) for e in sa["entries"]}
        bb = {e["frame"]: (e["oid"], res["B"]["objects"][e["oid"]]["stamps"][e["stamp_actual"]]["aabb"]) for e in sb["entries"]}
        if c["exc"]:
            fails.append(f"aabb_overlapping_with_other_bvh raised {c['exc']}")
        elif any(a is None or b is None for a, b in c["r"]):
            fails.append("aabb_overlapping_with_other_bvh returned a None payload")
        else:
            want = sorted((f, ba[f][0], g, bb[g][0]) for f in ba for g in bb if overlap(ba[f][1], bb[g][1]))
            got = [(a[0], a[1], b[0], b[1]) for a, b in c["r"]]
            if sorted(got) != want or len(set(got)) != len(got):
                fails.append(f"aabb_overlapping_with_other_bvh returned {len(got)} pairs, brute force {len(want)}")
            stats["cross"] += 1
            stats["cross_nonempty"] += bool(want)
    return fails


# ---------------------------------------------------------------- main
_CONFIRMED = [0]
CASE_LIMIT_S = 150      # wall-clock allowance per case inside a worker (a case normally takes < 1 s)


def run_impl_cases(cases, tag):
    nw = min(cm.NCPU, max(1, len(cases) // 6))
    chunks = [cases[i::nw] for i in range(nw)]
    res = cm.run_impl_parallel(PID, "c06", [dict(cases=c, case_limit_s=CASE_LIMIT_S) for c in chunks], timeout=1200, tag=tag)
    out = [None] * len(cases)
    for wk, (rr, ch) in enumerate(zip(res, chunks)):
        idxs = list(range(wk, len(cases), nw))
        if rr["status"] == "ok":
            for i, x in zip(idxs, rr["result"]["results"]):
                out[i] = x
        else:
            # a worker died or ran out of time: isolate the cases; a time-out is only believed after the case
            # has been re-run ALONE with a generous limit (a busy machine or a cold numba cache is not a verdict)
            singles = cm.run_impl_parallel(PID, "c06", [dict(cases=[c]) for c in ch], timeout=300, tag=tag + "_iso")
            for j, s1 in enumerate(singles):
                if s1["status"] == "timeout":
                    if _CONFIRMED[0] >= 3:          # three confirmed hangs are a verdict; do not spend hours
                        singles[j] = dict(status="unconfirmed-timeout", rc=None, log="")
                        continue
                    _CONFIRMED[0] += 1
                    singles[j] = cm.run_impl(PID, "c06", dict(cases=[ch[j]]), timeout=900, tag=tag + "_alone")
            for i, s in zip(idxs, singles):
                if s["status"] == "ok":
                    out[i] = s["result"]["results"][0]
                else:
                    out[i] = dict(harness_exc=f"PROCESS-{s['status'].upper()}", harness_msg=f"rc={s.get('rc')} {s.get('log', '')[-300:]}")
    # cases that ran into the in-worker allowance: believed only after a run ALONE without that allowance
    for i, x in enumerate(out):
        if isinstance(x, dict) and x.get("harness_exc") == "CASE-TIMEOUT":
            if _CONFIRMED[0] >= 3:
                out[i] = dict(harness_exc="PROCESS-UNCONFIRMED-TIMEOUT", harness_msg="not re-run (3 hangs already confirmed)")
                continue
            _CONFIRMED[0] += 1
            s1 = cm.run_impl(PID, "c06", dict(cases=[cases[i]]), timeout=900, tag=tag + "_alone")
            if s1["status"] == "ok":
                out[i] = s1["result"]["results"][0]
            else:
                out[i] = dict(harness_exc=f"PROCESS-{s1['status'].upper()}", harness_msg=f"rc={s1.get('rc')} {s1.get('log', '')[-300:]}")
    return out


def new_stats():
    return dict(snapshots=0, query=0, query_nonempty=0, self=0, self_nonempty=0, cross=0, cross_nonempty=0,
                detect=0, detect_mixed=0, detect_partner_only=0, detect_continue_taken=0, detect_any=0,
                detect_any_true=0, empty_bvh=0, query_whitelist_removed_something=0,
                narrow_raised=0, narrow_without_aabb_overlap=0, judged_after_replacement_or_removal=0,
                query_returned_replaced_frame=0, narrow_calls_identified=0)


def run(tier, seed, replay=None):
    R = cm.Run(PID, "proof", tier, seed)
    R.cov["rule"] = (
        "case = two worlds; world = URDF chain/tree/star of 1-9 links (0-3 sphere/box/cylinder collision objects per "
        "link, 20% also with visual objects, then loaded with use_visuals=True in 60% of those, revolute/prismatic/continuous/fixed joints) loaded by UrdfTransformManager, or a plain TransformManager, "
        "plus 0-7 capsule/cone/mesh/sphere/box/cylinder colliders registered with add_collider (built away from their "
        "frame's transform); history = fill_tree_with_colliders (with/without generated whitelists), add_collider, "
        "TOOL CHANGES in 40% of the rounds (1-3 registered frames each: add_collider under a frame name in use = the object "
        "is replaced and the number of colliders stays the same; del colliders_[f] followed by add_collider of a new or of the "
        "same object under f; one collider out and another one under its own frame in; plain removal; usually after the BVH "
        "has been queried and with no query between the change and the next update_collider_poses, in 25% with queries on the "
        "stale tree), every returned collider identified as an object (also the objects detect hands to the narrow phase), "
        "hand-made (asymmetric, partial, replacing) whitelists, 1-5 rounds of random set_joint (incl. limits) / "
        "add_transform (fresh array, or the array handed over earlier edited IN PLACE and added again; frames hanging directly "
        "below 'origin' hand that very array to the colliders) followed by update_collider_poses; links / joints declared in "
        "arbitrary order (children before parents); colliders registered before OR after fill_tree_with_colliders, interleaved with aabb_overlapping_colliders (random query "
        "colliders, whitelists incl. unknown names), aabb_overlapping_with_self, detect, detect_any, state dumps; at the "
        "end world A is queried against world B. ~15% of the cases form the 'beyond' stream (duplicate frame names, one "
        "object under two frames, frames unknown to the transform manager, queries on a stale tree, missing whitelist "
        "entries, a second fill): correspondence incl. exception types only, not judged against the property. "
        "non-trivial = some query/detect answer is neither empty nor everything; distinct by canonical hash.")
    R.assumptions += [
        "theorems are about the Gallina model Model/Bvh.v on top of Model/AabbTree.v (C05); the tie to /repo is the exact "
        "correspondence run here (same answers in the same order, same exception types)",
        "collider kernels are parameters of the model: update_pose (C14), aabb (C04), gjk_intersection (C02); completeness "
        "of detect/detect_any uses the hypothesis narrow_implies_aabb_overlap (C04's enclosure corollary)",
        "the transform manager and the URDF parser of pytransform3d are modelled as a partial map frame -> pose and as the "
        "ordered key list of tm.transforms / tm.nodes; frame names follow the parser's naming convention (structured names "
        "instead of regular expressions: link or collision names with '/' or regex metacharacters are outside the model)",
        "an exception ends a modelled history (no model of partially updated objects)",
        "taking a collider out of a BVH has no method: the histories do `del bvh.colliders_[f]; bvh.collider_frames.discard(f)` "
        "on the public attributes (model: Remove); replacement = add_collider under a frame name in use; both are judged "
        "against the property only after the next update_collider_poses (until then the tree still holds the old leaf)",
        "harness/compat.py import shim; numpy/numba/CPython; Python dict order = insertion order",
    ]
    R.check_proofs(PROOF_FILES, build_targets=["theories/Props/C06.vo", "theories/Model/BvhRun.vo",
                                               "theories/Proofs/BvhReal.vo"])

    cases = []
    if replay:
        cases.append(json.loads(open(replay).read())["case"])
    else:
        corpus = cm.VERIF / "corpus" / PID
        if corpus.exists():
            for f in sorted(corpus.glob("*.json")):
                cases.append(json.loads(f.read_text())["case"])
        n = 160 if tier == "quick" else 1600
        for k in range(n):
            cases.append(gen_case(R.rng, tier, "beyond" if k % 7 == 6 else "property"))
    results = run_impl_cases(cases, "impl")
    R.cov["evaluations"] = len(cases)

    # property oracle
    stats = new_stats()
    bad = []
    for c, r in zip(cases, results):
        if c.get("stream") == "beyond":
            if "harness_exc" in r and r["harness_exc"] != "PROCESS-UNCONFIRMED-TIMEOUT":
                R.corr_broken.append(f"worker error on a beyond-stream case: {r['harness_exc']} {r.get('harness_msg')}")
            continue
        f = judge_case(c, r, stats)
        if f:
            bad.append((c, f))
    R.cov["oracle_observations"] = stats

    # correspondence
    ndiff, ncmp, nunstable, ntrunc = 0, 0, 0, 0
    exprs, meta = [], []
    wl_exprs, wl_meta = [], []
    for i, (c, r) in enumerate(zip(cases, results)):
        if "harness_exc" in r or any("harness_exc" in r.get(nm, {}) for nm in ("A", "B")):
            continue
        try:
            expr, parts, cross, flags = case_to_coq(c, r)
        except Exception as e:  # noqa
            R.corr_broken.append(f"case could not be translated for the model: {type(e).__name__}: {str(e)[:200]}")
            continue
        exprs.append(expr)
        meta.append((i, parts, cross, flags))
        for nm in ("A", "B"):
            u = c[nm]["urdf"]
            for rec in r[nm]["cmds"]:
                if rec["op"] == "fill" and "generated_wl" in rec and u is not None:
                    e, want = wl_to_coq(u, rec)
                    wl_exprs.append(e)
                    wl_meta.append((i, nm, want))
    branch = dict(keyerror=0)
    try:
        outs = cm.coq_eval_lines(PID, HEADER, exprs, per_file=max(4, len(exprs) // (2 * cm.NCPU) + 1), timeout=1500)
        for (i, parts, cross, flags), o in zip(meta, outs):
            oa, ob, oc = parse_out(o)
            nunstable += flags["unstable"]
            ntrunc += flags["truncated"]
            diffs = []
            for nm, om in (("A", oa), ("B", ob)):
                for ci, want, k in parts[nm]["exp"]:
                    got = om[ci] if ci < len(om) else None
                    op = results[i][nm]["cmds"][k]["op"]
                    if flags["unstable"] and op in ("detect", "detect_any"):
                        continue
                    ncmp += 1
                    if want and want[0] == -201:
                        branch["keyerror"] += 1
                    if got != want:
                        diffs.append(f"world {nm} cmd {k} ({op}): model {str(got)[:120]} vs implementation {str(want)[:120]}")
            if cross is not None and oc != cross:
                diffs.append(f"aabb_overlapping_with_other_bvh: model {str(oc)[:120]} vs implementation {str(cross)[:120]}")
            if diffs:
                ndiff += 1
                if len(R.corr_broken) < 5:
                    R.corr_broken.append(f"Bvh model vs implementation: {diffs[0]}")
                    R.notes.append(dict(correspondence_diff=diffs[:4], case_hash=cm.canon_hash(cases[i])))
    except (RuntimeError, ValueError) as e:
        R.corr_broken.append(f"model evaluation failed: {str(e)[:600]}")
    nwl, nwl_diff, nasym = 0, 0, 0
    if wl_exprs:
        try:
            HW = "From Coq Require Import List.\nFrom D3 Require Import Model.Bvh.\nImport ListNotations.\n"
            outs = cm.coq_eval_lines(PID, HW, wl_exprs, tag="wl", per_file=max(10, len(wl_exprs) // cm.NCPU + 1))
            for (i, nm, want), o in zip(wl_meta, outs):
                got = parse_wl(o)
                nwl += 1
                d = dict((json.dumps(k), [json.dumps(x) for x in v]) for k, v in want)
                nasym += any(g in d and f not in d[g] for f, v in d.items() for g in v)
                if got != want:
                    nwl_diff += 1
                    if len(R.corr_broken) < 5:
                        R.corr_broken.append(f"self_collision_whitelists: model {str(got)[:150]} vs implementation {str(want)[:150]}")
        except (RuntimeError, ValueError) as e:
            R.corr_broken.append(f"whitelist model evaluation failed: {str(e)[:400]}")
    R.cov["correspondence_disagreements"] = ndiff + nwl_diff
    R.cov["observations_compared_with_model"] = ncmp
    R.cov["traces_validated_against_impl"] = len(meta) - ndiff
    R.cov["generated_whitelists_compared"] = nwl
    R.cov["generated_whitelists_asymmetric"] = nasym
    R.cov["cases_with_unstable_narrow_phase"] = nunstable
    R.cov["cases_truncated_at_exception"] = ntrunc
    R.cov["exceptions_predicted_by_model_and_confirmed"] = branch

    distinct = set()
    hist = dict(stream={}, ops={}, kinds={}, exceptions={})
    for c, r in zip(cases, results):
        hist["stream"][c.get("stream", "property")] = hist["stream"].get(c.get("stream", "property"), 0) + 1
        nt = False
        for nm in ("A", "B"):
            for e in c[nm]["extras"]:
                hist["kinds"][e["kind"]] = hist["kinds"].get(e["kind"], 0) + 1
            if c[nm]["urdf"]:
                for ln in c[nm]["urdf"]["links"]:
                    for col in ln["collisions"]:
                        hist["kinds"]["urdf_" + col["kind"]] = hist["kinds"].get("urdf_" + col["kind"], 0) + 1
            for rec in r.get(nm, {}).get("cmds", []):
                hist["ops"][rec["op"]] = hist["ops"].get(rec["op"], 0) + 1
                if rec["exc"]:
                    hist["exceptions"][rec["exc"]] = hist["exceptions"].get(rec["exc"], 0) + 1
                if rec.get("poked"):
                    hist["inplace_edits_that_moved_colliders"] = hist.get("inplace_edits_that_moved_colliders", 0) + 1
                n = len(rec.get("snap", {}).get("entries", []))
                if rec["op"] in ("query", "self") and rec.get("r") and len(rec["r"]) < max(1, n * (n - 1) if rec["op"] == "self" else n):
                    nt = True
                if rec["op"] == "detect" and rec.get("r") and 0 < sum(1 for _, v in rec["r"] if v) < len(rec["r"]):
                    nt = True
        if nt and c.get("stream") != "beyond":
            distinct.add(cm.canon_hash(c))
    R.cov["distinct_nontrivial"] = len(distinct)
    R.cov["input_histogram"] = hist
    for c, r in list(zip(cases, results))[:3]:
        a = r.get("A", {})
        R.sample(dict(links=len(c["A"]["urdf"]["links"]) if c["A"]["urdf"] else 0, extras=[e["kind"] for e in c["A"]["extras"]],
                      cmds=[x["op"] for x in c["A"]["cmds"]],
                      results=[rec.get("r") for rec in a.get("cmds", []) if rec["op"] in ("detect", "detect_any", "query")][:3]))
    for c, f in bad[:5]:
        R.failure("; ".join(f[:3]), c, site="broad_phase/self_collision")

    # proof or tie broke but the oracle saw nothing: larger search judged by the oracle only
    if (R.proof_broken or R.corr_broken) and not bad and not replay:
        extra = [gen_case(R.rng, "thorough") for _ in range(1200)]
        res2 = run_impl_cases(extra, "search")
        R.cov["search_evaluations"] = len(extra)
        st2 = new_stats()
        for c, r in zip(extra, res2):
            f = judge_case(c, r, st2)
            if f:
                R.failure("; ".join(f[:3]), c, site="broad_phase/self_collision")
                break
    return R.finish()
