"""Model correspondence for C10/C11: Model/DistPrim.v (binary64 instance Model/DistPrimRun.v,
vm_compute inside coqc) against the implementation on the same inputs.

For every generated case of a modelled function the model is evaluated on exactly the floats
the implementation received; compared are ALL observables the function returns: d and both
closest points (one for point_to_X), each within CORR_TOL * L (closed forms; the only
differences are the summation order of BLAS dot/nrm2 and fused multiply-adds).  A mismatch is
re-examined: the model is re-run on inputs perturbed by a few ulps; if its arm tag or its
result moves by more than the tolerance under such a perturbation the case sits on a branch
boundary / is ill-conditioned ("margin-unclear": counted, not an alarm -- the property oracle
has judged the implementation's result for that input anyway).  A mismatch on a stable case is
a broken correspondence (the targeted search of the caller then looks for a property failure).
The arm tags reached by the model are accumulated as MODEL BRANCH COVERAGE per function and
compared with the list of arms that exist (holes are printed into the evidence).
"""
import math
import re
import json

from .. import common as cm
from .. import primlib as pl

CORR_TOL = 1e-9      # * L, on d and on every coordinate of the returned points
EPS6 = 1e-6

# arms that exist per modelled function (tags of Model/DistPrim.v); "reachable" in domain P:
# arms only taken for degenerate (out-of-domain) inputs are listed separately and not counted as holes
_LB = ([100, 200, 400] + [100 * p + 10 * a + b for p in (3, 5, 6) for a in (1, 2, 3, 4) for b in (0, 1, 2)]
       + [700 + 20 * s + l for s in range(4) for l in range(1, 11) if (s, l) not in ((1, 5), (1, 9), (3, 3), (3, 7))])
ARMS = {
    "point_to_line": [0], "point_to_line_segment": [0], "point_to_plane": [0],
    "point_to_triangle": [1, 2, 3, 4, 5, 6, 7],
    "point_to_rectangle": [0], "point_to_box": [0], "point_to_disk": [0],
    "point_to_circle": [0, 1], "point_to_cylinder": [0],
    "line_to_line": [0, 1],
    "line_to_line_segment": [3, 4],
    "line_segment_to_line_segment": [10, 11, 12, 20, 21, 22],
    "line_to_plane": [0], "line_segment_to_plane": [0, 1, 2, 3], "plane_to_plane": [0],
    "plane_to_triangle": [0, 1], "plane_to_rectangle": [0, 1], "plane_to_box": [0, 1],
    # combinators (Model/DistPrimComb.v)
    "line_to_triangle": [0, 1], "line_segment_to_triangle": [0, 1, 2], "triangle_to_triangle": [0],
    "line_to_rectangle": [0, 1], "line_segment_to_rectangle": [0, 1, 2], "triangle_to_rectangle": [0],
    "rectangle_to_rectangle": [0], "rectangle_to_box": [0, 1],
    "plane_to_ellipsoid": [0, 1], "plane_to_cylinder": [0, 1],
    # iterative functions (Model/DistPrimIter.v): the tag is an iteration count, not an arm (None = not tracked)
    "point_to_ellipsoid": None, "disk_to_disk": None,
    # Eberly's line/box case tree (Model/DistPrimBox.v): tag = 100 * direction pattern + leaf; circle (DistPrimCircle.v)
    "line_to_box": _LB, "line_segment_to_box": None,
    "line_to_circle": None, "line_segment_to_circle": None,
}
OUT_OF_DOMAIN_ARMS = {
    "line_to_line_segment": [0, 1, 2], "line_segment_to_line_segment": [0, 1, 2],
    # 0 = zero direction; 725 729 763 767 are unreachable in exact arithmetic (the implementation never reaches them either)
    "line_to_box": [0, 725, 729, 763, 767],
}
MODELLED = list(ARMS)

HEADER = """From Coq Require Import List PrimFloat.
From D3 Require Import Base.Ops Base.Vec Model.DistPrimRun Model.DistPrimCombRun Model.DistPrimIterRun Model.DistPrimBoxRun.
Import ListNotations.
Open Scope float_scope.
"""


def eval_lines(pid, header, exprs, tag, per_file):
    """cm.coq_eval_lines, retried once with smaller files and a generous limit: a busy machine must not turn
    into a 'model evaluation failed' verdict"""
    try:
        return cm.coq_eval_lines(pid, header, exprs, tag=tag, per_file=per_file, timeout=1800)
    except RuntimeError as e:
        if "rc=124" not in str(e) and "timed out" not in str(e).lower() and "rc=-" not in str(e):
            raise
        return cm.coq_eval_lines(pid, header, exprs, tag=tag + "_retry", per_file=max(10, per_file // 4), timeout=3600)


# default arguments of the 34 public functions that the models assume (the models take epsilon as a parameter, which the
# harness fills with these values; loop bounds such as max_iter are literals of the model): re-read from the source by a
# fail-closed ast reader on every run, so that a changed default is a broken correspondence even before an input is found
# on which it matters
EXPECTED_DEFAULTS = {
    "point_to_plane": {"signed": False},
    "point_to_circle": {"epsilon": 1e-6},
    "point_to_ellipsoid": {"distance_to_surface": False, "epsilon": 1e-16, "max_iter": 64},
    "line_to_line": {"epsilon": 1e-6}, "line_to_line_segment": {"epsilon": 1e-6},
    "line_segment_to_line_segment": {"epsilon": 1e-6},
    "line_to_plane": {"epsilon": 1e-6}, "line_segment_to_plane": {"epsilon": 1e-6}, "plane_to_plane": {"epsilon": 1e-6},
    "line_to_triangle": {"epsilon": 1e-6}, "line_segment_to_triangle": {"epsilon": 1e-6}, "triangle_to_triangle": {"epsilon": 1e-6},
    "line_to_rectangle": {"epsilon": 1e-6}, "line_segment_to_rectangle": {"epsilon": 1e-6},
    "rectangle_to_rectangle": {"epsilon": 1e-6}, "rectangle_to_box": {"epsilon": 1e-6},
    "disk_to_disk": {"epsilon": 1e-8},
}


def source_defaults():
    """{function: {argument: default}} of the functions of distance3d.distance.__all__, read from the source files of the tree
    under test with ast (no import); raises on anything it does not understand"""
    import ast
    out = {}
    d = cm.REPO / "distance3d" / "distance"
    for f in sorted(d.glob("_*.py")):
        tree = ast.parse(f.read_text())
        for n in tree.body:                      # top-level definitions only
            if isinstance(n, ast.FunctionDef) and n.name in pl.FUNCS:
                names = [a.arg for a in n.args.args]
                defs = n.args.defaults
                out[n.name] = {nm: ast.literal_eval(v) for nm, v in zip(names[len(names) - len(defs):], defs)}
                if n.args.kwonlyargs or n.args.vararg or n.args.kwarg:
                    raise ValueError(f"unexpected signature shape of {n.name}")
    missing = [fn for fn in pl.FUNCS if fn not in out]
    if missing:
        raise ValueError(f"functions not found in the source: {missing}")
    return out


def check_defaults(R):
    try:
        got = source_defaults()
    except Exception as e:      # fail closed
        R.corr_broken.append(f"default-argument reader failed on the source: {type(e).__name__}: {str(e)[:200]}")
        return
    diffs = []
    for fn in pl.FUNCS:
        want = EXPECTED_DEFAULTS.get(fn, {})
        if got.get(fn, {}) != want:
            diffs.append(f"{fn}: source {got.get(fn, {})} vs model {want}")
    R.cov["source_defaults_pinned"] = sum(len(v) for v in EXPECTED_DEFAULTS.values())
    R.suspect_functions = [d.split(":")[0] for d in diffs]
    if diffs:
        R.corr_broken.append("default arguments of the source differ from what the models assume: " + "; ".join(diffs[:4]))


def fx(x):
    return cm.fhex(float(x))


def v(x):
    return "(V " + " ".join(fx(t) for t in x) + ")"


def pose(p):
    return "(mkP " + " ".join(fx(p[i][j]) for i in range(3) for j in range(3)) + " " + " ".join(fx(p[i][3]) for i in range(3)) + ")"


def prim_expr(p):
    k = p["kind"]
    if k == "point":
        return v(p["p"])
    if k == "line":
        return f"{v(p['p'])} {v(p['d'])}"
    if k == "line_segment":
        return f"{v(p['s'])} {v(p['e'])}"
    if k == "plane":
        return f"{v(p['p'])} {v(p['n'])}"
    if k == "triangle":
        return " ".join(v(t) for t in p["pts"])
    if k == "rectangle":
        return f"{v(p['c'])} {v(p['axes'][0])} {v(p['axes'][1])} {fx(p['lengths'][0])} {fx(p['lengths'][1])}"
    if k in ("disk", "circle"):
        return f"{v(p['c'])} {fx(p['r'])} {v(p['n'])}"
    if k == "box":
        return f"{pose(p['pose'])} {v(p['size'])}"
    if k == "cylinder":
        return f"{pose(p['pose'])} {fx(p['r'])} {fx(p['l'])}"
    if k == "ellipsoid":
        return f"{pose(p['pose'])} {v(p['radii'])}"
    raise KeyError(k)


EPS_ARG = {"point_to_circle", "line_to_line", "line_to_line_segment", "line_segment_to_line_segment",
           "line_to_plane", "line_segment_to_plane", "plane_to_plane",
           "line_to_triangle", "line_segment_to_triangle", "triangle_to_triangle", "line_to_rectangle",
           "line_segment_to_rectangle", "rectangle_to_rectangle", "rectangle_to_box"}


OTHER_EPS = {"point_to_ellipsoid": 1e-16, "disk_to_disk": 1e-8}     # the functions' default epsilon arguments


def model_expr(case):
    fn = case["fn"]
    e = f"r_{fn} {prim_expr(case['A'])} {prim_expr(case['B'])}"
    if fn in EPS_ARG:
        e += " " + fx(EPS6)
    elif fn in OTHER_EPS:
        e += " " + fx(OTHER_EPS[fn])
    return e


def parse(o):
    s = o.replace("%float", "").replace("%nat", "")
    s = re.sub(r"\((-[0-9][0-9.e+-]*)\)", r"\1", s)
    s = s.replace("(", "[").replace(")", "]").replace(";", ",")
    s = re.sub(r"\bneg_infinity\b", "-1e999", s)
    s = re.sub(r"\binfinity\b", "1e999", s)
    s = re.sub(r"\bnan\b", "NaN", s)
    vals, arm = json.loads(s)
    return [float(x) for x in vals], int(arm)


def impl_obs(case, r):
    d = float.fromhex(r["d"])
    pts = [[float.fromhex(x) for x in p] for p in r["pts"]]
    return [d] + [x for p in pts for x in p]


def nudge(x, k):
    for _ in range(abs(k)):
        x = math.nextafter(x, math.inf if k > 0 else -math.inf)
    return x


def perturb(rng, obj):
    """the same primitive with every float moved by -2..2 units of 2^-52 * max(|x|, 1e-3): about 2 ulps for ordinary
    values, and a comparable ABSOLUTE amount for exact zeros / tiny values (lattice inputs are full of exact zeros and
    exact symmetries, which an ulp of a denormal would not disturb)"""
    if isinstance(obj, dict):
        return {k: (perturb(rng, w) if k != "kind" else w) for k, w in obj.items()}
    if isinstance(obj, list):
        return [perturb(rng, w) for w in obj]
    if isinstance(obj, float):
        return obj + rng.choice([-2, -1, 0, 1, 2]) * 2.0 ** -52 * max(abs(obj), 1e-3)
    return obj


def maxdiff(a, b):
    if len(a) != len(b):
        return math.inf
    m = 0.0
    for x, y in zip(a, b):
        if math.isnan(x) and math.isnan(y):
            continue
        if math.isnan(x) or math.isnan(y):
            return math.inf
        if x == y:
            continue
        m = max(m, abs(x - y))
    return m


def correspondence(R, pid, cases, results, tier):
    R.cov["modelled"] = MODELLED
    check_defaults(R)
    idx = [i for i, c in enumerate(cases) if c["fn"] in ARMS and "exc" not in results[i]]
    exprs = [model_expr(cases[i]) for i in idx]
    try:
        outs = eval_lines(pid, HEADER, exprs, "model", max(20, len(exprs) // (2 * cm.NCPU) + 1))
    except RuntimeError as e:
        R.corr_broken.append(f"model evaluation failed: {str(e)[:400]}")
        return
    arms = {fn: {} for fn in ARMS}
    worst = {}
    mism = []
    for i, o in zip(idx, outs):
        c, r = cases[i], results[i]
        mv, arm = parse(o)
        arms[c["fn"]][arm] = arms[c["fn"]].get(arm, 0) + 1
        L = pl.scale_L(c["A"], c["B"])
        df = maxdiff(mv, impl_obs(c, r)) / L
        w = worst.setdefault(c["fn"], 0.0)
        if df <= CORR_TOL:
            worst[c["fn"]] = max(w, df)
            r["_model_agrees"] = True        # the binary64 model reproduces d and every returned point on this input
        else:
            r["_model_agrees"] = False
            mism.append((i, mv, arm, df))
    # (a) non-unique minimiser: d agrees but the points differ, and the MODEL's points are themselves a valid answer
    #     (on their primitives, |p1-p2| = d, judged by the same exact oracle as the implementation's result): when a
    #     pair has several closest pairs (contact along a segment, parallel features) rounding noise of 1e-15 decides
    #     which candidate of an enumeration wins; only d is comparable then
    from . import c10 as _c10
    nonunique = 0
    keep = []
    for (i, mv, arm, df) in mism:
        c, r = cases[i], results[i]
        L = pl.scale_L(c["A"], c["B"])
        iv = impl_obs(c, r)
        if len(mv) == len(iv) and abs(mv[0] - iv[0]) <= CORR_TOL * L and all(math.isfinite(x) for x in mv):
            fake = dict(d=float(mv[0]).hex(), pts=[[float(x).hex() for x in mv[1 + 3 * k:4 + 3 * k]] for k in range((len(mv) - 1) // 3)],
                        n_out=r["n_out"], shapes=r["shapes"])
            fails, _ = _c10.judge_py(c, fake)
            if not fails:
                nonunique += 1
                r["_model_agrees"] = True    # same d, another valid closest pair
                continue
        keep.append((i, mv, arm, df))
    mism = keep
    R.cov["model_nonunique_minimiser"] = nonunique
    # (b) re-examine the rest: stable under a few-ulp perturbation of the input?
    unclear = 0
    real = []
    if mism:
        pex, owner = [], []
        for (i, mv, arm, df) in mism[:200]:
            c = cases[i]
            # the circle root finder decides ties between (nearly) equidistant roots by 1e-16 noise: more samples there
            K = 16 if "circle" in c["fn"] else 6
            for _ in range(K):
                pc = dict(fn=c["fn"], A=perturb(R.rng, c["A"]), B=perturb(R.rng, c["B"]))
                pex.append(model_expr(pc))
                owner.append(i)
        try:
            pouts = eval_lines(pid, HEADER, pex, "model_pert", max(20, len(pex) // (2 * cm.NCPU) + 1))
        except RuntimeError as e:
            R.corr_broken.append(f"model evaluation (perturbed) failed: {str(e)[:300]}")
            pouts = []
        moved = {}
        for i, o in zip(owner, pouts):
            moved.setdefault(i, []).append(parse(o))
        for (i, mv, arm, df) in mism[:200]:
            c = cases[i]
            L = pl.scale_L(c["A"], c["B"])
            unstable = any(a2 != arm or maxdiff(mv, v2) / L > CORR_TOL for v2, a2 in moved.get(i, []))
            if unstable:
                unclear += 1
                results[i]["_model_agrees"] = "unclear"      # the model's own result moves under a 2-ulp perturbation
            else:
                real.append((i, mv, arm, df))
        real += mism[200:]
    # (c) the IMPLEMENTATION may sit on the knife edge itself (e.g. `b1_squared > 0.0` at an exactly representable zero
    #     that the model's summation order turns into 1e-33): re-run the implementation on inputs perturbed by ~2 ulp; if ITS
    #     result moves by more than the tolerance the case is ill-conditioned and says nothing about the correspondence
    if real:
        sub = real[:40]
        pcs, owner = [], []
        for (i, mv, arm, df) in sub:
            c = cases[i]
            for _ in range(8):
                pcs.append(dict(fn=c["fn"], A=perturb(R.rng, c["A"]), B=perturb(R.rng, c["B"]), stream="perturbed"))
                owner.append(i)
        rr = cm.run_impl(pid, "c10", dict(cases=[dict(fn=c["fn"], args=pl.case_args(c)) for c in pcs]), timeout=1800, tag="impl_pert")
        moved = set()
        if rr["status"] == "ok":
            for i, c, r2 in zip(owner, pcs, rr["result"]["results"]):
                if "exc" in r2:
                    continue
                L = pl.scale_L(cases[i]["A"], cases[i]["B"])
                if maxdiff(impl_obs(c, r2), impl_obs(cases[i], results[i])) / L > CORR_TOL:
                    moved.add(i)
        keep = []
        for t in real:
            if t[0] in moved:
                unclear += 1
                results[t[0]]["_model_agrees"] = "unclear"
            else:
                keep.append(t)
        real = keep
    R.cov["model_evaluations"] = len(idx)
    R.cov["model_vs_impl_tolerance"] = f"{CORR_TOL} * L on d and on every coordinate of every returned point"
    R.cov["model_vs_impl_worst_relative_diff"] = {k: float(f"{x:.3e}") for k, x in worst.items()}
    R.cov["model_margin_unclear"] = unclear
    R.cov["model_mismatches"] = len(real)
    cov = {}
    holes = {}
    for fn in ARMS:
        if ARMS[fn] is None:
            cov[fn] = {"tags (iteration counts)": len(arms[fn])}
            continue
        cov[fn] = {str(a): arms[fn].get(a, 0) for a in ARMS[fn] + OUT_OF_DOMAIN_ARMS.get(fn, [])}
        h = [a for a in ARMS[fn] if not arms[fn].get(a)]
        if h:
            holes[fn] = h
        extra = [a for a in arms[fn] if a not in ARMS[fn] + OUT_OF_DOMAIN_ARMS.get(fn, [])]
        if extra:
            R.corr_broken.append(f"model of {fn} reported an unknown arm tag {extra}")
    R.cov["model_branch_coverage"] = cov
    R.cov["model_branch_holes"] = holes
    for (i, mv, arm, df) in real[:5]:
        c = cases[i]
        R.corr_broken.append(
            f"{c['fn']} (stream {c['stream']}, model arm {arm}): model and implementation differ by {df:.3e}*L "
            f"(model {mv[:4]} impl {impl_obs(c, results[i])[:4]}) case_hash={cm.canon_hash(c)}")
    R.mismatch_cases = [cases[i] for (i, _, _, _) in real]
