"""Model correspondence for C10/C11: Model/DistPrim.v (binary64 instance, vm_compute inside
coqc) against the implementation on the same inputs."""


def correspondence(R, pid, cases, results, tier):
    R.cov["modelled"] = []
    return
