"""C02 — Boolean collision tests never miss a clear overlap nor report a clear gap.

Ground truth per generated pair comes from Coq-proven certificates (Checker/NarrowB.v), not
from another GJK:
  overlap class  `overlap_cert A B da db p delta = true`  => the ball of radius delta around p lies
                 in both colliders (overlap_cert_sound);
  gap class      `gap_cert A B n delta = true`            => every two points are >= delta apart
                 (gap_cert_sound, via sep_cert_sound).
delta = 1e-3 * L.  A, B are the exact rational shape expressions of the floats handed to the
constructors; all witnesses (p, the eight parallelepiped corners, n) are untrusted.  Every one of
the five boolean functions must answer True in the overlap class and False in the gap class; pairs
with neither certificate (the band around grazing contact, or no witness found) are not judged.
gjk_distance_jolt's d is compared as well (d <= 1e-5 L in the overlap class, d >= delta - 1e-5 L in
the gap class).
"""
import json
import time
from fractions import Fraction as Fr

import numpy as np

from .. import common as cm
from .. import narrow as nw
from .. import narrow_bool as nb
from .. import jolt_corr as jc
from .. import narrow_corr as ncorr

PID = "C02"
PROOF_FILES = ["theories/Props/C02.v", "theories/Checker/NarrowB.v", "theories/Checker/Deep.v",
               "theories/Checker/Shapes.v", "theories/Spec/Convex.v", "theories/Proofs/JoltLoop.v", "theories/Model/JoltLoop.v", "theories/Model/GjkLibccd.v",
               "theories/Proofs/GjkLibccd.v"]
BOOL_FNS = ["isect_jolt", "isect_libccd", "isect_mpr", "isect_nesterov", "isect_nesterov_prim"]
PUBLIC = dict(isect_jolt="gjk_intersection_jolt", isect_libccd="gjk_intersection_libccd", isect_mpr="mpr_intersection",
              isect_nesterov="gjk_nesterov_accelerated_intersection",
              isect_nesterov_prim="gjk_nesterov_accelerated_primitives_intersection")
KS = [1.5, 4.0, 100.0]


def prim_ok(spec):
    return spec["kind"] in nw.PRIMS and "margin" not in spec


def ops_for(s1, s2):
    ops = [dict(fn="gjk_jolt", kw=dict(max_distance_squared=1e300))]
    for fn in BOOL_FNS:
        if fn == "isect_nesterov_prim" and not (prim_ok(s1) and prim_ok(s2)):
            continue
        ops.append(dict(fn=fn))
    return ops


def big_sizes(rng):
    return [1.0, 2.0, 4.0] if rng.random() < 0.5 else [2.0, 3.0, 5.0]


def gen_cases(rng, tier):
    """constructed overlap / gap pairs over all ordered kind pairs and the three band-edge multiples,
    plus the general streams of narrow.gen_pair, identical and nested pairs"""
    cases = []
    pairs = [(a, b) for a in nw.KINDS for b in nw.KINDS]
    ppairs = [(a, b) for a in nw.PRIMS for b in nw.PRIMS]
    reps = 1 if tier == "quick" else 5
    rng.shuffle(pairs)
    for rep in range(reps):
        for i, (k1, k2) in enumerate(pairs):
            ks = KS if tier != "quick" else [KS[(i + rep) % 3]]
            for k in ks:
                st = rng.choice(["moderate", "moderate", "lattice", "random"])
                mp = 0.25
                if k >= 100:
                    st = "lattice" if rng.random() < 0.5 else "moderate"
                r = None
                for _ in range(4):
                    r = nb.construct_overlap(rng, k1, k2, k, stream=st, margin_prob=mp if k1 not in ("disk", "ellipse") and k2 not in ("disk", "ellipse") else 0.8)
                    if r is not None:
                        break
                if r is not None:
                    cases.append(dict(c1=r[0], c2=r[1], meta=r[2]))
                g = nb.construct_gap(rng, k1, k2, k, stream=st, margin_prob=0.15)
                cases.append(dict(c1=g[0], c2=g[1], meta=g[2]))
    # unwrapped primitive pairs (the only ones the *_primitives functions accept)
    for rep in range(1 if tier == "quick" else 8):
        for i, (k1, k2) in enumerate(ppairs):
            k = KS[(i + rep) % 3]
            st = rng.choice(["moderate", "lattice", "random"])
            r = nb.construct_overlap(rng, k1, k2, k, stream=st, margin_prob=0.0)
            if r is not None:
                cases.append(dict(c1=r[0], c2=r[1], meta=r[2]))
            g = nb.construct_gap(rng, k1, k2, KS[(i + rep + 1) % 3], stream=st, margin_prob=0.0)
            cases.append(dict(c1=g[0], c2=g[1], meta=g[2]))
    n_general = 120 if tier == "quick" else 1200
    for i in range(n_general):
        kind = rng.choice(["stream", "stream", "identical", "nested", "touch"])
        if kind == "stream":
            s1, s2, meta = nw.gen_pair(rng, tier, stream=rng.choice(["random", "lattice", "moderate", "wide"]))
        elif kind == "identical":
            st = rng.choice(["lattice", "moderate", "random"])
            s1 = nw.gen_collider(rng, rng.choice(nw.KINDS), st, spread=3.0)
            s2 = json.loads(json.dumps(s1))
            meta = dict(stream="identical", kinds=[s1["kind"]] * 2, L=nw.scene_scale([s1, s2]))
        elif kind == "nested":
            st = rng.choice(["lattice", "moderate"])
            s1 = nw.gen_collider(rng, rng.choice(nw.KINDS), st, spread=3.0, sizes=[2.0, 4.0, 8.0])
            s2 = nw.gen_collider(rng, rng.choice(nw.KINDS), st, spread=3.0, sizes=[0.125, 0.25, 0.5])
            c = nw.center_of(s1)
            if s1["kind"] == "cone":
                c = c + 0.25 * s1["height"] * np.array(s1["pose"], float)[:3, 2]
            off = np.array([rng.choice([0.0, 0.0, 0.125, -0.125]) for _ in range(3)])
            s2 = nw.translate_spec(s2, c + off - nw.center_of(s2))
            meta = dict(stream="nested", kinds=[s1["kind"], s2["kind"]], L=nw.scene_scale([s1, s2]))
        else:
            s1, s2, meta = nb.construct_gap(rng, rng.choice(nw.KINDS), rng.choice(nw.KINDS), 0.0,
                                            stream=rng.choice(["lattice", "moderate"]),
                                            abs_gap=rng.choice([0.0, 1e-9, -1e-9, 1e-6, -1e-6]))
        cases.append(dict(c1=s1, c2=s2, meta=meta))
    for c in cases:
        c["ops"] = ops_for(c["c1"], c["c2"])
    return cases


def cert_for(case, jolt):
    """(class, coq expression) of the certificate to try for this case, or (None, None)"""
    s1, s2, meta = case["c1"], case["c2"], case["meta"]
    L = meta.get("L") or nw.scene_scale([s1, s2])
    delta = nb.delta_of(L)
    sigma = nb.F(nb.SIGMA_K * L)
    st = meta.get("stream")
    if st == "overlap" and meta.get("p") is not None:
        e = nb.overlap_expr(s1, s2, meta["p"], delta, sigma)
        if e:
            return "overlap", e
    if st == "gap" and meta.get("dir") is not None and meta.get("kgap", 0) > 1:
        return "gap", nb.gap_expr(s1, s2, meta["dir"], delta)
    # general pair: witnesses from the (untrusted) distance query or from candidate points
    if jolt is not None and "exc" not in jolt and jolt.get("a") is not None and np.isfinite(jolt["d"]) \
            and jolt["d"] > 1.05 * float(delta):
        n = (np.array(jolt["b"]) - np.array(jolt["a"])).tolist()
        if any(x != 0 for x in n):
            return "gap", nb.gap_expr(s1, s2, n, delta)
    if meta.get("dir") is not None and meta.get("gap", 0) and meta["gap"] > 1.05 * float(delta):
        return "gap", nb.gap_expr(s1, s2, meta["dir"], delta)
    p, dep = nb.best_common_point(s1, s2, jolt if jolt is not None and "exc" not in jolt else None)
    if p is not None and dep >= 1.02 * float(delta) + 2 * float(sigma):
        e = nb.overlap_expr(s1, s2, [float(x) for x in p], delta, sigma)
        if e:
            return "overlap", e
    return None, None


SEQ_FNS = dict(b_jolt="gjk_intersection_jolt", b_libccd="gjk_intersection_libccd", b_mpr="mpr_intersection",
               b_nesterov="gjk_nesterov_accelerated_intersection",
               b_nesterov_prim="gjk_nesterov_accelerated_primitives_intersection", jolt_full="gjk_distance_jolt")


def history_check(R, cases, klass, tier):
    """Histories: all boolean tests (twice) and the distance query on ONE pair of collider objects, in sequence.  Every
    answer is judged against the certified class of the pair, and the numeric state of both colliders is compared before
    and after every query: a query that changes its colliders makes every later answer an answer about another pair."""
    idxs = [i for i in sorted(klass) if prim_ok(cases[i]["c1"]) and prim_ok(cases[i]["c2"])]
    rest = [i for i in sorted(klass) if i not in set(idxs)]
    idxs = idxs[: (60 if tier == "quick" else 500)] + rest[:: max(1, len(rest) // (60 if tier == "quick" else 500))]
    seq_cases = []
    for i in idxs:
        c = cases[i]
        prim = prim_ok(c["c1"]) and prim_ok(c["c2"])
        order = (["b_nesterov_prim"] if prim else []) + ["b_nesterov", "b_jolt", "b_libccd", "b_mpr"]
        ops = [dict(fn=f) for f in order] + [dict(fn="jolt_full", kw=dict(max_distance_squared=1e300))] + [dict(fn=f) for f in order]
        seq_cases.append(dict(c1=c["c1"], c2=c["c2"], ops=ops, shared=True, meta=c["meta"]))
    res = nb.run_cases(PID, seq_cases, tag="history")
    stats = dict(histories=len(seq_cases), queries=0, wrong_answers=0, state_changes=0)
    for i, c, rr in zip(idxs, seq_cases, res):
        cls = klass[i]
        L = c["meta"]["L"]
        delta = float(nb.delta_of(L))
        for k, r in enumerate(rr):
            stats["queries"] += 1
            site = SEQ_FNS.get(r["fn"], r["fn"])
            hist = [o["fn"] for o in c["ops"][:k + 1]]
            case = dict(c1=c["c1"], c2=c["c2"], meta=c["meta"], history=hist, result={kk: v for kk, v in r.items() if kk != "tb"}, cls=cls)
            if r.get("state_changed"):
                stats["state_changes"] += 1
                R.failure(f"{site} changed the state of its colliders ({', '.join(r['state_changed'][:4])}): every later query on these "
                          f"objects is answered for a different pair (query {k + 1} of the history {hist})", case, site=site)
                break
            if "exc" in r:
                ans = "EXC:" + r["exc"]
            elif r["fn"] == "jolt_full":
                ans = "d=0" if r["d"] <= 1e-5 * L else ("d>=delta" if r["d"] >= delta - 1e-5 * L else "0<d<delta")
            else:
                ans = str(r["ans"])
            expect = ("d=0" if cls == "overlap" else "d>=delta") if r["fn"] == "jolt_full" else ("True" if cls == "overlap" else "False")
            if ans != expect:
                stats["wrong_answers"] += 1
                R.failure(f"{site} answered {ans} for a pair certified as {cls} when called as query {k + 1} of the history {hist} on the "
                          f"same collider objects (expected {expect})", case, site=site)
                break
    R.cov["history_check"] = stats


def loop_correspondence(R, cases, tier):
    """Model/JoltLoop.v (binary64, inside coqc) replays the support points gjk_intersection_jolt obtained,
    iteration by iteration: search directions, iteration count and the boolean answer must agree
    (harness/jolt_corr.py, harness/impl/jolttrace.py)."""
    n = 160 if tier == "quick" else 1200
    step = max(1, len(cases) // n)
    tc = [dict(c1=c["c1"], c2=c["c2"], fns=["intersection"], kw={}, kw_i={}, meta=c["meta"]) for c in cases[::step]]
    try:
        nwk = min(6, max(1, len(tc) // 12))
        chunks = [tc[i::nwk] for i in range(nwk)]
        res = cm.run_impl_parallel(PID, "jolttrace", [dict(cases=ch) for ch in chunks], timeout=1500, tag="trace")
        out = [None] * len(tc)
        for w, (rr, ch) in enumerate(zip(res, chunks)):
            if rr["status"] != "ok":
                continue
            for i, x in zip(range(w, len(tc), nwk), rr["result"]["results"]):
                out[i] = x
        keep = [(c, o) for c, o in zip(tc, out) if o is not None]
        lost = len(tc) - len(keep)
        tc, out = [k[0] for k in keep], [k[1] for k in keep]
        try:
            stats, mism = jc.compare(PID, tc, out, R.rng, lambda c: c["meta"]["L"])
        except RuntimeError as e:
            if "inconsistent assumptions" not in str(e):
                raise
            # another build changed a dependency between our build and this evaluation: rebuild once, retry
            cm.coq_build(["theories/Model/JoltLoopRun.vo"])
            stats, mism = jc.compare(PID, tc, out, R.rng, lambda c: c["meta"]["L"])
    except RuntimeError as e:
        R.corr_broken.append(f"Jolt loop model could not be evaluated: {str(e)[:300]}")
        return
    stats["worker_lost"] = lost
    R.cov["loop_correspondence"] = stats
    R.cov["traces_validated_against_impl"] = stats.get("matched", stats.get("compared", 0) - stats.get("mismatch", 0))
    if mism:
        sub = sorted({m[0] for m in mism})
        st2, mism2 = jc.compare(PID, [tc[i] for i in sub], [out[i] for i in sub], R.rng,
                                lambda c: c["meta"]["L"], tag="joltcorr2", npert=24)
        R.cov["loop_correspondence_second_look"] = st2
        R.cov["loop_first_look_differences"] = [f"{fn}: {why[:400]}" for (_, fn, why) in mism[:5]]
        # third look for differences in the EXIT DECISION only (same rule as in c01.loop_correspondence: the relative-progress
        # test compares at one ulp, an ill-conditioned final simplex amplifies one differently rounded dot product to tens of
        # ulps): excused only if the model's own exit flips under 1e-14 / 1e-13 perturbations of the trace; all search
        # directions must be equal and no answer may differ.  The boolean answers themselves are judged by the certificates.
        from .c01 import _exit_off_by_one
        exit_only = [k for k, (j, fn, why) in enumerate(mism2) if why.startswith("model stops after")
                     and "search direction" not in why and "answer" not in why and _exit_off_by_one(why)]
        if exit_only:
            sub3 = [sub[mism2[k][0]] for k in exit_only]
            st3, mism3 = jc.compare(PID, [tc[i] for i in sub3], [out[i] for i in sub3], R.rng,
                                    lambda c: c["meta"]["L"], tag="joltcorr3", npert=24, mags=(1e-14, 1e-13))
            R.cov["loop_correspondence_third_look_exit_decisions"] = st3
            still = {sub3[j] for (j, fn, why) in mism3}
            mism2 = [m for k, m in enumerate(mism2) if k not in exit_only or sub[m[0]] in still]
        for (j, fn, why) in mism2[:5]:
            c = tc[sub[j]]
            R.corr_broken.append(f"Model/JoltLoop.v vs gjk_intersection_jolt ({fn}): {why[:600]} on c1={json.dumps(c['c1'])} c2={json.dumps(c['c2'])}")


def libccd_mpr_correspondence(R, cases, tier):
    """Model/GjkLibccd.v (binary64, inside coqc) replays the support points gjk_intersection_libccd and
    mpr_intersection obtained, evaluation by evaluation: search directions, number of evaluations and the
    boolean answer must agree (harness/narrow_corr.py, harness/impl/narrowbtrace.py)."""
    n = 120 if tier == "quick" else 1500
    step = max(1, len(cases) // n)
    tc = [dict(c1=c["c1"], c2=c["c2"], fns=["libccd", "mpr"], kw={}, meta=c["meta"]) for c in cases[::step]]
    try:
        nwk = min(6, max(1, len(tc) // 12))
        chunks = [tc[i::nwk] for i in range(nwk)]
        res = cm.run_impl_parallel(PID, "narrowbtrace", [dict(cases=ch) for ch in chunks], timeout=1500, tag="trace2")
        out = [None] * len(tc)
        for w, (rr, ch) in enumerate(zip(res, chunks)):
            if rr["status"] != "ok":
                continue
            for i, x in zip(range(w, len(tc), nwk), rr["result"]["results"]):
                out[i] = x
        keep = [(c, o) for c, o in zip(tc, out) if o is not None]
        lost = len(tc) - len(keep)
        tc, out = [k[0] for k in keep], [k[1] for k in keep]
        try:
            stats, mism = ncorr.compare(PID, tc, out, R.rng)
        except RuntimeError as e:
            if "inconsistent assumptions" not in str(e):
                raise
            cm.coq_build(["theories/Model/GjkLibccdRun.vo"])
            stats, mism = ncorr.compare(PID, tc, out, R.rng)
    except RuntimeError as e:
        R.corr_broken.append(f"libccd / MPR model could not be evaluated: {str(e)[:300]}")
        return
    stats["worker_lost"] = lost
    R.cov["libccd_mpr_correspondence"] = stats
    R.cov["traces_validated_against_impl"] = R.cov.get("traces_validated_against_impl", 0) + stats.get("matched", 0)
    if mism:
        sub = sorted({m[0] for m in mism})
        st2, mism2 = ncorr.compare(PID, [tc[i] for i in sub], [out[i] for i in sub], R.rng, tag="libccdcorr2", npert=24)
        R.cov["libccd_mpr_correspondence_second_look"] = st2
        R.cov["libccd_mpr_first_look_differences"] = [f"{fn}: {why[:400]}" for (_, fn, why) in mism[:5]]
        for (j, fn, why) in mism2[:5]:
            c = tc[sub[j]]
            name = "gjk_intersection_libccd" if fn == "libccd" else "mpr_intersection"
            R.corr_broken.append(f"Model/GjkLibccd.v vs {name}: {why[:600]} on c1={json.dumps(c['c1'])} c2={json.dumps(c['c2'])}")


def run(tier, seed, replay=None):
    R = cm.Run(PID, "translation_validation", tier, seed)
    _t = [time.time()]
    R.cov["phase_s"] = {}

    def phase(name):
        R.cov["phase_s"][name] = round(time.time() - _t[0], 1)
        _t[0] = time.time()
    R.cov["rule"] = (
        "case = ordered pair of colliders (10 kinds, optional Margin). Streams: constructed overlap (a common point p at "
        "certifiable depth k*delta in both, k in {1.5,4,100}) and constructed gap (plane gap k*delta) over all 100 ordered "
        "kind pairs and all 25 unwrapped primitive pairs; general streams random/lattice/moderate/wide of narrow.gen_pair; "
        "identical objects; nested objects; touching pairs (gap in {0,+-1e-9,+-1e-6}, never judged). delta = 1e-3*L. "
        "distinct by canonical hash; non-trivial = a Coq certificate (overlap_cert or gap_cert) evaluated to true, so the "
        "expected boolean is theorem-backed")
    R.assumptions += [
        "the expected answer per input is a Coq theorem (overlap_cert_sound / gap_cert_sound) applied to an untrusted witness; universality over inputs comes from generation",
        "a collider's point set is the exact shape expression of the floats handed to its constructor; harness/narrow.py parts() is trusted for that translation",
        "pairs for which no certificate is found (band around grazing contact, flat colliders without margin in the overlap class, witness search failed) are not judged; their number is reported",
    ]
    R.check_proofs(PROOF_FILES, build_targets=["theories/Props/C02.vo", "theories/Model/JoltLoopRun.vo", "theories/Model/GjkLibccdRun.vo",
                                              "theories/Model/NesterovLoopRun.vo"])
    cases = []
    corpus = cm.VERIF / "corpus" / PID
    if replay:
        c = nb.load_case(replay)
        c = {k: v for k, v in c.items() if k in ("c1", "c2", "meta", "ops")}
        c.setdefault("meta", {})
        c["ops"] = ops_for(c["c1"], c["c2"])
        cases.append(c)
    else:
        if corpus.exists():
            for f in sorted(corpus.glob("*.json")):
                c = nb.load_case(f)
                c["ops"] = ops_for(c["c1"], c["c2"])
                cases.append(c)
        cases += gen_cases(R.rng, tier)
    for c in cases:
        c["meta"].setdefault("L", nw.scene_scale([c["c1"], c["c2"]]))
    phase("proofs+generation")
    R.cov["jit_warmup"] = nb.warm(PID, "narrow")
    phase("jit_warmup")
    results = nb.run_cases(PID, cases, script="narrow", tag="impl")
    R.cov["evaluations"] = len(cases)
    phase("implementation")
    # ---- certificates
    exprs, idx = [], []
    for i, (c, rr) in enumerate(zip(cases, results)):
        cls, e = cert_for(c, rr[0])
        if cls:
            exprs.append(e)
            idx.append((i, cls))
    try:
        verdicts = nb.coq_eval_retry(PID, nb.COQ_HEADER, exprs, "cert", 20, ["theories/Props/C02.vo"])
    except RuntimeError as e:
        R.proof_broken.append(f"certificate evaluation failed: {str(e)[:400]}")
        verdicts = []
    phase("certificates_in_coq")
    klass = {}
    uncertified = 0
    for (i, cls), v in zip(idx, verdicts):
        if v.strip() == "true":
            klass[i] = cls
        else:
            uncertified += 1
    # ---- judge
    hist = {fn: {} for fn in BOOL_FNS + ["gjk_jolt"]}
    stream_hist, class_hist, pair_hist = {}, {}, {}
    distinct = set()
    wrong = 0
    for i, (c, rr) in enumerate(zip(cases, results)):
        cls = klass.get(i, "unjudged")
        st = c["meta"].get("stream", "corpus")
        stream_hist[st] = stream_hist.get(st, 0) + 1
        ck = cls if cls == "unjudged" else f"{cls}:{c['meta'].get('kdepth', c['meta'].get('kgap', 'general'))}"
        class_hist[ck] = class_hist.get(ck, 0) + 1
        L = c["meta"]["L"]
        delta = float(nb.delta_of(L))
        if cls != "unjudged":
            distinct.add(cm.canon_hash([c["c1"], c["c2"]]))
            kk = "-".join(c["meta"].get("kinds", ["?", "?"]))
            pair_hist[kk] = pair_hist.get(kk, 0) + 1
        for r in rr:
            fn = r["fn"]
            if "exc" in r:
                ans = "EXC:" + r["exc"]
            elif fn == "gjk_jolt":
                ans = "d=0" if r["d"] <= 1e-5 * L else ("d>=delta" if r["d"] >= delta - 1e-5 * L else "0<d<delta")
            else:
                ans = str(r["ans"])
            h = hist[fn]
            h[f"{cls}/{ans}"] = h.get(f"{cls}/{ans}", 0) + 1
            if cls == "unjudged":
                continue
            expect = "True" if cls == "overlap" else "False"
            if fn == "gjk_jolt":
                expect = "d=0" if cls == "overlap" else "d>=delta"
            if ans != expect:
                wrong += 1
                site = PUBLIC.get(fn, "gjk_distance_jolt")
                R.failure(f"{site} answered {ans} for a pair certified as {cls} (delta={delta:.6g}, L={L:.6g}; "
                          f"expected {expect})", dict(c1=c["c1"], c2=c["c2"], meta=c["meta"], result=r, cls=cls), site=site)
    R.cov["programs"] = len(klass)
    R.cov["disagreements_checked"] = wrong
    R.cov["distinct_nontrivial"] = len(distinct)
    R.cov["certificates_tried"] = len(idx)
    R.cov["certificates_rejected_by_coq"] = uncertified
    R.cov["class_histogram"] = class_hist
    R.cov["stream_histogram"] = stream_hist
    R.cov["answers_per_function"] = hist
    R.cov["kind_pairs_judged"] = len(pair_hist)
    R.cov["kind_pair_histogram"] = pair_hist
    for c, rr in list(zip(cases, results))[:3]:
        R.sample(dict(c1=c["c1"], c2=c["c2"], meta=c["meta"],
                      result={r["fn"]: (r.get("ans") if "ans" in r else r.get("d", r.get("exc"))) for r in rr}))
    phase("judging")
    if not replay:
        history_check(R, cases, klass, tier)
        phase("history_check")
    loop_correspondence(R, cases, tier)
    phase("jolt_correspondence")
    libccd_mpr_correspondence(R, cases, tier)
    phase("libccd_mpr_correspondence")
    return R.finish()
