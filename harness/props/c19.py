"""C19 — Narrow-phase queries always terminate with finite results on valid input.

Level "other".  Theorem part (Props/C19.v): the capped loops (libccd, EPA, MPR discovery, MPR
penetration refinement, both Nesterov loops) terminate with at most f(caps) support evaluations for
EVERY sequence of data-dependent decisions; caps, cap comparison operators and evaluations per pass
are re-read from /repo's source by a fail-closed ast reader on every run (harness/narrow_caps.py ->
Gen/NarrowCaps.v) and f(declared caps) <= 1000 is re-proved.  Monitored part (this file), per
generated pair and per entry point: support-evaluation count <= 1000 (and <= the proven bound of the
capped loops), per-call wall-clock limit (a hang / timeout / crash is a failure), all returned
numbers finite except the documented MAX_FLOAT clip of gjk_distance_jolt, no exception except EPA's
polytope-capacity AssertionError on smooth shapes.
"""
import json
import time
import math

import numpy as np

from .. import common as cm
from .. import narrow as nw
from .. import narrow_bool as nb
from .. import narrow_caps as caps

PID = "C19"
PROOF_FILES = ["theories/Props/C19.v", "theories/Proofs/GjkCaps.v", "theories/Proofs/GjkTermination.v", "theories/Model/GjkCaps.v",
               "theories/Gen/NarrowCaps.v"]
LIMIT = 1000
MAX_FLOAT = 1.7976931348623157e308
SMOOTH = {"sphere", "ellipsoid", "capsule", "cylinder", "cone", "disk", "ellipse"}
CALL_TIMEOUT = 20


def load_known():
    """status=finding entries of property C19 in /verif/known_findings.json"""
    return {e["id"]: e for e in cm.load_known(PID)}


def prim_ok(spec):
    return spec["kind"] in nw.PRIMS and "margin" not in spec


def is_smooth(spec):
    return spec["kind"] in SMOOTH or "margin" in spec


def ops_for(s1, s2, same_object=False):
    so = dict(same_object=True) if same_object else {}
    ops = [dict(fn="gjk_jolt"), dict(fn="jolt_full", kw=dict(max_distance_squared=1e300)), dict(fn="original_full"),
           dict(fn="b_jolt"), dict(fn="b_libccd"), dict(fn="b_mpr"),
           dict(fn="nesterov_full", kw=dict(use_nesterov_acceleration=False)),
           dict(fn="nesterov_full", kw=dict(use_nesterov_acceleration=True)),
           dict(fn="mpr_pen_full"), dict(fn="epa_full")]
    if prim_ok(s1) and (same_object or prim_ok(s2)):
        ops += [dict(fn="nesterov_prim_full", kw=dict(use_nesterov_acceleration=False)),
                dict(fn="nesterov_prim_full", kw=dict(use_nesterov_acceleration=True))]
    return [dict(o, timeout=CALL_TIMEOUT, **so) for o in ops]


# ----------------------------------------------------------------------------- generators
aspect_collider = nb.aspect_collider
flat_collider = nb.flat_collider


def gen_cases(rng, tier):
    cases = []
    n = dict(quick=dict(general=60, aspect=70, ident=30, nested=20, touch=60, flat=50, lattice=40, bigmesh=50, latbox=160, sympoly=60),
             thorough=dict(general=900, aspect=900, ident=300, nested=250, touch=700, flat=600, lattice=500, bigmesh=600, latbox=1500, sympoly=700))[tier]
    for _ in range(n["general"]):
        s1, s2, meta = nw.gen_pair(rng, tier)
        cases.append(dict(c1=s1, c2=s2, meta=meta))
    for i in range(n["aspect"]):
        k1, k2 = rng.choice(nw.KINDS), rng.choice(nw.KINDS)
        s1 = aspect_collider(rng, k1)
        s2 = aspect_collider(rng, k2) if rng.random() < 0.6 else nw.gen_collider(rng, k2, "moderate", spread=3.0)
        mode = rng.choice(["asis", "touch", "overlap"])
        if mode == "touch":
            u = nw.rand_unit(rng, rng.choice(["lattice", "random"]))
            g = rng.choice([0.0, 1e-9, -1e-9, 1e-6, 1e-3, 0.1])
            s2 = nw.translate_spec(s2, nw.support_point(s1, u) + g * u - nw.support_point(s2, -u))
        elif mode == "overlap":
            s2 = nw.translate_spec(s2, nw.center_of(s1) - nw.center_of(s2))
        cases.append(dict(c1=s1, c2=s2, meta=dict(stream="aspect", sub=mode, kinds=[k1, k2])))
    for i in range(n["ident"]):
        k = rng.choice(nw.KINDS)
        s1 = rng.choice([lambda: nw.gen_collider(rng, k, rng.choice(["lattice", "random", "moderate"]), spread=3.0),
                         lambda: aspect_collider(rng, k)])()
        same = rng.random() < 0.5
        cases.append(dict(c1=s1, c2=json.loads(json.dumps(s1)), same_object=same,
                          meta=dict(stream="identical", same_object=same, kinds=[k, k])))
    for i in range(n["nested"]):
        st = rng.choice(["lattice", "moderate"])
        s1 = nw.gen_collider(rng, rng.choice(nw.KINDS), st, spread=3.0, sizes=[2.0, 4.0, 8.0])
        s2 = nw.gen_collider(rng, rng.choice(nw.KINDS), st, spread=3.0, sizes=[0.125, 0.25, 0.5])
        off = np.array([rng.choice([0.0, 0.0, 0.125, -0.125]) for _ in range(3)])
        s2 = nw.translate_spec(s2, nw.center_of(s1) + off - nw.center_of(s2))
        cases.append(dict(c1=s1, c2=s2, meta=dict(stream="nested", kinds=[s1["kind"], s2["kind"]])))
    for i in range(n["touch"]):
        k1, k2 = rng.choice(nw.KINDS), rng.choice(nw.KINDS)
        s1, s2, meta = nb.construct_gap(rng, k1, k2, 0.0, stream=rng.choice(["lattice", "lattice", "moderate", "random"]),
                                        abs_gap=rng.choice([0.0, 0.0, 1e-12, -1e-12, 1e-9, -1e-9, 1e-6, -1e-6, 1e-4, -1e-4]))
        cases.append(dict(c1=s1, c2=s2, meta=meta))
    for i in range(n["flat"]):
        s1 = flat_collider(rng)
        s2 = flat_collider(rng) if rng.random() < 0.5 else nw.gen_collider(rng, rng.choice(nw.KINDS), "lattice", spread=3.0)
        mode = rng.choice(["asis", "touch", "coincide", "same"])
        if mode == "touch":
            u = nw.rand_unit(rng, "lattice")
            s2 = nw.translate_spec(s2, nw.support_point(s1, u) - nw.support_point(s2, -u))
        elif mode == "coincide":
            s2 = nw.translate_spec(s2, nw.center_of(s1) - nw.center_of(s2))
        elif mode == "same":
            s2 = json.loads(json.dumps(s1))
        if rng.random() < 0.5:
            s1, s2 = s2, s1
        cases.append(dict(c1=s1, c2=s2, meta=dict(stream="flat", sub=mode, kinds=[s1["kind"], s2["kind"]])))
    for i in range(n["lattice"]):
        s1, s2, meta = nw.gen_pair(rng, tier, stream="lattice", margin_prob=0.1)
        cases.append(dict(c1=s1, c2=s2, meta=meta))
    for i in range(n["bigmesh"]):
        r = nb.bigmesh_pair(rng)
        if r is not None:
            cases.append(dict(c1=r[0], c2=r[1], meta=r[2]))
    for i in range(n["latbox"]):
        a, b, meta = nb.lattice_box_pair(rng, overlap=rng.choice([True, True, True, None]))
        cases.append(dict(c1=a, c2=b, meta=meta))
    for i in range(n["sympoly"]):
        a, b, meta = nb.symmetric_polytope_pair(rng)
        cases.append(dict(c1=a, c2=b, meta=meta))
    # a quarter of the pairs: one or both colliders are brought to their placement by update_pose
    # (a moved collider must not raise or hang where a freshly built one does not; seeded C19-5)
    for c in cases:
        if not c.get("same_object") and rng.random() < 0.25:
            for key in rng.choice([("c1",), ("c2",), ("c1", "c2")]):
                c[key] = dict(c[key], via_update=True)
            c["meta"] = dict(c["meta"], via_update=True)
    for c in cases:
        c["ops"] = ops_for(c["c1"], c["c2"], c.get("same_object", False))
    # small BVHs for self-collision detection
    scenes = []
    for i in range(12 if tier == "quick" else 150):
        m = rng.choice([2, 3, 4, 6])
        st = rng.choice(["lattice", "lattice", "moderate"])
        cols = [nw.gen_collider(rng, rng.choice(nw.KINDS), st, spread=2.0, margin_prob=0.1) for _ in range(m)]
        if rng.random() < 0.3:
            cols.append(json.loads(json.dumps(cols[0])))
        wl = {}
        if rng.random() < 0.5:
            wl = {"0": ["c1"], "1": ["c0"]}
        scenes.append(dict(scene=dict(colliders=cols, whitelists=wl, timeout=60), meta=dict(stream="self_collision", n=len(cols))))
    return cases, scenes


# ----------------------------------------------------------------------------- judging
def finite_ok(r):
    """list of complaints about non-finite outputs of one op result"""
    bad = []
    fn = r["fn"]
    if r.get("nonfinite"):
        bad.append(f"non-finite outputs: {r['nonfinite']}")
    if fn == "gjk_jolt":
        d = r.get("d")
        if d is not None and d >= MAX_FLOAT:
            if r.get("a") is not None:
                bad.append("MAX_FLOAT distance with closest points")
        else:
            for k in ("d",):
                if d is None or not math.isfinite(d):
                    bad.append(f"d = {d!r}")
            for k in ("a", "b"):
                if r.get(k) is None or not all(math.isfinite(x) for x in r[k]):
                    bad.append(f"{k} = {r.get(k)!r}")
    return bad


def targeted_search(R, tier):
    """The theorem about the capped loops (or the caps reader) no longer checks: look harder for a concrete pair on
    which an entry point exceeds 1000 support evaluations, hangs or raises, among the streams that drive the capped
    loops to their caps (touching, identical, flat, lattice, big meshes, needles)."""
    rng = R.rng
    cases = []
    n = 700 if tier == "quick" else 3000
    for i in range(n):
        kind = rng.choice(["touch", "touch", "flat", "ident", "bigmesh", "aspect", "lattice"])
        if kind == "touch":
            s1, s2, meta = nb.construct_gap(rng, rng.choice(nw.KINDS), rng.choice(nw.KINDS), 0.0,
                                            stream=rng.choice(["lattice", "moderate", "random"]),
                                            abs_gap=rng.choice([0.0, 1e-12, -1e-12, 1e-9, -1e-9, 1e-6, -1e-6]))
        elif kind == "flat":
            s1, s2, meta = flat_collider(rng), flat_collider(rng), dict(stream="flat")
            if rng.random() < 0.5:
                s2 = nw.translate_spec(s2, nw.center_of(s1) - nw.center_of(s2))
        elif kind == "ident":
            s1 = nw.gen_collider(rng, rng.choice(nw.KINDS), rng.choice(["lattice", "random"]), spread=3.0)
            s2, meta = json.loads(json.dumps(s1)), dict(stream="identical")
        elif kind == "bigmesh":
            r = nb.bigmesh_pair(rng)
            if r is None:
                continue
            s1, s2, meta = r
        elif kind == "aspect":
            s1, s2, meta = aspect_collider(rng, rng.choice(nw.KINDS)), aspect_collider(rng, rng.choice(nw.KINDS)), dict(stream="aspect")
            u = nw.rand_unit(rng, "random")
            s2 = nw.translate_spec(s2, nw.support_point(s1, u) + rng.choice([0.0, 1e-6, 0.1]) * u - nw.support_point(s2, -u))
        else:
            s1, s2, meta = nw.gen_pair(rng, tier, stream="lattice")
        ops = [o for o in ops_for(s1, s2) if o["fn"] in ("b_libccd", "b_mpr", "mpr_pen_full", "epa_full", "nesterov_full", "nesterov_prim_full", "b_jolt")]
        cases.append(dict(c1=s1, c2=s2, meta=dict(meta, search=True), ops=ops))
    results = nb.run_cases(PID, cases, tag="search")
    found = 0
    for c, rr in zip(cases, results):
        for r in rr:
            case = dict(c1=c["c1"], c2=c["c2"], meta=c["meta"], result={k: v for k, v in r.items() if k != "tb"})
            if r.get("support_calls", 0) > LIMIT:
                found += 1
                R.failure(f"{r['fn']}: {r['support_calls']} support evaluations (> {LIMIT}) (found by the targeted search)", case, site=r["fn"])
            elif r.get("exc") in ("TIMEOUT",) or str(r.get("exc", "")).startswith("PROCESS-"):
                found += 1
                R.failure(f"{r['fn']}: {r['exc']} (found by the targeted search)", case, site=r["fn"])
            elif r["fn"] in ("nesterov_full", "nesterov_prim_full") and "exc" not in r and 2 * r.get("iterations", 0) > LIMIT:
                found += 1
                R.failure(f"{r['fn']}: {r['iterations']} iterations = {2 * r['iterations']} support evaluations (> {LIMIT}) "
                          "(found by the targeted search)", case, site=r["fn"])
    R.cov["targeted_search_cases"] = len(cases)
    R.cov["targeted_search_failures"] = found


def run(tier, seed, replay=None):
    R = cm.Run(PID, "other", tier, seed)
    _t = [time.time()]
    R.cov["phase_s"] = {}

    def phase(name):
        R.cov["phase_s"][name] = round(time.time() - _t[0], 1)
        _t[0] = time.time()
    R.cov["explanation"] = (
        "Theorem (Coq, all inputs, data-dependent decisions as arbitrary oracles): the capped loops of gjk_intersection_libccd, "
        "epa, mpr portal discovery, mpr_penetration's refinement and both Nesterov loops terminate with at most f(caps) support "
        "evaluations; caps / cap operators / evaluations per pass are re-extracted from the source by a fail-closed ast reader on "
        "this run and f(declared caps) <= 1000 re-proved. Not a theorem: liveness of the `while True` loops of Jolt GJK, original "
        "GJK and mpr._refine_portal (C19_uncapped_loops_unbounded shows the control structure bounds nothing) — monitored here per "
        "generated pair: support evaluations <= 1000, per-call alarm, finiteness of every returned number (except the documented "
        "MAX_FLOAT clip), exception policy.")
    R.cov["rule"] = (
        "case = ordered collider pair x 10-12 entry points (gjk_distance_jolt clipped and unclipped, gjk_distance_original, the "
        "boolean tests jolt/libccd/mpr, gjk_nesterov_accelerated with and without acceleration, primitives variant on unwrapped "
        "primitive pairs, mpr_penetration, epa after gjk) plus small BVH scenes for self_collision.detect/detect_any. Streams: "
        "general D (random/lattice/moderate/wide/plane-gap), aspect ratios to 1e4 (needles, plates; as-is, touching, overlapping), "
        "identical (equal copy / the same Python object twice), nested, touching at gaps in {0,+-1e-12,+-1e-9,+-1e-6,+-1e-4}, "
        "zero-volume (vertex, segment, triangle, planar hull, disk, ellipse), exact lattice placements, big meshes (radius 10..100) "
        "with a small collider in front of a face (search direction = face normal: mesh hill climbing, F-M1), axis-aligned boxes / cube "
        "meshes / cube hulls with sizes and offsets on a 0.25 grid (collinear and coplanar Minkowski-difference vertices), overlapping boxes / "
        "cubes in symmetric relative poses (concentric or 0.25-grid offsets, rotated by 30..180 degrees about axes and diagonals: many faces "
        "of EPA's polytope visible at once, in every order of the face array). distinct by canonical "
        "hash; non-trivial = at least one entry point needed more than 2 loop passes (support evaluations > 4)")
    R.assumptions += [
        "support evaluations are counted by wrapping collider.support_function; the specialised Nesterov supports bypass it, there the returned iteration count is bounded instead (<= max_interations)",
        "the simplex / faces arrays returned by gjk_distance_jolt and epa are work arrays with stale rows (finding F2, C07) and are not scanned for finiteness",
        "liveness of the uncapped loops is monitored on generated inputs only (per-call alarm of 20 s); it is not proved",
    ]
    # ---- caps from the source, then the proofs
    capd = None
    try:
        changed, capd = caps.generate(cm.REPO, cm.COQ / "theories" / "Gen" / "NarrowCaps.v")
        R.cov["caps_from_source"] = capd
    except caps.CapsError as e:
        R.proof_broken.append(f"caps reader (fail-closed): {e}")
    except Exception as e:  # noqa
        R.proof_broken.append(f"caps reader crashed: {type(e).__name__}: {e}")
    R.check_proofs(PROOF_FILES)
    bounds = {}
    if capd:
        bounds = dict(
            b_libccd=2 * capd["libccd_pairs_per_pass"] * capd["libccd_max_iterations"],
            nesterov_full=2 * (capd["nesterov_max_interations"] + 1),
            epa_only=capd["epa_evals_per_pass"] * capd["epa_max_iter"])
    known = load_known()
    cases, scenes = [], []
    corpus = cm.VERIF / "corpus" / PID
    if replay:
        c = nb.load_case(replay)
        if "scene" in c:
            scenes.append(dict(scene=c["scene"], meta=c.get("meta", {})))
        else:
            c = {k: v for k, v in c.items() if k in ("c1", "c2", "meta", "same_object")}
            c.setdefault("meta", {})
            c["ops"] = ops_for(c["c1"], c["c2"], c.get("same_object", False))
            cases.append(c)
    else:
        if corpus.exists():
            for f in sorted(corpus.glob("*.json")):
                c = nb.load_case(f)
                if "scene" in c:
                    scenes.append(dict(scene=c["scene"], meta=c.get("meta", {})))
                    continue
                c = {k: v for k, v in c.items() if k in ("c1", "c2", "meta", "same_object")}
                c.setdefault("meta", {})
                c["ops"] = ops_for(c["c1"], c["c2"], c.get("same_object", False))
                cases.append(c)
        g1, g2 = gen_cases(R.rng, tier)
        cases += g1
        scenes += g2
    for c in cases:
        # corpus / replay inputs of finding F2-C19: the rows GJK leaves unwritten are poisoned (see harness/impl/narrowb.py)
        if c["meta"].get("poison_heap") is not None:
            c["ops"] = [dict(o, poison=c["meta"]["poison_heap"]) if o["fn"] == "epa_full" else o for o in c["ops"]]
    phase("caps+proofs+generation")
    R.cov["jit_warmup"] = nb.warm(PID)
    phase("jit_warmup")
    results = nb.run_cases(PID, cases + scenes)
    R.cov["evaluations"] = len(cases) + len(scenes)
    phase("implementation")
    hist = {}
    maxcalls = {}
    distinct = set()
    known_counts = {}
    calls_total = 0

    def bump(k):
        hist[k] = hist.get(k, 0) + 1

    def report(what, case, site, kid=None):
        if kid is not None and kid in known:
            known_counts[kid] = known_counts.get(kid, 0) + 1
            R.known_finding(kid, known[kid]["what"])
        else:
            R.failure(what + (f" [matches finding {kid}, which is not registered]" if kid else ""), case, site=site)

    for c, rr in zip(cases + scenes, results):
        st = c["meta"].get("stream", "corpus")
        bump("stream:" + st)
        if "scene" in c:
            r = rr[0]
            calls_total += 1
            npairs = len(c["scene"]["colliders"]) ** 2
            if "exc" in r:
                bump(f"self_collision:EXC:{r['exc']}")
                report(f"self_collision.detect raised {r['exc']}: {r.get('exc_msg', '')}", dict(scene=c["scene"], meta=c["meta"], result=r),
                       "self_collision.detect")
            elif r["support_calls"] > LIMIT * npairs:
                R.failure(f"self_collision: {r['support_calls']} support evaluations for {npairs} candidate pairs",
                          dict(scene=c["scene"], meta=c["meta"]), site="self_collision.detect")
            else:
                bump("self_collision:ok")
                if r["support_calls"] > 4:
                    distinct.add(cm.canon_hash(c["scene"]))
            continue
        s1, s2 = c["c1"], c["c2"]
        L = nw.scene_scale([s1, s2])
        byfn = {}
        for op, r in zip(c["ops"], rr):
            key = r["fn"] + ("+acc" if op.get("kw", {}).get("use_nesterov_acceleration") else "")
            byfn[key] = r
        nontrivial = False
        for key, r in byfn.items():
            calls_total += 1
            site = key
            case = dict(c1=s1, c2=s2, meta=c["meta"], same_object=c.get("same_object", False), result={k: v for k, v in r.items() if k != "tb"})
            n = r.get("support_calls", 0)
            maxcalls[key] = max(maxcalls.get(key, 0), n)
            if n > 4:
                nontrivial = True
            if "exc" in r:
                bump(f"{key}:EXC:{r['exc']}")
                if r["exc"] == "AssertionError" and r["fn"] == "epa_full" and (is_smooth(s1) or is_smooth(s2)) \
                        and "n_faces < self.max_faces" in r.get("tb", ""):
                    # EPA's polytope-capacity assertion on smooth shapes: the one documented exception
                    bump("epa_full:capacity_assertion(allowed)")
                    continue
                kid = None
                if r["fn"] == "epa_full" and r.get("n_points") is not None and r["n_points"] < 4 and r.get("garbage_rows", 1) > 0:
                    kid = "F2-C19"
                elif r["fn"] == "epa_full" and r["exc"] == "AssertionError" and "n_faces < self.max_faces" in r.get("tb", ""):
                    kid = "F19-C19"         # the capacity assertion, but on a pair of polytopes
                report(f"{key} raised {r['exc']}: {r.get('exc_msg', '')}", case, site, kid)
                continue
            bump(f"{key}:ok")
            if n > LIMIT:
                R.failure(f"{key}: {n} support evaluations (> {LIMIT})", case, site=site)
            if r["fn"] == "b_libccd" and bounds and n > bounds["b_libccd"]:
                R.corr_broken.append(f"libccd made {n} support evaluations, the model's bound is {bounds['b_libccd']}")
                R.failure(f"{key}: {n} support evaluations exceed the proven bound {bounds['b_libccd']} of the capped loop", case, site=site)
            if r["fn"] == "nesterov_full" and bounds and n > bounds["nesterov_full"]:
                R.failure(f"{key}: {n} support evaluations exceed the proven bound {bounds['nesterov_full']}", case, site=site)
            if r["fn"] in ("nesterov_full", "nesterov_prim_full") and capd:
                cap = capd["nesterov_max_interations" if r["fn"] == "nesterov_full" else "nesterov_prim_max_interations"]
                if r["iterations"] > cap:
                    R.failure(f"{key}: {r['iterations']} iterations exceed max_interations = {cap}", case, site=site)
                if r["iterations"] >= cap:
                    bump(f"{key}:hit_iteration_cap")
                if 2 * (r["iterations"] + 1) > LIMIT:
                    R.failure(f"{key}: {r['iterations']} iterations = more than {LIMIT} support evaluations (specialised supports bypass the counter)",
                              case, site=site)
            if r["fn"] == "epa_full" and bounds and r.get("n_epa", 0) > bounds["epa_only"]:
                R.failure(f"epa: {r['n_epa']} support evaluations exceed the proven bound {bounds['epa_only']}", case, site=site)
            for b in finite_ok(r):
                kid = None
                if r["fn"] == "epa_full" and r.get("n_points") is not None and r["n_points"] < 4 and r.get("garbage_rows", 1) > 0:
                    kid = "F2-C19"
                report(f"{key}: {b}", case, site, kid)
        if nontrivial:
            distinct.add(cm.canon_hash([s1, s2, c.get("same_object", False)]))
    if R.proof_broken and not R.violations and not replay:
        targeted_search(R, tier)
    phase("judging")
    if not replay:
        try:
            cov = nb.statement_coverage(PID, cases, n=48 if tier == "quick" else 400, workers=8 if tier == "quick" else 16)
            # the same entry points INTERPRETED (NUMBA_DISABLE_JIT=1): the exception / finiteness policy holds there too
            n_int = 0
            for x in cov.pop("interpreted_exceptions", []):
                c = cases[x["case"]]
                op = c["ops"][x["op"]]
                key = x["fn"] + ("+acc" if op.get("kw", {}).get("use_nesterov_acceleration") else "")
                if x.get("exc") == "AssertionError" and x["fn"] == "epa_full" and (is_smooth(c["c1"]) or is_smooth(c["c2"])) \
                        and "n_faces < self.max_faces" in (x.get("tb") or ""):
                    continue
                if x.get("exc") == "TIMEOUT":
                    continue            # interpreted code is slow; liveness is judged on the compiled run
                kid = "F2-C19" if (x["fn"] == "epa_full" and x.get("n_points") is not None and x["n_points"] < 4
                                   and x.get("garbage_rows", 1) > 0) else None
                n_int += 1
                what = f"raised {x['exc']}: {x.get('exc_msg', '')}" if x.get("exc") else f"non-finite outputs: {x.get('nonfinite')}"
                report(f"{key} INTERPRETED (NUMBA_DISABLE_JIT=1) {what}",
                       dict(c1=c["c1"], c2=c["c2"], meta=c["meta"], same_object=c.get("same_object", False), jit=False, op=op),
                       key, kid)
            cov["interpreted_policy_failures"] = n_int
            R.cov["implementation_statement_coverage"] = cov
        except Exception as e:  # noqa
            R.notes.append(f"statement coverage run failed: {type(e).__name__}: {e}")
    phase("statement_coverage")
    if not replay:
        # a large INTERPRETED batch (NUMBA_DISABLE_JIT=1, no tracing: ~2 ms per call) of the Nesterov loops on flat-ellipsoid
        # primitive pairs: out-of-bounds stores / index errors of the jitted loops are only observable when interpreted
        try:
            icases = []
            for i in range(1500 if tier == "quick" else 12000):
                a, b, meta = nb.flat_ellipsoid_prim_pair(R.rng)
                icases.append(dict(c1=a, c2=b, meta=meta,
                                   ops=[dict(fn="nesterov_prim_full", kw=dict(use_nesterov_acceleration=True), timeout=60),
                                        dict(fn="nesterov_full", kw=dict(use_nesterov_acceleration=True), timeout=60)]))
            ires = nb.run_cases(PID, icases, tag="interp", jit=False, per_worker_min=100)
            nbad = 0
            for c, rr in zip(icases, ires):
                for op, r in zip(c["ops"], rr):
                    key = r["fn"] + "+acc"
                    if r.get("exc") == "TIMEOUT" or str(r.get("exc", "")).startswith("PROCESS-"):
                        continue
                    if "exc" in r or r.get("nonfinite"):
                        nbad += 1
                        what = f"raised {r['exc']}: {r.get('exc_msg', '')}" if "exc" in r else f"non-finite outputs: {r['nonfinite']}"
                        R.failure(f"{key} INTERPRETED (NUMBA_DISABLE_JIT=1) {what}",
                                  dict(c1=c["c1"], c2=c["c2"], meta=c["meta"], jit=False, op=op), site=key)
            R.cov["interpreted_batch"] = dict(pairs=len(icases), calls=2 * len(icases), policy_failures=nbad)
        except Exception as e:  # noqa
            R.notes.append(f"interpreted batch failed: {type(e).__name__}: {e}")
        phase("interpreted_batch")
    R.cov["distinct_nontrivial"] = len(distinct)
    R.cov["entry_point_calls"] = calls_total
    R.cov["max_support_evaluations_per_entry_point"] = maxcalls
    R.cov["histogram"] = dict(sorted(hist.items()))
    R.cov["known_finding_failures"] = known_counts
    R.cov["proven_bounds"] = bounds
    for c, rr in list(zip(cases, results))[:3]:
        R.sample(dict(c1=c["c1"], c2=c["c2"], meta=c["meta"],
                      support_calls={r["fn"] + str(op.get("kw", "")): r.get("support_calls") for op, r in zip(c["ops"], rr)}))
    return R.finish()
