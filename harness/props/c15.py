"""C15 — hydroelastic contact polygons lie on the contact plane inside both tetrahedra.

Verdict per reported tetrahedron pair: the Coq-proven checker `poly_cert`
(Checker/Poly.v, soundness `poly_cert_sound`, exported by Props/C15.v) is evaluated by
vm_compute on the exact rationals of what the implementation returned (tetrahedra, plane,
polygon, force): every vertex on the plane, inside both tetrahedra (barycentric
coordinates >= -1e-9), polygon convex and counter-clockwise about the normal, fan area
>= 0, force parallel to the normal with non-negative pressure.  Non-overlap of the
"disjoint" inputs is certified by `sep_cert` (exact separating plane).  Order independence
is judged by comparing the vertex sets of both orders (Python, stated in the evidence).

Tie to the code: the PrimFloat instance of Model/Hydro.v is run inside coqc on the same
inputs, stage by stage.  Stages that consist of scalar IEEE operations only
(intersect_halfplanes and everything below it, filter_unique_points, the row bookkeeping
of make_halfplanes on exact inputs, the plane-crossing pre-check on exact inputs,
plane_basis_from_normal) must agree BIT FOR BIT when fed the implementation's own inputs
of that stage; BLAS/LAPACK based stages (contact_plane, make_halfplanes' projections,
project_polygon_to_3d, compute_contact_force) within a tolerance; the chained model run
(contact_plane -> ... -> force) is compared with the public function's result wherever no
decision of the chain is a near-tie.
"""
import json
import math
from fractions import Fraction as Fr

from .. import common as cm
from .. import hydrogen as hg

PID = "C15"
PROOF_FILES = ["theories/Props/C15.v", "theories/Checker/Poly.v", "theories/Proofs/HydroPlane.v",
               "theories/Proofs/HydroHalfplanes.v", "theories/Proofs/HydroPair.v", "theories/Proofs/HydroForce.v", "theories/Proofs/HydroParallel.v", "theories/Proofs/HydroOrder.v", "theories/Proofs/HydroInside.v", "theories/Proofs/HydroBary.v", "theories/Proofs/HydroSame.v", "theories/Proofs/HydroFloatExamples.v"]
EPS = 2.220446049250313e-16
BUILD_TARGETS = ["theories/Props/C15.vo", "theories/Model/HydroRun.vo", "theories/Checker/Poly.vo", "theories/Proofs/HydroFloatExamples.vo"]

CERT_HEADER = """From Coq Require Import ZArith QArith List.
From D3 Require Import Base.Vec Checker.Poly.
Import ListNotations.
Open Scope Z_scope.
"""
MODEL_HEADER = """From Coq Require Import List ZArith PrimFloat.
From D3 Require Import Base.Ops Base.Vec Model.AabbTree Model.Hydro Model.HydroRun.
Import ListNotations.
Open Scope float_scope.
"""


# ---------------------------------------------------------------- exact encodings
def den_exp(x):
    n, d = float(x).as_integer_ratio()
    return d.bit_length() - 1


def znum(x, k):
    n, d = float(x).as_integer_ratio()
    return n << (k - (d.bit_length() - 1))


def zl(n):
    return str(n) if n >= 0 else f"({n})"


def vz(v, k):
    return "(V " + " ".join(zl(znum(x, k)) for x in v) + ")"


def tz(t, k):
    return "(" + ", ".join(vz(p, k) for p in t) + ")"


def flat(*xs):
    out = []
    for x in xs:
        if isinstance(x, (list, tuple)):
            out += flat(*x)
        else:
            out.append(x)
    return out


def finite(*xs):
    return all(isinstance(x, (int, float)) and math.isfinite(x) for x in flat(*xs))


def scale_of(t1, t2):
    pts = list(t1) + list(t2)
    return max(1.0, max(abs(x) for p in pts for x in p), max(math.dist(p, q) for p in pts for q in pts))


def tols_for(t1, t2, e1, E1):
    L = scale_of(t1, t2)
    fs = max(1.0, abs(E1) * max(abs(x) for x in e1) * L * L)
    return dict(plane=1e-9 * L, bary=1e-9, area=1e-9 * L * L, par=1e-9, sign=1e-9 * fs, L=L)


def cert_expr(t1, t2, plane, poly, force, tl):
    vals = flat(t1, t2, plane, poly, force)
    k = max(den_exp(x) for x in vals)
    tols = "(Tols " + " ".join(cm.qlit(tl[x]) for x in ("plane", "bary", "area", "par", "sign")) + ")"
    return (f"poly_cert_bits {2 ** k}%positive {tz(t1, k)} {tz(t2, k)} {vz(plane[:3], k)} {zl(znum(plane[3], k))} "
            f"[{'; '.join(vz(p, k) for p in poly)}] {vz(force, k)} {tols}")


CERT_BITS = ["normal non-zero", ">= 3 vertices", "vertices on the reported plane", "vertices inside tetrahedron 1",
             "vertices inside tetrahedron 2", "polygon convex, counter-clockwise about the normal", "fan area >= 0",
             "force parallel to the normal", "pressure >= 0 (force along +normal)"]


def sep_expr(n, A, B):
    """exact separating plane test: integers over a common power-of-two denominator"""
    k = max(den_exp(x) for x in flat(n, A, B))
    nz = [znum(x, k) for x in n]
    az = [[znum(x, k) for x in p] for p in A]
    bz = [[znum(x, k) for x in p] for p in B]
    c1 = max(sum(nz[i] * p[i] for i in range(3)) for p in az)
    c2 = min(sum(nz[i] * p[i] for i in range(3)) for p in bz)
    lst = lambda P: "[" + "; ".join("(V " + " ".join(zl(x) for x in p) + ")" for p in P) + "]"   # noqa: E731
    return f"sep_cert (V {' '.join(zl(x) for x in nz)}) {zl(c1)} {zl(c2)} {lst(az)} {lst(bz)}", c1 < c2


# ---------------------------------------------------------------- float encodings (model)
def fv(p):
    return "(V " + " ".join(cm.fhex(x) for x in p) + ")"


def fv4(r):
    return "(mkV4 " + " ".join(cm.fhex(x) for x in r) + ")"


def fm4(X):
    return "(mk_m4 " + " ".join(fv4(r) for r in X) + ")"


def ftet(t):
    return "(mk_tet " + " ".join(fv(p) for p in t) + ")"


def fhp(h):
    return "(mk_hp " + " ".join(cm.fhex(x) for x in h) + ")"


def fv2(p):
    return "(mk_v2 " + " ".join(cm.fhex(x) for x in p) + ")"


def flist(xs, f):
    return "[" + "; ".join(f(x) for x in xs) + "]"


def nats(xs):
    return "[" + "; ".join(str(int(i)) for i in xs) + "]%nat"


def chain_expr(t1, e1, t2, e2, E1, E2, o):
    perm = o.get("perm") or []
    return (f"run_pair {ftet(t1)} {fv4(e1)} {fm4(o['X1'])} {ftet(t2)} {fv4(e2)} {fm4(o['X2'])} "
            f"{cm.fhex(E1)} {cm.fhex(E2)} {nats(perm)}")


def iso_expr(t1, e1, t2, e2, E1, E2, o):
    """every stage on the implementation's own inputs of that stage"""
    parts = [f"[iso_plane {fm4(o['X1'])} {fm4(o['X2'])} {fv4(e1)} {fv4(e2)} {cm.fhex(E1)} {cm.fhex(E2)}]"]
    if o.get("same"):
        parts.append(f"iso_same {fv4(e2)} {ftet(t2)}")
        return "[" + "; ".join(parts) + "]"
    n, d = o["plane0"][:3], o["plane0"][3]
    pp = [x * d for x in n]
    x_ax, y_ax = o["c2p"]
    X8 = flist(o["X1"] + o["X2"], fv4)
    parts.append(f"[iso_pre {ftet(t1)} {ftet(t2)} {fv(n)} {cm.fhex(d)}]")
    parts.append(f"[iso_basis {fv(n)}]")
    parts.append(f"iso_hp_candidates {X8} {fv(pp)} {fv(x_ax)} {fv(y_ax)}")
    parts.append(f"iso_make_halfplanes {X8} {fv(pp)} {fv(x_ax)} {fv(y_ax)}")
    parts.append(f"iso_intersect {flist(o['hps'], fhp)}" if "hps" in o and len(o["hps"]) > 0 else "[]")
    parts.append(f"iso_permute {flist(o['pts'], fv2)} {nats(o['perm'])}" if o.get("perm") is not None and "pts" in o else "[]")
    parts.append(f"iso_filter {flist(o['ordered'], fv2)}" if "ordered" in o else "[]")
    parts.append(f"iso_project {flist(o['uniq'], fv2)} {fv(x_ax)} {fv(y_ax)} {fv(pp)}" if "poly3d" in o else "[]")
    if o.get("inter") and o.get("poly"):
        parts.append(f"[iso_force {ftet(t1)} {fv4(e1)} {fv4(o['plane'])} {flist(o['poly'], fv)} {cm.fhex(E1)}]")
    else:
        parts.append("[]")
    return "[" + "; ".join(parts) + "]"


# ---------------------------------------------------------------- comparisons
def same_bits(a, b):
    a, b = flat(a), flat(b)
    if len(a) != len(b):
        return False
    for x, y in zip(a, b):
        if x != y and not (x != x and y != y):
            return False
    return True


def max_dev(a, b):
    a, b = flat(a), flat(b)
    if len(a) != len(b):
        return float("inf")
    m = 0.0
    for x, y in zip(a, b):
        if x != x or y != y:
            if not (x != x and y != y):
                return float("inf")
            continue
        if x == y:
            continue
        m = max(m, abs(x - y))
    return m


def set_dist(P, Q):
    """Hausdorff distance between two finite point sets"""
    if not P or not Q:
        return 0.0 if not P and not Q else float("inf")
    d1 = max(min(math.dist(p, q) for q in Q) for p in P)
    d2 = max(min(math.dist(p, q) for p in P) for q in Q)
    return max(d1, d2)


def cross2(a, b):
    return a[0] * b[1] - a[1] * b[0]


def near_tie(o, t1, t2):
    """is some decision of the chain (pre-check, face parallel to the plane, parallel lines,
    point on a third line, duplicate vertices, < 3 vertices) within rounding noise of its
    threshold?  Computed from the implementation's own stage data."""
    if o.get("same"):
        return False
    n, d = o["plane0"][:3], o["plane0"][3]
    for t in (t1, t2):
        for p in t:
            s = sum(p[i] * n[i] for i in range(3)) - d
            if abs(abs(s) - 1e-6) < 1e-9:
                return True
    if "c2p" in o:
        x_ax, y_ax = o["c2p"]
        for r in o["X1"] + o["X2"]:
            f = r[:3]
            nx = sum(f[i] * x_ax[i] for i in range(3))
            ny = sum(f[i] * y_ax[i] for i in range(3))
            sc = math.sqrt(sum(x * x for x in f))
            if math.hypot(nx, ny) <= 1e-6 * sc:
                return True
    hps = o.get("hps") or []
    pts = []
    for i in range(len(hps)):
        for j in range(i + 1, len(hps)):
            a, b = hps[i], hps[j]
            den = cross2(a[2:], b[2:])
            sc = math.hypot(*a[2:]) * math.hypot(*b[2:])
            if abs(den) <= 1e-7 * sc:
                if abs(den) >= EPS / 4 or abs(den) > 0:
                    # nearly parallel: the intersection is ill-conditioned (or the EPSILON test is a tie)
                    return True
                continue
            tpar = cross2([b[0] - a[0], b[1] - a[1]], b[2:]) / den
            p = [a[0] + a[2] * tpar, a[1] + a[3] * tpar]
            pts.append((i, j, p))
    for i, j, p in pts:
        for k, h in enumerate(hps):
            if k == i or k == j:
                continue
            cr = cross2(h[2:], [p[0] - h[0], p[1] - h[1]])
            sc = math.hypot(*h[2:]) * (math.hypot(*p) + math.hypot(h[0], h[1]) + 1e-300)
            if abs(cr) <= 1e-7 * sc + 4 * EPS:
                return True
    u = o.get("ordered") or []
    for a, b in zip(u, u[1:]):
        dd = math.dist(a, b)
        if dd <= 1e-7 * (math.hypot(*a) + math.hypot(*b)) + 100 * EPS:
            return True
    return False


# ---------------------------------------------------------------- unit cases (crafted ties, exact inputs)
def dy(rng, lo=-8, hi=8, den=8):
    return rng.randint(lo * den, hi * den) / float(den)


def gen_units(rng, n):
    """calls of single internal functions on inputs for which model and implementation must
    agree bit for bit: scalar IEEE code on arbitrary floats; BLAS-based code on dyadic inputs
    with axis-aligned projections (every product and partial sum exact, so the summation order
    of the BLAS kernel cannot matter).  Exact ties of every comparison are included."""
    U = []
    TOL = 1e-6
    # --- plane-crossing pre-check: vertices exactly at distance +-tolerance
    base1 = [[0.0, 0.0, -1.0], [1.0, 0.0, 1.0], [0.0, 1.0, 1.0], [-1.0, -1.0, 0.5]]
    base2 = [[0.0, 0.0, 1.0], [1.0, 0.0, -1.0], [0.0, 1.0, -1.0], [-1.0, -1.0, -0.5]]
    zs = [TOL, -TOL, math.nextafter(TOL, 1), math.nextafter(TOL, 0), -math.nextafter(TOL, 1), -math.nextafter(TOL, 0), 0.0, 0.5, -0.5]
    for which in range(2):
        for lo in zs:
            for hi in zs:
                t = [[0.0, 0.0, lo], [1.0, 0.0, hi], [0.0, 1.0, hi], [-1.0, -1.0, lo]]
                a = dict(t1=t if which == 0 else base1, t2=base2 if which == 0 else t, n=[0.0, 0.0, 1.0], d=0.0)
                U.append(dict(kind="unit", fn="pre", args=a))
    for _ in range(n // 8):
        ax = rng.randrange(3)
        nn = [0.0, 0.0, 0.0]
        nn[ax] = rng.choice([1.0, -1.0])
        d = dy(rng, -2, 2)
        def tt():
            t = [[dy(rng, -2, 2) for _ in range(3)] for _ in range(4)]
            for p in t:
                if rng.random() < 0.4:
                    p[ax] = (d + rng.choice([TOL, -TOL, 0.0])) * nn[ax]
            return t
        U.append(dict(kind="unit", fn="pre", args=dict(t1=tt(), t2=tt(), n=nn, d=d)))
    # --- point_outside_of_halfplane / intersect_two_halfplanes: arbitrary floats + ties
    def rf():
        k = rng.random()
        if k < 0.3:
            return dy(rng)
        if k < 0.4:
            return rng.choice([0.0, EPS, -EPS, 2 * EPS, EPS / 2, 1.0, -1.0])
        return rng.uniform(-2, 2) * 10 ** rng.randint(-3, 2)
    for _ in range(n // 2):
        U.append(dict(kind="unit", fn="outside", args=dict(h=[rf() for _ in range(4)], p=[rf(), rf()])))
    for e in (EPS, -EPS, math.nextafter(EPS, 1), math.nextafter(EPS, 0), 2 * EPS, EPS / 2, 0.0):
        # cross(hdir, p - hp) = -e exactly
        U.append(dict(kind="unit", fn="outside", args=dict(h=[0.0, 0.0, 1.0, 0.0], p=[3.0, -e])))
        U.append(dict(kind="unit", fn="outside", args=dict(h=[0.5, 0.25, 0.0, -1.0], p=[0.5 - e, 7.0])))
        U.append(dict(kind="unit", fn="two", args=dict(h1=[0.0, 0.0, 1.0, 0.0], h2=[1.0, 1.0, 0.0, e])))
        U.append(dict(kind="unit", fn="two", args=dict(h1=[0.5, 0.0, 0.0, -1.0], h2=[1.0, 1.0, e, 0.0])))
    for _ in range(n // 2):
        U.append(dict(kind="unit", fn="two", args=dict(h1=[rf() for _ in range(4)], h2=[rf() for _ in range(4)])))
    # --- intersect_halfplanes on arbitrary sets of halfplanes
    for _ in range(n):
        m = rng.choice([0, 1, 2, 3, 4, 5, 6, 7, 8, 8, 8])
        kind = rng.choice(["random", "polygon", "lattice", "dups"])
        hps = []
        if kind == "polygon":
            # halfplanes around a point: a bounded polygon; vertices may coincide
            c = [rf(), rf()]
            for _k in range(m):
                ang = rng.uniform(0, 2 * math.pi) if rng.random() < 0.7 else rng.choice([0, 1, 2, 3, 4, 5, 6, 7]) * math.pi / 4
                r = rng.choice([0.5, 1.0, rng.uniform(0.1, 2)])
                nx, ny = math.cos(ang), math.sin(ang)
                # inside: cross(dir, x - p) >= 0 with dir = (ny, -nx) means n.(x-p) <= 0
                hps.append([c[0] + r * nx, c[1] + r * ny, ny * rng.choice([1.0, 2.0, 0.5]), -nx])
                hps[-1][3] = -nx * (hps[-1][2] / ny) if abs(ny) > 1e-3 else -nx
        elif kind == "lattice":
            for _k in range(m):
                while True:
                    dx, dyy = rng.choice([-1.0, 0.0, 1.0, 0.5]), rng.choice([-1.0, 0.0, 1.0, 2.0])
                    if dx != 0.0 or dyy != 0.0:
                        break
                hps.append([rng.choice([-1.0, 0.0, 0.5, 1.0]), rng.choice([-1.0, 0.0, 0.5, 1.0]), dx, dyy])
        else:
            for _k in range(m):
                hps.append([rf(), rf(), rf(), rf()])
            if kind == "dups" and m >= 2:
                hps[-1] = list(hps[0])
        # at most 4 concurrent lines in the lattice class could overflow the points array of the
        # implementation (3n rows) only for n >= 7 with > 24 valid intersections: excluded by the model
        U.append(dict(kind="unit", fn="inter", args=dict(hps=hps)))
    # --- filter_unique_points: distances exactly at 10*EPSILON
    E10 = 10.0 * EPS
    for dlt in (E10, math.nextafter(E10, 1), math.nextafter(E10, 0), 0.0, 2 * E10):
        U.append(dict(kind="unit", fn="filter", args=dict(pts=[[0.0, 0.0], [dlt, 0.0], [dlt, 1.0], [dlt, 1.0 + dlt], [0.0, dlt]])))
        U.append(dict(kind="unit", fn="filter", args=dict(pts=[[1.0, 1.0], [1.0, 1.0 - dlt]])))
    for _ in range(n // 4):
        m = rng.randint(0, 8)
        pts = []
        for _k in range(m):
            if pts and rng.random() < 0.4:
                q = list(pts[-1])
                q[rng.randrange(2)] += rng.choice([0.0, EPS, E10, -E10, 4 * EPS, 1e-12])
                pts.append(q)
            else:
                pts.append([dy(rng), dy(rng)])
        U.append(dict(kind="unit", fn="filter", args=dict(pts=pts)))
    # --- make_halfplanes on exact inputs: rows parallel to the plane, norms exactly EPSILON
    axes = [[1.0, 0.0, 0.0], [0.0, 1.0, 0.0], [0.0, 0.0, 1.0]]
    for _ in range(n // 2):
        i, j = rng.sample(range(3), 2)
        c2p = [[s * x for x in axes[i]] for s in [rng.choice([1.0, -1.0])]] + [[s * x for x in axes[j]] for s in [rng.choice([1.0, -1.0])]]
        k3 = 3 - i - j
        X = []
        for _r in range(8):
            row = [0.0, 0.0, 0.0, dy(rng, -2, 2)]
            kk = rng.random()
            if kk < 0.25:
                pass                                  # face parallel to the plane: 2-D normal exactly 0
            elif kk < 0.45:
                row[rng.choice([i, j])] = rng.choice([EPS, -EPS, math.nextafter(EPS, 1), math.nextafter(EPS, 0), 2 * EPS])
            elif kk < 0.6:
                a = rng.choice([0.25, 0.5, 1.0, 2.0])
                row[i], row[j] = 3 * a * rng.choice([1, -1]), 4 * a * rng.choice([1, -1])
            else:
                row[rng.choice([i, j])] = dy(rng, -4, 4)
            row[k3] = dy(rng, -2, 2)
            X.append(row)
        pp = [0.0, 0.0, 0.0]
        pp[k3] = dy(rng, -2, 2)
        U.append(dict(kind="unit", fn="make_hp", args=dict(X=X, pp=pp, c2p=c2p)))
    # --- contact_plane: exact zero difference (same = True) and dyadic inputs
    for _ in range(n // 4):
        X1 = [[dy(rng, -2, 2, 4) for _ in range(4)] for _ in range(4)]
        e1 = [dy(rng, 0, 2, 4) for _ in range(4)]
        same = rng.random() < 0.4
        X2 = [list(r) for r in X1] if same else [[dy(rng, -2, 2, 4) for _ in range(4)] for _ in range(4)]
        e2 = list(e1) if same else [dy(rng, 0, 2, 4) for _ in range(4)]
        E1 = rng.choice([1.0, 2.0, 0.5])
        E2 = E1 if same and rng.random() < 0.8 else rng.choice([1.0, 2.0, 0.5])
        U.append(dict(kind="unit", fn="plane", args=dict(X1=X1, X2=X2, e1=e1, e2=e2, E1=E1, E2=E2)))
    # --- plane_basis_from_normal incl. |n0| == |n1|
    for _ in range(n // 4):
        k = rng.random()
        if k < 0.3:
            a = rng.uniform(-1, 1)
            nn = [a, rng.choice([a, -a]), rng.uniform(-1, 1)]
        elif k < 0.5:
            nn = rng.choice([[0.0, 0.0, 1.0], [0.0, 0.0, -1.0], [1.0, 0.0, 0.0], [0.0, 1.0, 0.0], [0.0, -1.0, 0.0], [-1.0, 0.0, 0.0]])
        else:
            nn = hg.rand_unit(rng)
        U.append(dict(kind="unit", fn="basis", args=dict(n=nn)))
    # --- _handle_same_tetrahedron, project, force, order, tesselation table
    for _ in range(n // 8):
        t = hg.rand_tet(rng)
        e = hg.rand_pot(rng)
        if rng.random() < 0.2:
            t = [[0.0, 0.0, 0.0], [1.0, 0.0, 0.0], [0.0, 1.0, 0.0], [0.0, 0.0, 1.0]]
            e = [1.0, 0.0, 0.0, 0.0]                  # weighted centre = origin: d = 0 branch
        U.append(dict(kind="unit", fn="same", args=dict(e=e, t=t)))
    for _ in range(n // 4):
        # a convex polygon with 3..8 vertices inside a tetrahedron, counter-clockwise about n
        t = hg.rand_tet(rng)
        ctr = [sum(p[i] for p in t) / 4 for i in range(3)]
        nn = hg.rand_unit(rng)
        xa = hg.rand_unit(rng)
        dd = sum(xa[i] * nn[i] for i in range(3))
        xa = [xa[i] - dd * nn[i] for i in range(3)]
        ln = math.sqrt(sum(x * x for x in xa))
        xa = [x / ln for x in xa]
        ya = [nn[1] * xa[2] - nn[2] * xa[1], nn[2] * xa[0] - nn[0] * xa[2], nn[0] * xa[1] - nn[1] * xa[0]]
        m = rng.choice([3, 4, 5, 6, 7, 8])
        angs = sorted(rng.uniform(0, 2 * math.pi) for _ in range(m))
        r = 0.05
        poly = [[ctr[i] + r * (math.cos(a) * xa[i] + math.sin(a) * ya[i]) for i in range(3)] for a in angs]
        if rng.random() < 0.15:
            poly = [poly[0]] * 3                      # zero area: com falls back to vertex 0
        plane = nn + [sum(nn[i] * ctr[i] for i in range(3))]
        U.append(dict(kind="unit", fn="force", args=dict(t=t, e=hg.rand_pot(rng), plane=plane, poly=poly, E=hg.logu(rng, 1e-2, 1e2))))
        vs = [[rng.uniform(-1, 1), rng.uniform(-1, 1)] for _ in range(m)]
        U.append(dict(kind="unit", fn="project", args=dict(vs=vs, c2p=[xa, ya], pp=ctr)))
        U.append(dict(kind="unit", fn="order", args=dict(pts=[[r * math.cos(a) + 0.3, r * math.sin(a) - 0.2] for a in rng.sample(angs, m)])))
    # deterministic members of the rarely taken arms: weighted centre at the origin (d == 0), zero-area polygon,
    # an 8-vertex polygon (all 6 rows of the TRIANGLES table)
    U.append(dict(kind="unit", fn="same", args=dict(e=[0.5, 0.0, 0.0, 0.0], t=[[0.0, 0.0, 0.0], [1.0, 0.0, 0.0], [0.0, 1.0, 0.0], [0.0, 0.0, 1.0]])))
    tet = [[0.0, 0.0, 0.0], [4.0, 0.0, 0.0], [0.0, 4.0, 0.0], [0.0, 0.0, 4.0]]
    U.append(dict(kind="unit", fn="force", args=dict(t=tet, e=[0.0, 0.0, 0.0, 1.0], plane=[0.0, 0.0, 1.0, 0.5],
                                                      poly=[[0.5, 0.5, 0.5]] * 3, E=2.0)))
    oct8 = [[1.0 + 0.5 * math.cos(k * math.pi / 4), 1.0 + 0.5 * math.sin(k * math.pi / 4), 0.5] for k in range(8)]
    U.append(dict(kind="unit", fn="force", args=dict(t=tet, e=[0.0, 0.25, 0.5, 1.0], plane=[0.0, 0.0, 1.0, 0.5], poly=oct8, E=0.5)))
    for m in range(3, 9):
        U.append(dict(kind="unit", fn="tess", args=dict(n=m)))
    # --- intersect_tetrahedron_pairs: index wiring of the batch loop (distinct potentials per tetrahedron)
    for _ in range(max(4, n // 20)):
        n1, n2 = rng.randint(1, 4), rng.randint(1, 4)
        base = hg.rand_tet(rng)
        tp1 = [[[x + 0.25 * rng.gauss(0, 1) for x in p] for p in base] for _k in range(n1)]
        tp2 = [[[x + 0.25 * rng.gauss(0, 1) for x in p] for p in base] for _k in range(n2)]
        if any(abs(hg._vol6(t)) < 1e-3 for t in tp1 + tp2):
            continue
        pairs = [[i, j] for i in range(n1) for j in range(n2) if rng.random() < 0.8]
        rng.shuffle(pairs)
        U.append(dict(kind="unit", fn="pairs", args=dict(tp1=tp1, tp2=tp2, ep1=[hg.rand_pot(rng) for _k in range(n1)],
                                                           ep2=[hg.rand_pot(rng) for _k in range(n2)], pairs=pairs,
                                                           E1=hg.logu(rng, 1e-2, 1e2), E2=hg.logu(rng, 1e-2, 1e2))))
    U.append(dict(kind="unit", fn="pairs", args=dict(tp1=[hg.rand_tet(rng)], tp2=[hg.rand_tet(rng, 1.0, (9.0, 9.0, 9.0))],
                                                       ep1=[[1.0, 0.0, 0.0, 0.0]], ep2=[[0.0, 0.0, 0.0, 1.0]], pairs=[[0, 0]], E1=1.0, E2=1.0)))
    return U


def unit_expr(u):
    fn, a = u["fn"], u["args"]
    if fn == "pre":
        return f"[iso_pre {ftet(a['t1'])} {ftet(a['t2'])} {fv(a['n'])} {cm.fhex(a['d'])}]"
    if fn == "outside":
        return f"[[iso_outside {fhp(a['h'])} {fv2(a['p'])}]]"
    if fn == "two":
        return f"[iso_two {fhp(a['h1'])} {fhp(a['h2'])}]"
    if fn == "inter":
        return f"iso_intersect {flist(a['hps'], fhp)}"
    if fn == "filter":
        return f"iso_filter {flist(a['pts'], fv2)}"
    if fn == "make_hp":
        return f"iso_make_halfplanes {flist(a['X'], fv4)} {fv(a['pp'])} {fv(a['c2p'][0])} {fv(a['c2p'][1])}"
    if fn == "plane":
        return f"[iso_plane {fm4(a['X1'])} {fm4(a['X2'])} {fv4(a['e1'])} {fv4(a['e2'])} {cm.fhex(a['E1'])} {cm.fhex(a['E2'])}]"
    if fn == "basis":
        return f"[iso_basis {fv(a['n'])}]"
    if fn == "same":
        return f"iso_same {fv4(a['e'])} {ftet(a['t'])}"
    if fn == "project":
        return f"iso_project {flist(a['vs'], fv2)} {fv(a['c2p'][0])} {fv(a['c2p'][1])} {fv(a['pp'])}"
    if fn == "force":
        return f"[iso_force {ftet(a['t'])} {fv4(a['e'])} {fv4(a['plane'])} {flist(a['poly'], fv)} {cm.fhex(a['E'])}]"
    return None


def judge_unit(u, r, m):
    """-> None (agree) or a description of the disagreement"""
    fn, a = u["fn"], u["args"]
    if "exc" in r:
        return f"{fn}: implementation raised {r['exc']}: {r.get('exc_msg')}"
    out = r["out"]
    if fn == "pre":
        return None if bool(m[0][0]) == out else f"pre-check: model {bool(m[0][0])} implementation {out}"
    if fn == "outside":
        return None if bool(m[0][0]) == out else f"point_outside_of_halfplane: model {bool(m[0][0])} implementation {out}"
    if fn == "two":
        return None if same_bits(m[0], out) else f"intersect_two_halfplanes: model {m[0]} implementation {out}"
    if fn == "inter":
        if out == "AssertionError":
            return None if m == [[-102.0]] else f"intersect_halfplanes: implementation AssertionError, model {m}"
        return None if same_bits(m, out) else f"intersect_halfplanes: model {m} implementation {out}"
    if fn == "filter":
        return None if same_bits(m, out) else f"filter_unique_points: model {m} implementation {out}"
    if fn == "make_hp":
        return None if same_bits(m, out) else f"make_halfplanes: model {m} implementation {out}"
    if fn == "plane":
        ok = bool(m[0][4]) == r["same"] and max_dev(m[0][:4], out) <= 1e-14 * max(1.0, max(abs(x) for x in out))
        return None if ok else f"contact_plane: model {m[0]} implementation {out} same={r['same']}"
    if fn == "basis":
        return None if same_bits(m[0], out) else f"plane_basis_from_normal: model {m[0]} implementation {out}"
    if fn == "same":
        return None if max_dev(m, out) <= 1e-13 * scale_of(a["t"], a["t"]) else f"_handle_same_tetrahedron: model {m} implementation {out}"
    if fn == "project":
        return None if max_dev(m, out) <= 1e-14 * 4 else f"project_polygon_to_3d: model {m} implementation {out}"
    if fn == "force":
        sc = max(1.0, abs(a["E"]) * max(abs(x) for x in a["e"]))
        ok = max_dev(m[0][:3], out[:3]) <= 1e-9 * scale_of(a["t"], a["t"]) and max_dev(m[0][3:6], out[3:6]) <= 1e-9 * sc \
            and abs(m[0][6] - out[6]) <= 1e-12
        want = [[0, k + 1, k + 2] for k in range(len(a["poly"]) - 2)]
        if r["tris"] != want:
            return f"compute_contact_force: triangles {r['tris']} are not the fan {want}"
        return None if ok else f"compute_contact_force: model {m[0]} implementation {out}"
    if fn == "order":
        # oracle (no model: arctan2/argsort are not modelled): output is a permutation of the input that is
        # sorted by angle about the mean, i.e. counter-clockwise starting at angle -pi
        pts = a["pts"]
        if r["perm"] is None or sorted(r["perm"]) != list(range(len(pts))):
            return "order_points: output is not a permutation of its input"
        cx, cy = sum(p[0] for p in pts) / len(pts), sum(p[1] for p in pts) / len(pts)
        ang = [math.atan2(p[1] - cy, p[0] - cx) for p in out]
        return None if all(x <= y + 1e-12 for x, y in zip(ang, ang[1:])) else "order_points: angles not ascending"
    if fn == "pairs":
        # impl-vs-impl: the batch loop must report exactly the pairs the pair function accepts, with its results
        want = [(p, d) for p, d in zip(a["pairs"], r["direct"]) if d["inter"]]
        if r["inter"] != (len(want) > 0) or r["i1"] != [p[0] for p, _ in want] or r["i2"] != [p[1] for p, _ in want]:
            return f"intersect_tetrahedron_pairs: reported ({r['i1']}, {r['i2']}, {r['inter']}) but the pair function accepts {[p for p, _ in want]}"
        if not same_bits(r["planes"], [d["plane"] for _, d in want]) or not same_bits(r["polys"], [d["poly"] for _, d in want]):
            return "intersect_tetrahedron_pairs: planes / polygons differ from the pair function's results (index wiring)"
        return None
    if fn == "tess":
        nn = a["n"]
        want = [[0, k + 1, k + 2] for k in range(nn - 2)]
        if out != want or r["table"] != [[0, k + 1, k + 2] for k in range(6)]:
            return f"tesselate_ordered_polygon({nn}) = {out}, TRIANGLES = {r['table']}"
        return None
    return None


# ---------------------------------------------------------------- workers
def run_workers(cases, tag, script="c15", per=None, timeout=1800, jit=True, trace=False):
    res, covs = hg.run_cases(cm, PID, script, cases, tag, per=per or 8, timeout=timeout, jit=jit, trace=trace, notes=WORKER_NOTES)
    return res, (covs or None)


WORKER_NOTES = []


def merge_cov(covs):
    """union over workers: a line/arc is missing only if every worker missed it"""
    if not covs:
        return None
    rep = {}
    for f in covs[0]:
        ml = set(covs[0][f]["missing_lines"])
        ma = {tuple(a) for a in covs[0][f]["missing_arcs"]}
        for c in covs[1:]:
            ml &= set(c[f]["missing_lines"])
            ma &= {tuple(a) for a in c[f]["missing_arcs"]}
        st, br = covs[0][f]["statements"], covs[0][f]["branches"]
        rep[f] = dict(statements=st, lines_reached=st - len(ml), missing_lines=sorted(ml),
                      branch_arcs=br, arcs_reached=br - len(ma), missing_arcs=sorted(ma))
    return rep


# cases that make the coverage run reach the rarely taken arms whatever the seed: identical tetrahedra with
# equal moduli (contact_plane: norm == 0 -> _handle_same_tetrahedron), two far apart cubes (no contact at all)
_I4 = [[1.0, 0.0, 0.0, 0.0], [0.0, 1.0, 0.0, 0.0], [0.0, 0.0, 1.0, 0.0], [0.0, 0.0, 0.0, 1.0]]
_T = [[0.0, 0.0, 0.0], [1.0, 0.0, 0.0], [0.0, 1.0, 0.0], [0.25, 0.25, 1.0]]
COV_FIXED = [
    dict(kind="pair", cls="cov_same", t1=_T, e1=[0.0, 0.0, 0.0, 0.5], t2=_T, e2=[0.0, 0.0, 0.0, 0.5], E1=1.0, E2=1.0),
    dict(kind="bodies", cls="cov_separated", b1=dict(shape="cube", params=dict(size=1.0), pose=_I4, E=1.0),
         b2=dict(shape="cube", params=dict(size=1.0), pose=[[1.0, 0.0, 0.0, 5.0], [0.0, 1.0, 0.0, 0.0], [0.0, 0.0, 1.0, 0.0], [0.0, 0.0, 0.0, 1.0]], E=1.0),
         use_aabb_trees=False, all_pairs=False, max_contacts=4),
    dict(kind="bodies", cls="cov_stacked_tree", b1=dict(shape="cube", params=dict(size=1.0), pose=_I4, E=1.0),
         b2=dict(shape="cube", params=dict(size=1.0), pose=[[1.0, 0.0, 0.0, 0.0], [0.0, 1.0, 0.0, 0.0], [0.0, 0.0, 1.0, 0.9], [0.0, 0.0, 0.0, 1.0]], E=2.0),
         use_aabb_trees=True, all_pairs=False, max_contacts=4),
]


# ---------------------------------------------------------------- case generation
def gen_cases(rng, tier):
    quick = tier == "quick"
    pairs = []
    per_cls = dict(random=70, random_near=40, aligned=90, lattice=70, shared_face=30, identical=24, same_field=24,
                   touching=50, disjoint=30, tiny_scale=20, big_offset=20)
    mult = 1 if quick else 10
    for cls, k in per_cls.items():
        for _ in range(k * mult):
            pairs.append(hg.tet_pair(rng, cls))
    bodies = []
    modes = ["stacked"] * 6 + ["random"] * 7 + ["lattice"] * 4 + ["separated"] * 3
    for mode in modes * (1 if quick else 8):
        s1, s2 = hg.body_pair(rng, mode)
        c = dict(kind="bodies", cls="bodies_" + mode, b1=s1, b2=s2, use_aabb_trees=rng.random() < 0.5,
                 all_pairs=True, max_contacts=16 if quick else 120, want_vertices=(mode == "separated"))
        bodies.append(c)
        if rng.random() < 0.5:
            bodies.append(dict(c, b1=s2, b2=s1, cls=c["cls"] + "_swapped"))
        elif mode != "separated":
            # the same pair judged after a history of calls on the same objects (roles and frames changed in between)
            s3, _ = hg.body_pair(rng, "random")
            s3["pose"] = hg.pose(hg.rand_rot(rng), [0.5 * (s1["pose"][i][3] + s2["pose"][i][3]) + 0.2 * hg.body_size(s1) * rng.uniform(-1, 1)
                                                     for i in range(3)])
            bodies.append(dict(c, warm=s3, cls=c["cls"] + "_after_history"))
    # every second body case keeps its contact surface while another, different pair is computed (the next case's bodies)
    for k, c in enumerate(bodies):
        if k % 2 == 0 and len(bodies) > 1:
            o = bodies[(k + 1) % len(bodies)]
            c["then"] = dict(b1=o["b1"], b2=o["b2"])
    units = gen_units(rng, 120 if quick else 1200)
    return pairs, bodies, units


def route_polygon_failure(R, hits, what, case, t1, t2, plane, site, key=None, pending=None):
    """a reported polygon that is not the whole exact intersection / depends on the order.  With `pending` the
    decision is deferred until the model has been run (resolve_pending); without it (targeted search, where the tie
    to the model is already broken) it is a violation unless nothing else is known to be broken."""
    if pending is not None:
        pending.append(dict(what=what, case=case, t1=t1, t2=t2, plane=plane, site=site, key=key))
        return
    kf = [k for k in R.known if k.get("id") == "F26"]
    if kf and not R.corr_broken and not R.proof_broken and hg.concurrent_lines(t1, t2, plane):
        hits[0] += 1
        R.known_finding("F26", kf[0].get("what", what)[:300])
    else:
        R.failure(what, case, site=site)


def resolve_pending(R, hits, pending, stage_ok):
    """Known finding F26 covers a polygon failure only if (a) the exact polygon has a vertex on >= 3 of the 8 face
    planes (coincident / concurrent lines: hydrogen.concurrent_lines) AND (b) the binary64 run of the model - the
    transliteration of the algorithm as recorded - reproduces the implementation's result on that very input bit for
    bit in both orders (every stage of compare_pair agreed).  (b) separates the recorded defect of the algorithm
    from a changed implementation that loses vertices on the same class of inputs.  Everything else is a violation."""
    kf = [k for k in R.known if k.get("id") == "F26"]
    for p in pending:
        key = p["key"]
        reproduced = key is not None and stage_ok.get((key, "o12")) is True and stage_ok.get((key, "o21")) is True
        if p.get("raised"):
            # since /repo f6c3926 (F28) the point buffer has one row per pair and the model proves the function total
            # (C15_intersect_halfplanes_total): an AssertionError is always a failure
            R.failure(p["what"], p["case"], site=p["site"])
            continue
        if kf and reproduced and hg.concurrent_lines(p["t1"], p["t2"], p["plane"]):
            hits[0] += 1
            R.known_finding("F26", kf[0].get("what", p["what"])[:300])
        else:
            extra = "" if reproduced else " [the binary64 model of the recorded algorithm does not reproduce this result]"
            R.failure(p["what"] + extra, p["case"], site=p["site"])


def check_area(R, hits, t1, t2, plane, inter, area, case, tag, key=None, pending=None):
    """exact rational intersection polygon of the reported plane with both tetrahedra against the
    reported area (0 if reported as not intersecting)"""
    L = scale_of(t1, t2)
    ex = hg.exact_area(hg.exact_polygon(t1, t2, plane), plane)
    got = area if inter else 0.0
    if abs(ex - got) > 1e-9 * L * L:
        route_polygon_failure(R, hits, f"reported contact polygon is not the intersection of the plane with both tetrahedra ({tag}): "
                              f"area {got!r}, exact area {ex!r}", case, t1, t2, plane, "intersect_tetrahedron_pair", key, pending)
        return False
    return True


# ---------------------------------------------------------------- main
def run(tier, seed, replay=None):
    R = cm.Run(PID, "proof", tier, seed)
    R.cov["rule"] = (
        "case = single tetrahedron pair with linear potentials (classes random / random_near / aligned: tetrahedra of two "
        "axis-aligned stacked cubes, faces parallel to the contact plane / lattice / shared_face / identical / same_field / "
        "touching (penetration in {0, +-1e-9 .. 1e-4}) / disjoint (certified by sep_cert) / tiny_scale / big_offset), both "
        "orders; or two RigidBody.make_* bodies (stacked / random poses of both / lattice / separated) through "
        "find_contact_surface with either broad phase, every reported contact judged, a sample re-run as single pairs; or "
        "one internal function on crafted exact inputs incl. exact ties of every comparison.  distinct = canonical hash of "
        "the case; evaluations and distinct_nontrivial both count CASES (a single pair with both orders, a body pair, a unit call, a "
        "re-run body contact); non-trivial = the implementation reported an intersection for the case and poly_cert accepted at "
        "least one of its results, or the unit call was compared with the model; judged results (certificates, contacts, areas) are "
        "counted separately in certificates_evaluated / body_contacts_judged / areas_checked_against_exact_polygon")
    R.assumptions += [
        "the verdict per reported pair is the Coq theorem poly_cert_sound applied to the implementation's output; universality over inputs comes from generation",
        "order independence and 'reported set = brute force over all pairs' are judged by Python comparisons (vertex sets within 1e-9 L), not by a Coq checker",
        "theorems in Props/C15.v are about the Gallina model Model/Hydro.v over the reals; binary64 rounding is measured by the correspondence run, not proved",
        "order_points (arctan2/argsort) and barycentric_transforms (pinv) are not modelled: the permutation and the matrices X are taken from the implementation; their effect is judged by poly_cert",
        "harness/compat.py import shim; numpy/numba/OpenBLAS/CPython",
    ]
    R.check_proofs([f for f in PROOF_FILES if (cm.COQ / f).exists()],
                   build_targets=BUILD_TARGETS)

    if replay:
        c = json.loads(open(replay).read())["case"]
        pairs = [c] if c.get("kind") == "pair" else []
        bodies = [c] if c.get("kind") == "bodies" else []
        units = [c] if c.get("kind") == "unit" else []
    else:
        pairs, bodies, units = [], [], []
        corpus = cm.VERIF / "corpus" / PID
        if corpus.exists():
            for f in sorted(corpus.glob("*.json")):
                c = json.loads(f.read_text())["case"]
                {"pair": pairs, "bodies": bodies, "unit": units}[c["kind"]].append(c)
        gp, gb, gu = gen_cases(R.rng, tier)
        pairs += gp
        bodies += gb
        units += gu

    import time
    from concurrent.futures import ThreadPoolExecutor
    T = {}
    t0 = time.time()
    # subset run interpreted (NUMBA_DISABLE_JIT=1) under coverage measurement
    cov_cases = []
    seen_cls = {}
    for c in pairs:
        if seen_cls.get(c["cls"], 0) < (4 if tier == "quick" else 12):
            seen_cls[c["cls"]] = seen_cls.get(c["cls"], 0) + 1
            cov_cases.append(c)
    small = [c for c in bodies if c["b1"]["shape"] in ("cube", "box") and c["b2"]["shape"] in ("cube", "box")]
    cov_cases += [dict(c, all_pairs=False) for c in small[:3]] + [dict(c, all_pairs=False, use_aabb_trees=not c["use_aabb_trees"]) for c in small[:1]]
    cov_cases += [dict(c, all_pairs=False) for c in bodies if c["cls"].startswith("bodies_separated") and c["b1"]["shape"] in ("cube", "box", "sphere")][:1]
    cov_cases += [u for u in units if u["fn"] in ("tess", "force", "same", "order", "pairs")][:30]
    cov_cases += COV_FIXED
    with ThreadPoolExecutor(4) as ex:
        fp = ex.submit(run_workers, pairs, "pair", "c15", 40)
        fb = ex.submit(run_workers, bodies, "body", "c15", 2)
        fu = ex.submit(run_workers, units, "unit", "c15", 200)
        fc = ex.submit(run_workers, cov_cases, "cov", "c15", max(4, len(cov_cases) // 12), 2400, False, True)
        pres, _ = fp.result()
        bres, _ = fb.result()
        ures, _ = fu.result()
        cres, covs = fc.result()
    T["impl_all_parallel"] = round(time.time() - t0, 1); t0 = time.time()
    R.cov["timing_s"] = T
    R.cov["evaluations"] = len(pairs) + len(bodies) + len(units)

    # second round: a sample of the body contacts re-run as single pairs with all stages
    rerun = []
    for bi, (c, r) in enumerate(zip(bodies, bres)):
        if r is None or "exc" in r:
            continue
        if r.get("raised"):
            # find_contact_surface raised AssertionError: judge the raising tetrahedron pairs as single pairs
            for ct in r.get("raising_pairs", []):
                rerun.append(dict(kind="pair", cls="rerun_raised_" + c["cls"], t1=ct["t1"], e1=ct["e1"], t2=ct["t2"], e2=ct["e2"],
                                  E1=r["E"][0], E2=r["E"][1], body_case=bi))
            continue
        cs = r.get("contacts", [])
        take = cs if len(cs) <= 4 else R.rng.sample(cs, 4)
        # contacts whose area / swapped polygon looks wrong are re-run too (at most 12 per case): the verdict
        # "known finding F26" needs the model's run on exactly that input
        sus = []
        for ct in cs:
            if ct in take or len(sus) >= 12 or not finite(ct["plane"], ct["poly"], ct["area"]):
                continue
            Lc = scale_of(ct["t1"], ct["t2"])
            exa = hg.exact_area(hg.exact_polygon(ct["t1"], ct["t2"], ct["plane"]), ct["plane"])
            if abs(exa - ct["area"]) > 1e-9 * Lc * Lc or (not ct["sw_inter"] and ct["area"] > 1e-9 * Lc * Lc) or \
                    (ct["sw_inter"] and ct["area"] > 1e-9 * Lc * Lc and set_dist(ct["poly"], ct["sw_poly"]) > 1e-9 * Lc):
                sus.append(ct)
        for ct in list(take) + sus:
            ct["_rerun"] = len(pairs) + len(rerun)          # index in allpairs
            rerun.append(dict(kind="pair", cls="rerun_" + c["cls"], t1=ct["t1"], e1=ct["e1"], t2=ct["t2"], e2=ct["e2"],
                              E1=r["E"][0], E2=r["E"][1], expect=dict(plane=ct["plane"], poly=ct["poly"], force=ct["force"],
                                                                     area=ct["area"], com=ct["com"]), body_case=bi))
    rres, _ = run_workers(rerun, "rerun", per=40)
    T["impl_rerun"] = round(time.time() - t0, 1); t0 = time.time()
    allpairs = pairs + rerun
    allpres = pres + rres
    R.cov["evaluations"] += len(rerun)

    cov_rep = merge_cov(covs)
    R.cov["implementation_coverage"] = cov_rep if cov_rep else "coverage run failed"
    if cov_rep is None:
        R.notes.append("coverage run produced no data")
    # the interpreted run must agree with the compiled one (same case list)
    nojit_diff = 0
    pidx = {id(c): i for i, c in enumerate(pairs)}
    for c, r in zip(cov_cases, cres):
        if c.get("kind") != "pair" or r is None or "exc" in r or id(c) not in pidx:
            continue
        j = pres[pidx[id(c)]]
        if j is None or "exc" in j:
            continue
        for o in ("o12", "o21"):
            if r[o]["inter"] != j[o]["inter"] or max_dev(r[o]["plane"], j[o]["plane"]) > 1e-9 or \
                    (r[o]["inter"] and set_dist(r[o]["poly"], j[o]["poly"]) > 1e-9 * scale_of(c["t1"], c["t2"])):
                if not near_tie(j[o], c["t1"] if o == "o12" else c["t2"], c["t2"] if o == "o12" else c["t1"]):
                    nojit_diff += 1
    R.cov["interpreted_vs_compiled_disagreements"] = nojit_diff
    if nojit_diff:
        R.corr_broken.append(f"interpreted and compiled execution disagree on {nojit_diff} pair cases")

    # ---------------- certificates
    cert_exprs, cert_idx = [], []
    raised = []
    hist = {}
    n_inter = {}
    for i, (c, r) in enumerate(zip(allpairs, allpres)):
        hist[c["cls"]] = hist.get(c["cls"], 0) + 1
        if r is None or "exc" in r:
            R.failure(f"intersect_tetrahedron_pair raised {None if r is None else r.get('exc')}: {None if r is None else r.get('exc_msg')}",
                      c, site="intersect_tetrahedron_pair")
            continue
        for o, (ta, ea, tb, eb, Ea) in (("o12", (c["t1"], c["e1"], c["t2"], c["e2"], c["E1"])),
                                        ("o21", (c["t2"], c["e2"], c["t1"], c["e1"], c["E2"]))):
            ro = r[o]
            if ro.get("raised"):
                raised.append(dict(what=f"intersect_tetrahedron_pair raised {ro['raised']} ({o}, class {c['cls']}): the "
                                        f"`n_intersections < len(points)` assertion of intersect_halfplanes", case=dict(c, order=o),
                                   t1=ta, t2=tb, plane=ro.get("plane0"), site="intersect_halfplanes", key=i, raised=True))
                continue
            if "expect_disjoint" in c:
                continue
            if not ro["inter"]:
                continue
            n_inter[c["cls"]] = n_inter.get(c["cls"], 0) + 1
            if not finite(ro["plane"], ro["poly"], ro["force"], ro["area"], ro["com"]):
                R.failure(f"non-finite result ({o})", dict(c, result=ro), site="intersect_tetrahedron_pair")
                continue
            tl = tols_for(ta, tb, ea, Ea)
            cert_exprs.append(cert_expr(ta, tb, ro["plane"], ro["poly"], ro["force"], tl))
            cert_idx.append(("pair", i, o))
    # disjoint single pairs
    for i, (c, r) in enumerate(zip(allpairs, allpres)):
        if "expect_disjoint" not in c or r is None or "exc" in r:
            continue
        ex, ok = sep_expr(c["expect_disjoint"]["n"], c["t1"], c["t2"])
        if not ok:
            ex, ok = sep_expr([-x for x in c["expect_disjoint"]["n"]], c["t1"], c["t2"])
        if not ok:
            R.notes.append(dict(generator="disjoint case not separated by its plane; skipped", case_hash=cm.canon_hash(c)))
            continue
        cert_exprs.append(ex)
        cert_idx.append(("sep", i, None))
    # bodies
    body_contacts = 0
    for bi, (c, r) in enumerate(zip(bodies, bres)):
        hist[c["cls"]] = hist.get(c["cls"], 0) + 1
        if r is None or "exc" in r:
            R.failure(f"find_contact_surface raised {None if r is None else r.get('exc')}: {None if r is None else r.get('exc_msg')}",
                      c, site="find_contact_surface")
            continue
        if r.get("raised"):
            if not r.get("raising_pairs"):
                R.failure("find_contact_surface raised AssertionError and no single tetrahedron pair reproduces it", c, site="find_contact_surface")
            r.update(contacts=[], reported_pairs=[], intersection=False, w12=[0.0] * 6, w21=[0.0] * 6, n_contacts=0)
            r.pop("all_pairs", None)
            continue
        for k, ct in enumerate(r["contacts"]):
            body_contacts += 1
            if not finite(ct["plane"], ct["poly"], ct["force"], ct["area"], ct["com"]):
                R.failure("non-finite contact", dict(c, contact=ct), site="find_contact_surface")
                continue
            tl = tols_for(ct["t1"], ct["t2"], ct["e1"], r["E"][0])
            cert_exprs.append(cert_expr(ct["t1"], ct["t2"], ct["plane"], ct["poly"], ct["force"], tl))
            cert_idx.append(("body", bi, k))
        if c.get("want_vertices") and "verts1" in r:
            # separating plane between the two vertex clouds: direction between the body origins (body 2's frame)
            v1, v2 = r["verts1"], r["verts2"]
            c1 = [sum(p[i] for p in v1) / len(v1) for i in range(3)]
            c2 = [sum(p[i] for p in v2) / len(v2) for i in range(3)]
            nn = [c2[i] - c1[i] for i in range(3)]
            ex, ok = sep_expr(nn, v1, v2)
            if ok:
                cert_exprs.append(ex)
                cert_idx.append(("bodysep", bi, None))
            else:
                R.notes.append(dict(generator="separated bodies not separated along the centre line; not judged", cls=c["cls"]))
    # ---------------- model runs
    m_exprs, m_idx = [], []
    for i, (c, r) in enumerate(zip(allpairs, allpres)):
        if r is None or "exc" in r:
            continue
        for o, (ta, ea, tb, eb, Ea, Eb) in (("o12", (c["t1"], c["e1"], c["t2"], c["e2"], c["E1"], c["E2"])),
                                            ("o21", (c["t2"], c["e2"], c["t1"], c["e1"], c["E2"], c["E1"]))):
            ro = r[o]
            if not finite(ro["X1"], ro["X2"], ro.get("plane0", [])):
                continue
            m_exprs.append("(" + chain_expr(ta, ea, tb, eb, Ea, Eb, ro) + ", " + iso_expr(ta, ea, tb, eb, Ea, Eb, ro) + ")")
            m_idx.append((i, o, ta, ea, tb, eb, Ea, Eb))
    u_exprs, u_idx = [], []
    for i, (u, r) in enumerate(zip(units, ures)):
        ex = unit_expr(u)
        if ex is not None and r is not None and "exc" not in r:
            u_exprs.append(ex)
            u_idx.append(i)
    pool = ThreadPoolExecutor(2)
    fut_model = pool.submit(hg.coq_eval, cm, PID, MODEL_HEADER, m_exprs + u_exprs, "model",
                            max(10, (len(m_exprs) + len(u_exprs)) // (2 * cm.NCPU) + 1), 1500, BUILD_TARGETS)
    verdicts = []
    try:
        verdicts = hg.coq_eval(cm, PID, CERT_HEADER, cert_exprs, "cert", max(8, len(cert_exprs) // (2 * cm.NCPU) + 1), 1500, BUILD_TARGETS)
    except RuntimeError as e:
        R.proof_broken.append(f"checker evaluation failed: {str(e)[:400]}")
    T["coq_certificates"] = round(time.time() - t0, 1); t0 = time.time()
    distinct = set()
    rejected = 0
    sep_ok = {}
    for (kind, i, k), v in zip(cert_idx, verdicts):
        if kind in ("sep", "bodysep"):
            sep_ok[(kind, i)] = v.strip() == "true"
            continue
        bits = hg.parse_coq_value(v)
        if all(bits):
            # one unit everywhere: the generated CASE (a pair case counts once even if both orders pass, a body
            # case once however many of its contacts pass)
            distinct.add(cm.canon_hash(allpairs[i] if kind == "pair" else bodies[i]))
            continue
        rejected += 1
        why = [CERT_BITS[j] for j, b in enumerate(bits) if not b]
        if kind == "pair":
            c = allpairs[i]
            R.failure(f"poly_cert rejected the result of intersect_tetrahedron_pair ({k}, class {c['cls']}): failed {why}",
                      dict(c, result=allpres[i][k]), site="intersect_tetrahedron_pair")
        else:
            R.failure(f"poly_cert rejected contact {k} of find_contact_surface ({bodies[i]['cls']}): failed {why}",
                      dict(bodies[i], contact=bres[i]["contacts"][k]), site="find_contact_surface")
    # disjoint inputs must be reported as not intersecting
    n_disjoint = 0
    for (kind, i), ok in sep_ok.items():
        if not ok:
            R.notes.append(dict(generator="sep_cert did not certify the disjoint case; not judged", kind=kind))
            continue
        n_disjoint += 1
        if kind == "sep":
            c, r = allpairs[i], allpres[i]
            for o in ("o12", "o21"):
                if r[o]["inter"]:
                    R.failure(f"tetrahedra with disjoint convex hulls (sep_cert) reported as intersecting ({o})",
                              dict(c, result=r[o]), site="intersect_tetrahedron_pair")
        else:
            c, r = bodies[i], bres[i]
            if r["intersection"] or r["n_contacts"] != 0 or any(x != 0.0 for x in r["w12"] + r["w21"]):
                R.failure(f"bodies with disjoint convex hulls (sep_cert): intersection={r['intersection']} contacts={r['n_contacts']} "
                          f"w12={r['w12']} w21={r['w21']}", c, site="find_contact_surface")
    # ---------------- order independence, completeness, bodies bookkeeping (Python oracles)
    f18_hits = [0]
    pending = []

    def polygon_failure(what, case, t1, t2, plane, site, key=None):
        route_polygon_failure(R, f18_hits, what, case, t1, t2, plane, site, key, pending)

    def area_check(t1, t2, plane, inter, area, case, tag, key=None):
        return check_area(R, f18_hits, t1, t2, plane, inter, area, case, tag, key, pending)

    order_skipped = 0
    area_checked = 0
    for pi, (c, r) in enumerate(zip(allpairs, allpres)):
        if r is None or "exc" in r:
            continue
        a, b = r["o12"], r["o21"]
        if a.get("raised") or b.get("raised"):
            continue
        L = scale_of(c["t1"], c["t2"])
        ok = True
        for o, ro, ta, tb in (("o12", a, c["t1"], c["t2"]), ("o21", b, c["t2"], c["t1"])):
            if ro.get("same") or not (ro["inter"] or ro.get("pre")) or not finite(ro["plane"]):
                continue
            area_checked += 1
            ok = area_check(ta, tb, ro["plane"], ro["inter"], ro.get("area", 0.0), dict(c, result=ro, order=o), o, key=pi) and ok
        if not ok:
            continue
        if a["inter"] != b["inter"]:
            rep = a if a["inter"] else b
            if rep.get("area", 1.0) <= 1e-9 * L * L:
                order_skipped += 1          # a zero-area contact appears in one order only: not a polygon difference
            else:
                polygon_failure(f"intersection flag depends on the order of the tetrahedra ({a['inter']} vs {b['inter']}), area {rep.get('area')}",
                                dict(c, o12=a, o21=b), c["t1"], c["t2"], a["plane"] if a["inter"] else [-x for x in b["plane"]],
                                "intersect_tetrahedron_pair", key=pi)
            continue
        if not a["inter"]:
            continue
        if a.get("same") or b.get("same"):
            continue
        if max(a["area"], b["area"]) <= 1e-9 * L * L:
            # both orders report a degenerate (zero-area, zero-force) contact: a segment or a point whose
            # duplicate end points are filtered differently; not a polygon difference
            order_skipped += 1
            continue
        if set_dist(a["poly"], b["poly"]) > 1e-9 * L:
            polygon_failure(f"contact polygon depends on the order of the tetrahedra: Hausdorff distance of the vertex sets "
                            f"{set_dist(a['poly'], b['poly']):.3g}", dict(c, o12=a, o21=b), c["t1"], c["t2"], a["plane"],
                            "intersect_tetrahedron_pair", key=pi)
        elif max_dev(a["plane"], [-x for x in b["plane"]]) > 1e-9 * L:
            R.failure("contact plane of the swapped pair is not the negated plane", dict(c, o12=a, o21=b), site="contact_plane")
        elif abs(a["area"] - b["area"]) > 1e-9 * L * L:
            R.failure(f"contact area depends on the order: {a['area']} vs {b['area']}", dict(c, o12=a, o21=b), site="compute_contact_force")
    for c, r in zip(bodies, bres):
        if r is None or "exc" in r:
            continue
        rp = [tuple(p) for p in r["reported_pairs"]]
        if r.get("kept_unchanged") is False:
            R.failure("a ContactSurface kept while find_contact_surface ran on another pair of bodies was modified (forces / areas / "
                      "centres / planes / polygons are no longer those it was created with)", c, site="contact_surface_forces")
        if len(set(rp)) != len(rp):
            R.failure("find_contact_surface reports a tetrahedron pair twice", c, site="find_contact_surface")
        if r["intersection"] != (len(rp) > 0):
            R.failure(f"intersection flag {r['intersection']} inconsistent with {len(rp)} reported contacts", c, site="find_contact_surface")
        if not rp and any(x != 0.0 for x in r["w12"] + r["w21"]):
            R.failure(f"no contact but non-zero wrenches {r['w12']} {r['w21']}", c, site="accumulate_wrenches")
        if "all_pairs" in r:
            ap = sorted(tuple(p) for p in r["all_pairs"])
            if ap != sorted(rp):
                miss = [p for p in ap if p not in set(rp)][:5]
                extra = [p for p in rp if p not in set(ap)][:5]
                R.failure(f"reported contacts differ from the narrow phase run on every tetrahedron pair: missing {miss} spurious {extra}",
                          c, site="find_contact_surface")
        for ct in r["contacts"]:
            L = scale_of(ct["t1"], ct["t2"])
            if ct["area"] < 0:
                R.failure(f"negative contact area {ct['area']}", dict(c, contact=ct), site="compute_contact_force")
            if not finite(ct["plane"], ct["poly"], ct["area"]):
                continue
            area_checked += 1
            if not area_check(ct["t1"], ct["t2"], ct["plane"], True, ct["area"], dict(c, contact=ct), f"body contact {ct['i']},{ct['j']}",
                              key=ct.get("_rerun")):
                continue
            if ct["sw_inter"]:
                if ct["area"] > 1e-9 * L * L and set_dist(ct["poly"], ct["sw_poly"]) > 1e-9 * L:
                    polygon_failure(f"contact polygon depends on the order of the tetrahedra (body contact {ct['i']},{ct['j']}): "
                                    f"{set_dist(ct['poly'], ct['sw_poly']):.3g}", dict(c, contact=ct), ct["t1"], ct["t2"], ct["plane"],
                                    "intersect_tetrahedron_pair", key=ct.get("_rerun"))
            elif ct["area"] > 1e-9 * L * L:
                polygon_failure(f"swapped tetrahedron pair ({ct['j']},{ct['i']}) does not intersect, area {ct['area']}", dict(c, contact=ct),
                                ct["t1"], ct["t2"], ct["plane"], "intersect_tetrahedron_pair", key=ct.get("_rerun"))
    # re-run contacts must reproduce what find_contact_surface stored
    for c, r in zip(rerun, rres):
        if r is None or "exc" in r or "expect" not in c:
            continue
        o, ex = r["o12"], c["expect"]
        if not o["inter"] or not same_bits(o["plane"], ex["plane"]) or not same_bits(o["poly"], ex["poly"]) \
                or not same_bits(o["force"], ex["force"]) or not same_bits([o["area"]], [ex["area"]]) or not same_bits(o["com"], ex["com"]):
            R.corr_broken.append("a contact stored by find_contact_surface is not reproduced by intersect_tetrahedron_pair + "
                                 "compute_contact_force on the same tetrahedra/potentials/moduli (index wiring of the batch loops)")
            R.notes.append(dict(rerun_mismatch=dict(case=c, got={k: o.get(k) for k in ("inter", "plane", "poly", "force", "area", "com")})))
            break

    stats = dict(bit_exact_stage_comparisons=0, tolerance_stage_comparisons=0, chain_compared=0, chain_skipped_near_tie=0,
                 max_dev=dict(plane=0.0, halfplanes=0.0, project=0.0, force=0.0, chain_poly=0.0, chain_force=0.0), unit_compared=0)
    branch = {}
    stage_ok = {}
    try:
        outs = fut_model.result()
        for (i, o, ta, ea, tb, eb, Ea, Eb), txt in zip(m_idx, outs[:len(m_exprs)]):
            c, ro = allpairs[i], allpres[i][o]
            d = compare_pair(hg.parse_coq_value(txt), c, ro, ta, ea, tb, eb, Ea, Eb, stats, branch)
            stage_ok[(i, o)] = not d
            if d:
                if len(R.corr_broken) < 6:
                    R.corr_broken.append(f"Hydro model vs implementation ({c['cls']}, {o}): {d[0]}")
                R.notes.append(dict(correspondence_diff=d[:3], case=c, order=o))
        for i, txt in zip(u_idx, outs[len(m_exprs):]):
            stats["unit_compared"] += 1
            d = judge_unit(units[i], ures[i], hg.parse_coq_value(txt))
            if d:
                if len(R.corr_broken) < 6:
                    R.corr_broken.append("unit: " + d[:300])
                R.notes.append(dict(unit_diff=d[:600], case=units[i]))
            else:
                distinct.add(cm.canon_hash(units[i]))
    except RuntimeError as e:
        R.corr_broken.append(f"model evaluation failed: {str(e)[:500]}")
    for i, (u, r) in enumerate(zip(units, ures)):
        if unit_expr(u) is None or r is None or "exc" in (r or {}):
            d = judge_unit(u, r or dict(exc="no result"), None) if r is not None and "exc" not in r else f"{u['fn']}: {r}"
            if d:
                R.corr_broken.append("unit: " + str(d)[:300])
            else:
                distinct.add(cm.canon_hash(u))

    resolve_pending(R, f18_hits, pending + raised, stage_ok)
    T["coq_model"] = round(time.time() - t0, 1)
    if WORKER_NOTES:
        R.notes.append(dict(worker_retries=list(WORKER_NOTES)))
    R.cov["distinct_nontrivial"] = len(distinct)
    R.cov["certificates_evaluated"] = len([1 for k in cert_idx if k[0] in ("pair", "body")])
    R.cov["certificates_rejected"] = rejected
    R.cov["disjoint_inputs_certified"] = n_disjoint
    R.cov["body_contacts_judged"] = body_contacts
    R.cov["order_flag_differences_on_zero_area_contacts"] = order_skipped
    R.cov["areas_checked_against_exact_polygon"] = area_checked
    R.cov["known_finding_F26_inputs"] = f18_hits[0]
    R.cov["input_histogram"] = hist
    R.cov["intersecting_results_by_class"] = n_inter
    R.cov["correspondence"] = stats
    R.cov["model_branches_reached"] = branch
    for c, r in list(zip(pairs, pres))[:2]:
        if r and "exc" not in r:
            R.sample(dict(case=c, o12={k: r["o12"].get(k) for k in ("inter", "plane", "poly", "force", "area")}))
    for c, r in list(zip(bodies, bres))[:1]:
        if r and "exc" not in r:
            R.sample(dict(case={k: c[k] for k in ("cls", "b1", "b2", "use_aabb_trees")}, n_contacts=r["n_contacts"],
                          intersection=r["intersection"], w12=r["w12"]))

    # targeted search when only the tie or a proof broke
    if (R.proof_broken or R.corr_broken) and not R.violations and not replay:
        found = targeted_search(R, tier)
        R.cov["search_evaluations"] = found
    return R.finish()


def compare_pair(m, c, ro, ta, ea, tb, eb, Ea, Eb, stats, branch):
    """model (chained run + isolated stages) against the implementation; -> list of differences"""
    diffs = []
    # Coq prints nested pairs flat: (a, b, c, d, e, f, (g, h, i, j), iso)
    hd, pre, hps, st, pts, poly, (fin, fplane, fpoly, fforce), iso = m
    L = scale_of(ta, tb)
    md = stats["max_dev"]

    def tick(name):
        branch[name] = branch.get(name, 0) + 1

    # ---- isolated stages
    ip = iso[0][0]
    if bool(ip[4]) != bool(ro.get("same")):
        diffs.append(f"contact_plane: same flag model {bool(ip[4])} implementation {ro.get('same')}")
    if ro.get("same"):
        tick("contact_plane: same tetrahedron")
        if max_dev(ip[:4], ro["plane0"]) > 0.0:
            diffs.append("contact_plane: zero difference not reproduced")
        want = [ro["plane"]] + ro["poly"]
        stats["tolerance_stage_comparisons"] += 1
        if max_dev(iso[1], want) > 1e-13 * L:
            diffs.append(f"_handle_same_tetrahedron: model {iso[1]} implementation {want}")
        return diffs
    tick("contact_plane: distinct")
    # conditioning of the plane: |E1 e1 X1 - E2 e2 X2| against the size of the terms that cancel
    raw = [sum(ea[r] * Ea * ro["X1"][r][k] for r in range(4)) - sum(eb[r] * Eb * ro["X2"][r][k] for r in range(4)) for k in range(3)]
    S = sum(abs(ea[r] * Ea * ro["X1"][r][k]) + abs(eb[r] * Eb * ro["X2"][r][k]) for r in range(4) for k in range(3))
    cond = math.sqrt(sum(x * x for x in raw)) / max(S, 1e-300)
    well = cond >= 1e-7
    dev = max_dev(ip[:4], ro["plane0"])
    stats["tolerance_stage_comparisons"] += 1
    if well:
        md["plane"] = max(md["plane"], dev)
        if dev > max(1e-12, 4e-15 / cond) * max(1.0, abs(ro["plane0"][3])):
            diffs.append(f"contact_plane: model {ip[:4]} implementation {ro['plane0']} (conditioning {cond:.3g})")
    else:
        tick("contact_plane: rounding-noise normal (same pressure field)")
    ipre = iso[1][0]
    dists = ipre[1:]
    tie_pre = any(abs(abs(s) - 1e-6) < 1e-9 for s in dists)
    if "pre" in ro and not tie_pre:
        stats["bit_exact_stage_comparisons"] += 1
        if bool(ipre[0]) != ro["pre"]:
            diffs.append(f"plane-crossing pre-check: model {bool(ipre[0])} implementation {ro['pre']} (distances {dists})")
    tick("pre-check: " + ("pass" if ro.get("pre") else "fail"))
    if "c2p" in ro:
        stats["bit_exact_stage_comparisons"] += 1
        if not same_bits(iso[2][0], flat(ro["c2p"])):
            diffs.append(f"plane_basis_from_normal: model {iso[2][0]} implementation {ro['c2p']}")
        tick("plane_basis: " + ("|n0|>=|n1|" if abs(ro["plane0"][0]) >= abs(ro["plane0"][1]) else "|n0|<|n1|"))
    if "hps" in ro:
        cand = iso[3]
        rows = ro["hps"]
        # align: candidate rows whose 2-D normal is clearly non-zero must appear, in order
        X8 = ro["X1"] + ro["X2"]
        x_ax, y_ax = ro["c2p"]
        k = 0
        okrows = True
        for ci, cr in enumerate(cand):
            f = X8[ci][:3]
            nrm = math.hypot(sum(f[i] * x_ax[i] for i in range(3)), sum(f[i] * y_ax[i] for i in range(3)))
            sc = math.sqrt(sum(x * x for x in f))
            clear = nrm > 1e-6 * sc
            if clear:
                tick("make_halfplanes: row kept")
                if cr[0] != cr[0]:
                    okrows = False
                    diffs.append(f"make_halfplanes: model drops face {ci} (|n2d| = {nrm})")
                    break
                if k >= len(rows):
                    okrows = False
                    diffs.append(f"make_halfplanes: implementation returns {len(rows)} rows, face {ci} missing")
                    break
                dv = max_dev(cr, rows[k])
                tol = 1e-9 * max(1.0, max(abs(x) for x in rows[k]))
                if dv > tol:
                    okrows = False
                    diffs.append(f"make_halfplanes: row {k} (face {ci}) model {cr} implementation {rows[k]}")
                    break
                md["halfplanes"] = max(md["halfplanes"], dv / max(1.0, max(abs(x) for x in rows[k])))
                k += 1
            else:
                tick("make_halfplanes: face parallel to the plane")
                # face parallel to the plane up to rounding: |n2d| is cancellation noise, the implementation
                # may or may not have built a row from it (direction = that noise); skip such a row
                if k < len(rows) and math.hypot(rows[k][2], rows[k][3]) <= 2e-6 * sc:
                    k += 1
        stats["tolerance_stage_comparisons"] += 1
        if okrows and k != len(rows):
            diffs.append(f"make_halfplanes: implementation returns {len(rows)} rows, model accounts for {k}")
    if "pts" in ro or "pts_exc" in ro:
        stats["bit_exact_stage_comparisons"] += 1
        if "pts_exc" in ro:
            # cannot happen any more (one buffer row per pair of halfplanes; C15_intersect_halfplanes_total)
            diffs.append(f"intersect_halfplanes: implementation raised AssertionError, model {iso[5]}")
        elif not same_bits(iso[5], ro["pts"]):
            diffs.append(f"intersect_halfplanes (on the implementation's halfplanes): model {iso[5]} implementation {ro['pts']}")
        tick("intersect_halfplanes: %d points" % len(ro.get("pts", [])))
    if "ordered" in ro:
        if ro.get("perm") is None or sorted(ro["perm"]) != list(range(len(ro["pts"]))):
            diffs.append("order_points: output is not a permutation of its input")
        elif not same_bits(iso[6], ro["ordered"]):
            diffs.append("order_points: permutation inconsistent")
        stats["bit_exact_stage_comparisons"] += 1
        if not same_bits(iso[7], ro["uniq"]):
            diffs.append(f"filter_unique_points: model {iso[7]} implementation {ro['uniq']}")
        tick("filter_unique_points: %s" % ("removed duplicates" if len(ro["uniq"]) < len(ro["ordered"]) else "none removed"))
        tick("polygon: %s" % (">= 3 vertices" if len(ro["uniq"]) >= 3 else "< 3 unique vertices"))
    elif "pts" in ro:
        tick("polygon: < 3 intersection points")
    if "poly3d" in ro:
        stats["tolerance_stage_comparisons"] += 1
        dv = max_dev(iso[8], ro["poly3d"])
        md["project"] = max(md["project"], dv)
        if dv > 1e-12 * L:
            diffs.append(f"project_polygon_to_3d: deviation {dv}")
        if ro["inter"] and not same_bits(ro["poly"], ro["poly3d"]):
            diffs.append("intersect_tetrahedron_pair returns a different polygon than its stages")
    if ro.get("inter") and ro.get("poly"):
        stats["tolerance_stage_comparisons"] += 1
        mf = iso[9][0]
        fs = max(1e-300, abs(Ea) * max(abs(x) for x in ea) * L * L)
        # barycentric solve of a badly shaped tetrahedron amplifies rounding: scale by its conditioning
        vol = abs(hg._vol6(ta))
        cond = max(1.0, hg._diam(ta) ** 3 / max(vol, 1e-300))
        dv_f = max_dev(mf[3:6], ro["force"]) / fs
        dv_c = max_dev(mf[:3], ro["com"]) / L
        dv_a = abs(mf[6] - ro["area"]) / (L * L)
        md["force"] = max(md["force"], dv_f, dv_a, dv_c)
        if dv_f > 1e-11 * cond or dv_a > 1e-11 or dv_c > 1e-10:
            diffs.append(f"compute_contact_force: model {mf} implementation com={ro['com']} force={ro['force']} area={ro['area']}")
        tick("compute_contact_force: %d triangles" % (len(ro["poly"]) - 2))
        tick("compute_contact_force: " + ("area > 0" if ro["area"] > 0 else "area == 0"))
    if ro.get("raised"):
        if "pts_exc" not in ro:
            diffs.append("intersect_tetrahedron_pair raised AssertionError but intersect_halfplanes on its halfplanes did not")
        if not (len(fin) == 1 and fin[0] in (-101.0, -102.0)):
            if not near_tie(ro, ta, tb):
                diffs.append(f"intersect_tetrahedron_pair raised AssertionError, chained model result {fin}")
        return diffs
    # ---- the public function against the chained model
    sig_impl = (bool(ro.get("same")), ro.get("pre"), len(ro.get("hps", [])) if "hps" in ro else None,
                len(ro["pts"]) if "pts" in ro else None, bool(ro["inter"]), len(ro["poly"]) if ro.get("poly") else 0)
    m_npts = None if (not st or st[0] != 0.0) else len(pts)
    sig_model = (bool(hd[4]), bool(pre[0]) if pre else None, len(hps) if pre else None, m_npts,
                 bool(fin[0] == 1.0), len(fpoly))
    # the worker's stages stop early exactly where the public function does; compare what both have
    comparable = well and sig_impl[0] == sig_model[0] and sig_impl[1] == sig_model[1] and \
        (not sig_impl[1] or (sig_impl[2] == sig_model[2] and sig_impl[3] == sig_model[3])) and sig_impl[4:] == sig_model[4:]
    if comparable:
        stats["chain_compared"] += 1
        if max_dev(fplane, ro["plane"]) > 1e-9 * max(1.0, abs(ro["plane"][3])):
            diffs.append(f"chained model plane {fplane} implementation {ro['plane']}")
        if ro["inter"]:
            tie = near_tie(ro, ta, tb)
            dvp = max_dev(fpoly, ro["poly"])
            if dvp > 1e-8 * L and not tie:
                diffs.append(f"chained model polygon deviates by {dvp}")
            if not tie:
                md["chain_poly"] = max(md["chain_poly"], dvp)
    else:
        if near_tie(ro, ta, tb) or not well:
            stats["chain_skipped_near_tie"] += 1
        else:
            diffs.append(f"chained model signature (same, pre, rows, points, inter, vertices) {sig_model} implementation {sig_impl}")
    return diffs


def targeted_search(R, tier):
    """the tie or a proof broke but no property failure was seen: bigger budget of the
    generators that reach the degenerate branches, judged by poly_cert only"""
    rng = R.rng
    cases = []
    for cls in hg.PAIR_CLASSES:
        for _ in range(250):
            cases.append(hg.tet_pair(rng, cls))
    res, _ = run_workers(cases, "search", per=60)
    exprs, idx = [], []
    pending, hits = [], [0]
    for i, (c, r) in enumerate(zip(cases, res)):
        if r is None or "exc" in r:
            R.failure(f"intersect_tetrahedron_pair raised {None if r is None else r.get('exc')}", c, site="intersect_tetrahedron_pair")
            continue
        for o, (ta, ea, tb, Ea) in (("o12", (c["t1"], c["e1"], c["t2"], c["E1"])), ("o21", (c["t2"], c["e2"], c["t1"], c["E2"]))):
            ro = r[o]
            if "expect_disjoint" in c:
                if ro["inter"]:
                    R.failure("disjoint tetrahedra reported as intersecting (search)", dict(c, result=ro), site="intersect_tetrahedron_pair")
                continue
            if ro["inter"] and finite(ro["plane"], ro["poly"], ro["force"]):
                exprs.append(cert_expr(ta, tb, ro["plane"], ro["poly"], ro["force"], tols_for(ta, tb, ea, Ea)))
                idx.append((i, o))
        a, b = r["o12"], r["o21"]
        L = scale_of(c["t1"], c["t2"])
        ok = True
        for o, ro, ta, tb in (("o12", a, c["t1"], c["t2"]), ("o21", b, c["t2"], c["t1"])):
            if "expect_disjoint" in c or ro.get("same") or ro.get("raised") or not (ro["inter"] or ro.get("pre")) or not finite(ro["plane"]):
                continue
            ok = check_area(R, hits, ta, tb, ro["plane"], ro["inter"], ro.get("area", 0.0), dict(c, result=ro, order=o), o + ", search",
                            key=i, pending=pending) and ok
        if ok and a["inter"] and b["inter"] and not a.get("same") and max(a["area"], b["area"]) > 1e-9 * L * L \
                and set_dist(a["poly"], b["poly"]) > 1e-9 * L:
            route_polygon_failure(R, hits, "contact polygon depends on the order of the tetrahedra (search)", dict(c, o12=a, o21=b),
                                  c["t1"], c["t2"], a["plane"], "intersect_tetrahedron_pair", key=i, pending=pending)
    # the candidates of the F26 input class: ask the model whether the recorded algorithm behaves the same on them
    stage_ok = {}
    keys = sorted({p["key"] for p in pending})[:60]
    m_exprs, m_idx = [], []
    for i in keys:
        c, r = cases[i], res[i]
        for o, (ta, ea, tb, eb, Ea, Eb) in (("o12", (c["t1"], c["e1"], c["t2"], c["e2"], c["E1"], c["E2"])),
                                            ("o21", (c["t2"], c["e2"], c["t1"], c["e1"], c["E2"], c["E1"]))):
            if finite(r[o]["X1"], r[o]["X2"], r[o].get("plane0", [])):
                m_exprs.append("(" + chain_expr(ta, ea, tb, eb, Ea, Eb, r[o]) + ", " + iso_expr(ta, ea, tb, eb, Ea, Eb, r[o]) + ")")
                m_idx.append((i, o, ta, ea, tb, eb, Ea, Eb))
    try:
        outs = hg.coq_eval(cm, PID, MODEL_HEADER, m_exprs, "search_model", max(4, len(m_exprs) // cm.NCPU + 1), 1500, BUILD_TARGETS)
        dummy = dict(bit_exact_stage_comparisons=0, tolerance_stage_comparisons=0, chain_compared=0, chain_skipped_near_tie=0,
                     max_dev=dict(plane=0.0, halfplanes=0.0, project=0.0, force=0.0, chain_poly=0.0, chain_force=0.0), unit_compared=0)
        for (i, o, ta, ea, tb, eb, Ea, Eb), txt in zip(m_idx, outs):
            stage_ok[(i, o)] = not compare_pair(hg.parse_coq_value(txt), cases[i], res[i][o], ta, ea, tb, eb, Ea, Eb, dummy, {})
    except RuntimeError as e:
        R.notes.append(f"search: model evaluation failed {str(e)[:200]}")
    resolve_pending(R, hits, [p for p in pending if p["key"] in keys], stage_ok)
    try:
        vs = hg.coq_eval(cm, PID, CERT_HEADER, exprs, "search", max(8, len(exprs) // (3 * cm.NCPU) + 1), 1500, BUILD_TARGETS)
        for (i, o), v in zip(idx, vs):
            bits = hg.parse_coq_value(v)
            if not all(bits):
                why = [CERT_BITS[j] for j, b in enumerate(bits) if not b]
                R.failure(f"poly_cert rejected the result ({o}, search): failed {why}", dict(cases[i], result=res[i][o]),
                          site="intersect_tetrahedron_pair")
                break
    except RuntimeError as e:
        R.notes.append(f"search: checker evaluation failed {str(e)[:200]}")
    return len(cases)
