"""C09 — Alternative distance algorithms agree with the true distance.

Per generated pair:
* gjk_distance_original's (d, a, b) is judged by the C01 certificate `dist_cert` at tau = 1e-3 L
  (a, b within tau of their colliders, | |a-b| - d | <= tau, no pair closer than d - tau);
* every value returned by the Nesterov family (gjk_nesterov_accelerated with and without
  Nesterov acceleration, gjk_nesterov_accelerated_distance, and the *_primitives variants on
  unwrapped sphere/capsule/box/ellipsoid/cylinder pairs; negative raw distances of the benchmark
  entry are clamped like the public wrapper does) is judged by `dist_values_cert`
  (Checker/NarrowB.v): a certified enclosure [lo, up] of the true distance from two untrusted
  member witnesses and one untrusted direction (taken from gjk_distance_jolt's result, else from
  gjk_distance_original's), and lo - tau <= value <= up + tau;
* the iteration-count helpers must follow the same answer path: gjk_distance_iterations ==
  gjk_distance_original(...)[4], gjk_nesterov_accelerated_iterations == gjk_nesterov_accelerated(...)[3],
  the *_distance wrappers == max(raw, 0) of the main entry, 2*gjk_distance_jolt_iterations ==
  support evaluations of gjk_distance_jolt.
"""
import json
import time
import math
from fractions import Fraction as Fr

import numpy as np

from .. import common as cm
from .. import narrow as nw
from .. import narrow_bool as nb
from .. import narrow_corr9 as ncorr9

PID = "C09"
PROOF_FILES = ["theories/Props/C09.v", "theories/Proofs/Nesterov.v", "theories/Proofs/NesterovLoop.v", "theories/Model/Nesterov.v",
               "theories/Model/NesterovLoop.v",
               "theories/Checker/NarrowB.v", "theories/Checker/Narrow.v", "theories/Checker/Shapes.v"]
TAU_K = 1e-3
ENC_K = 1e-5
NOCLIP = dict(max_distance_squared=1e300)
SPECIAL = nw.PRIMS
GENERIC = [k for k in nw.KINDS if k not in nw.PRIMS]


def prim_ok(spec):
    return spec["kind"] in nw.PRIMS and "margin" not in spec


def ops_for(s1, s2):
    ops = [dict(fn="jolt_full", kw=NOCLIP), dict(fn="jolt_iterations", kw=NOCLIP),
           dict(fn="original_full"), dict(fn="original_iterations"),
           dict(fn="nesterov_full", kw=dict(use_nesterov_acceleration=False)),
           dict(fn="nesterov_full", kw=dict(use_nesterov_acceleration=True)),
           dict(fn="nesterov_distance"), dict(fn="nesterov_iterations")]
    if prim_ok(s1) and prim_ok(s2):
        ops += [dict(fn="nesterov_prim_full", kw=dict(use_nesterov_acceleration=False)),
                dict(fn="nesterov_prim_full", kw=dict(use_nesterov_acceleration=True)),
                dict(fn="nesterov_prim_distance"), dict(fn="nesterov_prim_iterations")]
    return ops


def gen_cases(rng, tier):
    cases = []
    pairs = [(a, b) for a in nw.KINDS for b in nw.KINDS]
    mixed = [(a, b) for a in SPECIAL for b in GENERIC] + [(b, a) for a in SPECIAL for b in GENERIC]
    rng.shuffle(pairs)
    rng.shuffle(mixed)
    reps = 1 if tier == "quick" else 4
    absgaps = [1e-6, 1e-3, 0.03, 0.1, 1.0, 10.0, 100.0]
    for rep in range(reps):
        # every ordered kind pair: one constructed at a true distance, one overlapping
        for i, (k1, k2) in enumerate(pairs):
            st = rng.choice(["moderate", "moderate", "lattice", "random"])
            g = absgaps[(i + rep) % len(absgaps)]
            s1, s2, meta = nb.construct_gap(rng, k1, k2, 0.0, stream=st, abs_gap=g)
            meta.update(stream="truegap")
            cases.append(dict(c1=s1, c2=s2, meta=meta))
            if (i + rep) % 2 == 0:
                r = nb.construct_overlap(rng, k1, k2, [1.5, 4.0, 30.0][(i // 2 + rep) % 3], stream=st, margin_prob=0.3)
                if r is not None:
                    cases.append(dict(c1=r[0], c2=r[1], meta=r[2]))
        # every mixed specialised / generic pair (where F3 lived), incl. Margin-wrapped specialised kinds
        for i, (k1, k2) in enumerate(mixed):
            st = rng.choice(["moderate", "lattice", "random"])
            g = absgaps[(i + rep + 3) % len(absgaps)]
            s1, s2, meta = nb.construct_gap(rng, k1, k2, 0.0, stream=st, abs_gap=g, margin_prob=0.0)
            meta.update(stream="mixed")
            cases.append(dict(c1=s1, c2=s2, meta=meta))
        for i, (k1, k2) in enumerate([(a, b) for a in SPECIAL for b in SPECIAL]):
            st = rng.choice(["moderate", "lattice", "random"])
            g = absgaps[(i + rep + 1) % len(absgaps)]
            # unwrapped primitive pair (specialised supports + primitives variant) ...
            s1, s2, meta = nb.construct_gap(rng, k1, k2, 0.0, stream=st, abs_gap=g, margin_prob=0.0)
            meta.update(stream="prims")
            cases.append(dict(c1=s1, c2=s2, meta=meta))
            # ... and the same kinds with one side Margin-wrapped (type Margin: generic fallback)
            s1, s2, meta = nb.construct_gap(rng, k1, k2, 0.0, stream=st, abs_gap=g, margin_prob=0.0)
            if i % 2 == 0:
                s1 = dict(s1, margin=rng.choice([0.125, 0.25]))
                s2 = nw.translate_spec(s2, np.array(meta["dir"]) * s1["margin"])
            else:
                s2 = dict(s2, margin=rng.choice([0.125, 0.25]))
                s2 = nw.translate_spec(s2, np.array(meta["dir"]) * s2["margin"])
            meta.update(stream="mixed_margin", L=nw.scene_scale([s1, s2]))
            cases.append(dict(c1=s1, c2=s2, meta=meta))
    # needle / plate shaped colliders (aspect ratio up to 1e4, still inside D), at a true distance / touching / overlapping
    for i in range(60 if tier == "quick" else 500):
        k1, k2 = rng.choice(nw.KINDS), rng.choice(nw.KINDS)
        s1 = nb.aspect_collider(rng, k1)
        s2 = nb.aspect_collider(rng, k2) if rng.random() < 0.6 else nw.gen_collider(rng, k2, "moderate", spread=3.0)
        mode = rng.choice(["asis", "touch", "touch", "overlap"])
        if mode == "touch":
            u = nw.rand_unit(rng, rng.choice(["lattice", "random"]))
            g = rng.choice([1e-6, 1e-3, 0.1, 1.0, 10.0])
            s2 = nw.translate_spec(s2, nw.support_point(s1, u) + g * u - nw.support_point(s2, -u))
        elif mode == "overlap":
            s2 = nw.translate_spec(s2, nw.center_of(s1) - nw.center_of(s2))
        cases.append(dict(c1=s1, c2=s2, meta=dict(stream="aspect", sub=mode, kinds=[k1, k2])))
    # a small smooth collider in front of the interior of a face of a big hull / mesh (finding F-O1)
    for i in range(150 if tier == "quick" else 1200):
        r = nb.bigface_pair(rng)
        if r is not None:
            cases.append(dict(c1=r[0], c2=r[1], meta=r[2]))
    n_general = 60 if tier == "quick" else 800
    for _ in range(n_general):
        s1, s2, meta = nw.gen_pair(rng, tier)
        cases.append(dict(c1=s1, c2=s2, meta=meta))
    for c in cases:
        c["ops"] = ops_for(c["c1"], c["c2"])
    # exact lattice placements (parallel faces, shared axes, symmetric overlaps: Johnson's sub-algorithm fails to classify the
    # simplex and the backup procedure runs) - judged for gjk_distance_original only, to keep the cost low
    for i in range(320 if tier == "quick" else 2500):
        if i % 4 == 0:
            s1, s2, meta = nb.lattice_box_pair(rng, overlap=rng.choice([True, False, False]))
        else:
            s1, s2, meta = nw.gen_pair(rng, tier, stream="lattice", margin_prob=0.05)
        meta = dict(meta, stream="lattice_original")
        cases.append(dict(c1=s1, c2=s2, meta=meta, orig_only=True,
                          ops=[dict(fn="jolt_full", kw=NOCLIP), dict(fn="original_full"), dict(fn="original_iterations")]))
    return cases


def finite_pt(x):
    return x is not None and all(math.isfinite(v) for v in x)


def moved_lattice_search(R, tier):
    """Untrusted search in the class of finding F-N3 (lattice scenes under a random rigid motion, nb.moved_lattice_pair): many
    candidates are run through gjk_distance_jolt and gjk_nesterov_accelerated (with / without acceleration) only; every
    candidate on which two of them differ by more than tau/2 (or one raises) and a sample of the others become ordinary
    cases - judged like all cases, by the Coq certificates, with all operations.  The search decides WHAT is judged, never
    the verdict."""
    n = 2400 if tier == "quick" else 24000
    n_sample = 40 if tier == "quick" else 400
    cand = []
    for _ in range(n):
        s1, s2, meta = nb.moved_lattice_pair(R.rng)
        cand.append(dict(c1=s1, c2=s2, meta=meta,
                         ops=[dict(fn="jolt_full", kw=NOCLIP), dict(fn="nesterov_full", kw=dict(use_nesterov_acceleration=False)),
                              dict(fn="nesterov_full", kw=dict(use_nesterov_acceleration=True))]))
    res = nb.run_cases(PID, cand, tag="search", per_worker_min=40)
    hot, rest = [], []
    for c, rr in zip(cand, res):
        tau = TAU_K * nw.scene_scale([c["c1"], c["c2"]])
        ds = [max(r["d"], 0.0) for r in rr if "exc" not in r and r.get("d") is not None and math.isfinite(r["d"]) and r["d"] < 1e300]
        differs = any("exc" in r for r in rr) or (len(ds) >= 2 and max(ds) - min(ds) > 0.5 * tau)
        c = dict(c1=c["c1"], c2=c["c2"], meta=dict(c["meta"], search_hit=bool(differs)))
        (hot if differs else rest).append(c)
    step = max(1, len(rest) // n_sample)
    R.cov["moved_lattice_search"] = dict(candidates=n, differing_by_more_than_half_tau=len(hot), sampled_others=len(rest[::step]))
    return hot[:200] + rest[::step]


def nesterov_loop_correspondence(R, cases, tier):
    """Model/Nesterov.v (type dispatch) + Model/NesterovLoop.v (the loop and its three simplex projections), binary64
    inside coqc, replay the support pairs gjk_nesterov_accelerated obtained, pass by pass, with and without
    acceleration: directions, number of support evaluations, contact flag, distance and iteration count must
    agree (harness/narrow_corr9.py, harness/impl/narrowbtrace9.py)."""
    n = 80 if tier == "quick" else 700
    step = max(1, len(cases) // n)
    sel = cases[::step]
    # every unwrapped primitive pair as well: there the jitted *_primitives variant is run against the model
    sel += [c for c in cases if prim_ok(c["c1"]) and prim_ok(c["c2"]) and all(c is not x for x in sel)][: (80 if tier == "quick" else 700)]
    tc = [dict(c1=c["c1"], c2=c["c2"], kw={}, prim=prim_ok(c["c1"]) and prim_ok(c["c2"]), meta=c["meta"]) for c in sel]
    try:
        nwk = min(6, max(1, len(tc) // 12))
        chunks = [tc[i::nwk] for i in range(nwk)]
        res = cm.run_impl_parallel(PID, "narrowbtrace9", [dict(cases=ch) for ch in chunks], timeout=1500, tag="trace9")
        out = [None] * len(tc)
        for w, (rr, ch) in enumerate(zip(res, chunks)):
            if rr["status"] != "ok":
                continue
            for i, x in zip(range(w, len(tc), nwk), rr["result"]["results"]):
                out[i] = x
        keep = [(c, o) for c, o in zip(tc, out) if o is not None]
        lost = len(tc) - len(keep)
        tc, out = [k[0] for k in keep], [k[1] for k in keep]
        try:
            stats, mism = ncorr9.compare(PID, tc, out, R.rng, lambda c: c["meta"]["L"])
        except RuntimeError as e:
            if "inconsistent assumptions" not in str(e):
                raise
            cm.coq_build(["theories/Model/NesterovLoopRun.vo"])
            stats, mism = ncorr9.compare(PID, tc, out, R.rng, lambda c: c["meta"]["L"])
    except RuntimeError as e:
        R.corr_broken.append(f"Nesterov loop model could not be evaluated: {str(e)[:300]}")
        return
    stats["worker_lost"] = lost
    R.cov["nesterov_loop_correspondence"] = stats
    R.cov["traces_validated_against_impl"] = stats.get("matched", 0)
    try:
        pst, pmism = ncorr9.compare_prim(PID, tc, out, R.rng, lambda c: c["meta"]["L"])
        R.cov["nesterov_primitives_model_runs"] = pst
        R.cov["traces_validated_against_impl"] += pst.get("matched", 0)
        if pmism:
            sub = sorted({m[0] for m in pmism})
            st2, pm2 = ncorr9.compare_prim(PID, [tc[i] for i in sub], [out[i] for i in sub], R.rng, lambda c: c["meta"]["L"],
                                           tag="primcorr2", npert=24)
            R.cov["nesterov_primitives_second_look"] = st2
            for (j, k, why) in pm2[:5]:
                c = tc[sub[j]]
                R.corr_broken.append(f"Model/NesterovLoop.v (run from get_minkowski_diff) vs gjk_nesterov_accelerated_primitives "
                                     f"(use_nesterov_acceleration={k == 'prim_acc'}): {why[:600]} on c1={json.dumps(c['c1'])} c2={json.dumps(c['c2'])}")
    except RuntimeError as e:
        R.corr_broken.append(f"Nesterov primitives model could not be evaluated: {str(e)[:300]}")
    if mism:
        sub = sorted({m[0] for m in mism})
        st2, mism2 = ncorr9.compare(PID, [tc[i] for i in sub], [out[i] for i in sub], R.rng, lambda c: c["meta"]["L"],
                                    tag="nestcorr2", npert=24)
        R.cov["nesterov_loop_correspondence_second_look"] = st2
        R.cov["nesterov_loop_first_look_differences"] = [f"{k}: {why[:400]}" for (_, k, why) in mism[:5]]
        for (j, k, why) in mism2[:5]:
            c = tc[sub[j]]
            R.corr_broken.append(f"Model/NesterovLoop.v vs gjk_nesterov_accelerated (use_nesterov_acceleration={k == 'acc'}): "
                                 f"{why[:600]} on c1={json.dumps(c['c1'])} c2={json.dumps(c['c2'])}")


def projection_correspondence(R, tier, pid=PID):
    """unit correspondence: /repo's project_line_origin / project_triangle_origin / project_tetra_to_origin (both Nesterov
    modules) against Model/NesterovLoop.v on generated simplices, incl. tetrahedra directed at EVERY leaf of the 46-leaf tree (43 before the F-N3 repair)"""
    try:
        stats, mism, hits = ncorr9.compare_projections(pid, R.rng, 600 if tier == "quick" else 4000,
                                                       per_leaf=8 if tier == "quick" else 40)
    except RuntimeError as e:
        R.corr_broken.append(f"projection correspondence could not be evaluated: {str(e)[:300]}")
        return
    stats["statement_coverage_of_the_projections"] = ncorr9.projection_leaf_coverage(cm.REPO, hits)
    R.cov["projection_unit_correspondence"] = stats
    for (i, name, why, P) in mism[:5]:
        mod = "_gjk_nesterov_accelerated.py" if name == "generic" else "_gjk_nesterov_accelerated_primitives.py"
        R.failure(f"simplex projection of {mod} differs from the model Model/NesterovLoop.v on a {len(P)}-point simplex: {why[:500]}",
                  dict(simplex=P, module=mod), site=f"{mod}:project_{ {2: 'line', 3: 'triangle', 4: 'tetra_to'}[len(P)] }_origin")
    # the invariant the partial convergence theorem assumes, monitored on the code: in GJK-reachable states, at every leaf,
    # |ray| returned by project_tetra_to_origin is the distance of the simplex from the origin (Coq-certified per tetrahedron)
    try:
        st, fails = ncorr9.projection_soundness(pid, R.rng, per_leaf=3 if tier == "quick" else 24,
                                                budget=15000 if tier == "quick" else 150000)
    except RuntimeError as e:
        R.proof_broken.append(f"projection soundness certificates could not be evaluated: {str(e)[:300]}")
        return
    R.cov["projection_soundness"] = st
    for (P, vals, g, leaf) in fails[:5]:
        R.failure(f"project_tetra_to_origin (leaf {leaf}) returns |ray| = {vals} for a tetrahedron in a GJK-reachable state whose "
                  f"distance from the origin is {g!r} (certified by dist_values_cert on Hull(simplex) vs the origin, tau = 1e-6 * size): "
                  f"the Nesterov loop takes |ray| for its upper bound / convergence exit value (finding F-N3 was of this kind)",
                  dict(simplex=P, values=vals, closest=g, leaf=str(leaf)), site="project_tetra_to_origin")


def run(tier, seed, replay=None):
    R = cm.Run(PID, "translation_validation", tier, seed)
    _t = [time.time()]
    R.cov["phase_s"] = {}

    def phase(name):
        R.cov["phase_s"][name] = round(time.time() - _t[0], 1)
        _t[0] = time.time()
    R.cov["rule"] = (
        "case = ordered pair of colliders (10 kinds, optional Margin). Streams: every ordered kind pair constructed at a TRUE "
        "distance from {1e-6,1e-3,0.03,0.1,1,10,100} (facing support points) and overlapping at depth k*1e-3L; every mixed "
        "specialised/generic pair (F3) incl. Margin-wrapped specialised kinds; all 25 unwrapped primitive pairs; the general "
        "streams of narrow.gen_pair (random, lattice, moderate, wide, plane gaps). distinct by canonical hash; non-trivial = "
        "both certificates of the case evaluated inside coqc (enclosure certified)")
    R.assumptions += [
        "the verdict per input is a Coq theorem (dist_cert_sound / dist_values_cert_sound) applied to the implementation's output; universality over inputs comes from generation",
        "the Nesterov values are accepted within tau + enclosure width (<= 1.02e-3 L) of the true distance: the enclosure [lo, up] has width 2e-5 L and the test is lo - tau <= v <= up + tau, so a value within tau of the truth is never rejected",
        "witnesses are taken from gjk_distance_jolt / gjk_distance_original results and are untrusted; a pair whose enclosure cannot be certified is not judged for the Nesterov values (counted)",
        "the Frank-Wolfe loop of the Nesterov variants and the Johnson sub-algorithm of gjk_distance_original are not modelled; the Coq theorems about the algorithm cover the type dispatch only",
    ]
    R.check_proofs(PROOF_FILES, build_targets=["theories/Props/C09.vo", "theories/Model/NesterovLoopRun.vo"])
    cases = []
    corpus = cm.VERIF / "corpus" / PID
    if replay:
        c = nb.load_case(replay)
        c = {k: v for k, v in c.items() if k in ("c1", "c2", "meta")}
        c.setdefault("meta", {})
        cases.append(c)
    else:
        if corpus.exists():
            for f in sorted(corpus.glob("*.json")):
                c = nb.load_case(f)
                c = {k: v for k, v in c.items() if k in ("c1", "c2", "meta")}
                c.setdefault("meta", {})
                cases.append(c)
        cases += gen_cases(R.rng, tier)
        phase("proofs+generation")
        R.cov["jit_warmup"] = nb.warm(PID)
        phase("jit_warmup")
        cases += moved_lattice_search(R, tier)
        phase("moved_lattice_search")
    for c in cases:
        if not c.get("orig_only"):
            c["ops"] = ops_for(c["c1"], c["c2"])
        c["meta"]["L"] = nw.scene_scale([c["c1"], c["c2"]])
    phase("case_setup")
    if "jit_warmup" not in R.cov:
        R.cov["jit_warmup"] = nb.warm(PID)
        phase("jit_warmup")
    results = nb.run_cases(PID, cases)
    R.cov["evaluations"] = len(cases)
    phase("implementation")

    exprs, idx = [], []
    hist = {}
    path_checks = 0

    def bump(k):
        hist[k] = hist.get(k, 0) + 1

    for i, (c, rr) in enumerate(zip(cases, results)):
        s1, s2, L = c["c1"], c["c2"], c["meta"]["L"]
        tau = Fr(TAU_K) * Fr(L)
        byfn = {}
        for op, r in zip(c["ops"], rr):
            key = r["fn"] + ("+acc" if op.get("kw", {}).get("use_nesterov_acceleration") else "")
            byfn[key] = r
            if "exc" in r and r["fn"] not in ("jolt_full", "jolt_iterations"):
                bump(f"{key}:EXC:{r['exc']}")
                R.failure(f"{key} raised {r['exc']}: {r.get('exc_msg', '')}", dict(c1=s1, c2=s2, meta=c["meta"], result=r),
                          site=key)
        A, B = nw.sh_expr(s1), nw.sh_expr(s2)
        # ---- gjk_distance_original
        ro = byfn.get("original_full", {})
        if "exc" not in ro and ro:
            if not (math.isfinite(ro["d"]) and finite_pt(ro["a"]) and finite_pt(ro["b"])):
                R.failure("gjk_distance_original returned a non-finite result", dict(c1=s1, c2=s2, meta=c["meta"], result=ro),
                          site="gjk_distance_original")
            else:
                exprs.append(f"dist_cert {A} {B} {nw.wit_expr(s1, ro['a'])} {nw.wit_expr(s2, ro['b'])} "
                             f"{nw.vq(ro['a'])} {nw.vq(ro['b'])} {nw._q(ro['d'])} {nw._q(tau)}")
                idx.append((i, "orig", None))
        # ---- Nesterov values against a certified enclosure
        vals, names = [], []
        for key in ("nesterov_full", "nesterov_full+acc", "nesterov_distance", "nesterov_prim_full", "nesterov_prim_full+acc",
                    "nesterov_prim_distance"):
            r = byfn.get(key)
            if r is None or "exc" in r:
                continue
            if not math.isfinite(r["d"]):
                R.failure(f"{key} returned a non-finite distance {r['d']!r}", dict(c1=s1, c2=s2, meta=c["meta"], result=r), site=key)
                continue
            vals.append(max(r["d"], 0.0))
            names.append(key)
        ref = None
        rj = byfn.get("jolt_full", {})
        for cand in (rj, ro):
            if cand and "exc" not in cand and cand.get("a") is not None and math.isfinite(cand["d"]) and finite_pt(cand["a"]) \
                    and finite_pt(cand["b"]) and cand["d"] < 1e300:
                ref = cand
                break
        if vals and ref is not None:
            dj = ref["d"]
            eps = ENC_K * L
            lo, up = max(0.0, dj - eps), dj + eps
            n = (np.array(ref["b"]) - np.array(ref["a"])).tolist()
            if all(x == 0 for x in n):
                n = [1.0, 0.0, 0.0]
            e = (f"dist_values_cert {A} {B} {nw.wit_expr(s1, ref['a'])} {nw.wit_expr(s2, ref['b'])} {nw.vq(n)} "
                 f"{nw._q(lo)} {nw._q(up)} [{'; '.join(nw._q(v) for v in vals)}] {nw._q(tau)}")
            exprs.append(e)
            # alternative untrusted witnesses, used only if the first enclosure is not certified
            alts = []
            if ref is rj and ro and "exc" not in ro and finite_pt(ro.get("a")) and finite_pt(ro.get("b")) and math.isfinite(ro["d"]):
                alts.append(dict(a=ro["a"], b=ro["b"], d=ro["d"], src="gjk_distance_original"))
            if c["meta"].get("dir") is not None and c["meta"].get("gap") is not None and c["meta"]["gap"] >= 0:
                u = np.array(c["meta"]["dir"], float)
                pa, pb = nw.support_point(s1, u), nw.support_point(s2, -u)
                alts.append(dict(a=pa.tolist(), b=pb.tolist(), d=float(np.linalg.norm(pb - pa)), src="construction"))
            idx.append((i, "nest", dict(names=names, vals=vals, lo=lo, up=up, A=A, B=B, wa=nw.wit_expr(s1, ref['a']),
                                        wb=nw.wit_expr(s2, ref['b']), n=n, alts=alts, tau=tau,
                                        src="gjk_distance_jolt" if ref is rj else "gjk_distance_original")))
        elif vals:
            bump("nesterov:no_reference")
        # ---- same answer path
        def same(a_key, a_field, b_val, what):
            nonlocal path_checks
            ra = byfn.get(a_key)
            if ra is None or "exc" in ra or b_val is None:
                return
            path_checks += 1
            if ra[a_field] != b_val:
                R.failure(f"{what}: {ra[a_field]!r} != {b_val!r}", dict(c1=s1, c2=s2, meta=c["meta"]), site=a_key)
        if "exc" not in ro and ro:
            same("original_iterations", "iterations", ro.get("iterations"), "gjk_distance_iterations != gjk_distance_original(...)[4]")
        rn = byfn.get("nesterov_full")
        if rn and "exc" not in rn:
            same("nesterov_iterations", "iterations", rn["iterations"], "gjk_nesterov_accelerated_iterations != gjk_nesterov_accelerated(...)[3]")
            same("nesterov_distance", "d", max(rn["d"], 0.0), "gjk_nesterov_accelerated_distance != max(gjk_nesterov_accelerated(...)[1], 0)")
        rp = byfn.get("nesterov_prim_full")
        if rp and "exc" not in rp:
            same("nesterov_prim_iterations", "iterations", rp["iterations"], "primitives_iterations != primitives(...)[3]")
            same("nesterov_prim_distance", "d", max(rp["d"], 0.0), "primitives_distance != max(primitives(...)[1], 0)")
        rji = byfn.get("jolt_iterations")
        if rj and "exc" not in rj and rji and "exc" not in rji:
            path_checks += 1
            if 2 * rji["iterations"] != rj["support_calls"]:
                R.failure(f"gjk_distance_jolt_iterations = {rji['iterations']} but gjk_distance_jolt made {rj['support_calls']} support evaluations",
                          dict(c1=s1, c2=s2, meta=c["meta"]), site="gjk_distance_jolt_iterations")
        st = c["meta"].get("stream", "corpus")
        bump("stream:" + st)
        if rn and "exc" not in rn:
            k1, k2 = s1["kind"], s2["kind"]
            both = prim_ok(s1) and prim_ok(s2)
            bump("dispatch:" + ("specialized" if both else "generic"))
    try:
        verdicts = nb.coq_eval_retry(PID, nb.COQ_HEADER, exprs, "cert", 20, ["theories/Props/C09.vo"])
    except RuntimeError as e:
        R.proof_broken.append(f"checker evaluation failed: {str(e)[:400]}")
        verdicts = []
    phase("certificates_in_coq")
    distinct = set()
    rejected = 0
    ok_by_case = {}
    redo = []
    for (i, kind, info), v in zip(idx, verdicts):
        c = cases[i]
        if v.strip() == "true":
            ok_by_case.setdefault(i, set()).add(kind)
            bump(f"{kind}:accepted")
            continue
        if kind == "orig":
            rejected += 1
            bump("orig:rejected")
            r = [r for r in results[i] if r["fn"] == "original_full"][0]
            R.failure(f"dist_cert (tau = 1e-3 L) rejected gjk_distance_original's result d={r['d']!r}",
                      dict(c1=c["c1"], c2=c["c2"], meta=c["meta"], result={k: r.get(k) for k in ("d", "a", "b", "iterations")}),
                      site="gjk_distance_original")
        else:
            redo.append((i, info))
    # rejected value certificates: is it the enclosure (untrusted witnesses too weak) or a value?
    if redo:
        ex2 = [f"enclosure_cert {info['A']} {info['B']} {info['wa']} {info['wb']} {nw.vq(info['n'])} {nw._q(info['lo'])} {nw._q(info['up'])}"
               for _, info in redo]
        try:
            enc = cm.coq_eval_lines(PID, nb.COQ_HEADER, ex2, tag="explain", per_file=20, timeout=1500)
        except RuntimeError as e:
            R.proof_broken.append(f"checker evaluation failed: {str(e)[:400]}")
            enc = ["false"] * len(redo)
        # second chance for the cases whose first enclosure was not certified: other untrusted witnesses
        second, second_idx = [], []
        for k, ((i, info), v) in enumerate(zip(redo, enc)):
            if v.strip() == "true":
                continue
            L = cases[i]["meta"]["L"]
            for alt in info["alts"]:
                eps = ENC_K * L
                lo2, up2 = max(0.0, alt["d"] - eps), alt["d"] + eps
                n2 = (np.array(alt["b"]) - np.array(alt["a"])).tolist()
                if all(x == 0 for x in n2):
                    n2 = [1.0, 0.0, 0.0]
                wa2, wb2 = nw.wit_expr(cases[i]["c1"], alt["a"]), nw.wit_expr(cases[i]["c2"], alt["b"])
                second.append(f"enclosure_cert {info['A']} {info['B']} {wa2} {wb2} {nw.vq(n2)} {nw._q(lo2)} {nw._q(up2)}")
                second.append(f"dist_values_cert {info['A']} {info['B']} {wa2} {wb2} {nw.vq(n2)} {nw._q(lo2)} {nw._q(up2)} "
                              f"[{'; '.join(nw._q(x) for x in info['vals'])}] {nw._q(info['tau'])}")
                second_idx.append((k, alt, lo2, up2))
        sec_out = {}
        if second:
            try:
                so = cm.coq_eval_lines(PID, nb.COQ_HEADER, second, tag="explain2", per_file=20, timeout=1500)
            except RuntimeError as e:
                R.proof_broken.append(f"checker evaluation failed: {str(e)[:400]}")
                so = ["false"] * len(second)
            for j, (k, alt, lo2, up2) in enumerate(second_idx):
                if k in sec_out:
                    continue
                if so[2 * j].strip() == "true":
                    sec_out[k] = (so[2 * j + 1].strip() == "true", alt, lo2, up2)
        for k, ((i, info), v) in enumerate(zip(redo, enc)):
            c = cases[i]
            L = c["meta"]["L"]
            if v.strip() != "true":
                if k not in sec_out:
                    bump("nest:enclosure_not_certified")
                    continue
                ok2, alt, lo2, up2 = sec_out[k]
                bump(f"nest:first_reference_rejected({info['src']})_second({alt['src']})_certified")
                R.notes.append(f"the result of {info['src']} did not certify an enclosure but {alt['src']} did (true distance in "
                               f"[{lo2!r}, {up2!r}], {info['src']} said [{info['lo']!r}, {info['up']!r}]): "
                               f"c1={json.dumps(c['c1'])} c2={json.dumps(c['c2'])}"[:1500])
                if ok2:
                    ok_by_case.setdefault(i, set()).add("nest")
                    bump("nest:accepted")
                    continue
                info = dict(info, lo=lo2, up=up2)
            rejected += 1
            bump("nest:rejected")
            tau = TAU_K * L
            badv = [(nm, vv) for nm, vv in zip(info["names"], info["vals"]) if not (info["lo"] - tau <= vv <= info["up"] + tau)]
            R.failure(f"Nesterov value(s) outside the certified enclosure [{info['lo']!r}, {info['up']!r}] +- tau={tau!r}: {badv}",
                      dict(c1=c["c1"], c2=c["c2"], meta=c["meta"], values=dict(zip(info["names"], info["vals"]))),
                      site=badv[0][0] if badv else "nesterov")
    for i, kinds in ok_by_case.items():
        if "nest" in kinds:
            distinct.add(cm.canon_hash([cases[i]["c1"], cases[i]["c2"]]))
    R.cov["programs"] = len(idx)
    R.cov["disagreements_checked"] = rejected
    R.cov["distinct_nontrivial"] = len(distinct)
    R.cov["answer_path_checks"] = path_checks
    R.cov["histogram"] = dict(sorted(hist.items()))
    for c, rr in list(zip(cases, results))[:3]:
        R.sample(dict(c1=c["c1"], c2=c["c2"], meta=c["meta"],
                      result={r["fn"] + str(op.get("kw", "")): {k: r.get(k) for k in ("d", "iterations", "contact", "exc") if k in r}
                              for op, r in zip(c["ops"], rr)}))
    phase("judging")
    nesterov_loop_correspondence(R, cases, tier)
    phase("nesterov_correspondence")
    if not replay:
        projection_correspondence(R, tier)
        phase("projection_unit_correspondence")
    return R.finish()
