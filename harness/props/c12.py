"""C12 — results are symmetric in the arguments and invariant under rigid motion (and scale
with a uniform scaling of the scene).

Metamorphic check of the IMPLEMENTATION: every generated scene is queried in four forms
  orig   f(A, B)
  swap   f(B, A)                        (fresh objects, and again on the SAME two objects)
  move   f(g.A, g.B)   g = (R, t) a proper rigid motion: random rotation or one of the 24 axis
                       permutations (optionally followed by a 45 degree turn), |t| such that the
                       scene stays within 1e3 of the origin
  scale  f(s.A, s.B)   s in [1e-2, 1e2] (half of them powers of two) such that every size stays
                       inside the declared domain
and the answers are compared with the tolerance of the property that specifies the query:
  C01 gjk_distance_jolt 1e-5 L | C09 gjk_distance_original, Nesterov distances 1e-3 L |
  C02 booleans: identical outside the band of 1e-3 L around grazing contact |
  C07 EPA |mtv| 1e-6 L (success in all forms, simplex complete) | C08 MPR depth 2e-3 L |
  C10/C11 the 34 functions of distance3d.distance: d 1e-6 L (5e-3 L for the bisection-based
  line_to_circle family), points 1e-9 L.
Scalars (distance, depth, booleans) are always compared.  Points / vectors are compared
directly; where they differ (the optimum is not unique or ill-conditioned: parallel faces,
overlap, concentric shapes) the verdict falls back on relations that are consequences of the
specifying property for ANY optimal answer, so the check cannot raise a false alarm:
  * the returned points of the transformed query, mapped back with g^-1 (resp. exchanged for
    swap), are points of the ORIGINAL shapes within the property's tolerance (Coq-proven
    checker Checker/Shapes.in_shape_tol for colliders, exact fractions oracle of primlib for
    the primitives) -- a result left in a local frame or not exchanged fails here;
  * for convex pairs the difference vector a-b is determined up to
    rho = 2 tau + sqrt(8 d tau + 16 tau^2) (min-norm point of a convex set), so
    |g(a-b) - (a'-b')| <= rho + rho';
  * EPA: the extent of A-B along the mapped-back direction of mtv' exceeds |mtv'| by at most
    tau + D sqrt(4 tau/|mtv'|).
Stream "nearid" (all 34 distance functions, weighted towards those taking a 4x4 pose, and collider scenes): the frames of
both arguments are within 1e-9 .. 1e-5 rad of the identity / of an axis permutation (or exactly so) and the scene is moved by
(identity | near-identity | axis permutation) + a translation of up to 985, or sits up to 985 from the origin and is moved by an
arbitrary rotation: an absolute tolerance on a rotation block (a "pure translation" shortcut) shows as angle * |translation|.
Known findings of the specifying properties are not re-reported: the same input-class
predicates are evaluated (C11 F8/F10/F11/F22/F23, C10 F20/F21 via harness/props/c11.py,
c10.py; C07 F2 = gjk left its loop with fewer than 4 simplex points) and the skipped
comparisons are counted.
"""
import json
import math
from fractions import Fraction as Fr

import numpy as np

from .. import common as cm
from .. import narrow as nw
from .. import primlib as pl
from . import c10, c11

PID = "C12"
PROOF_FILES = ["theories/Props/C12.v", "theories/Proofs/Equivariance.v", "theories/Proofs/EquivarianceSupport.v",
               "theories/Proofs/EquivarianceDist.v"]
CLIP_DIST = math.sqrt(100000.0)
MAX_FLOAT_ISH = 1e300

# tolerance factor k (tolerance = k * L) of the property that specifies each query
K_DIST = dict(gjk_jolt=1e-5, gjk_original=1e-3, nesterov_distance=1e-3, nesterov_prim_distance=1e-3,
              nesterov=1e-3, nesterov_prim=1e-3)
K_EPA = 1e-6
K_MPR = 2e-3
K_BAND = 1e-3
BOOL_OPS = ["isect_jolt", "isect_libccd", "isect_mpr", "isect_nesterov", "isect_nesterov_prim"]
DIST_OPS = ["gjk_jolt", "gjk_original", "nesterov_distance", "nesterov_prim_distance", "nesterov", "nesterov_prim"]
POLY = ["box", "hull", "mesh"]


C07_KNOWN = set()      # filled in run(): recorded findings of C07 whose input classes are skipped here
C09_KNOWN = set()
C18_ILLCOND = [False]
FN3 = [False]


# ============================================================================= colliders: generation
def spec_sizes(spec):
    out = []
    for k in ("radius", "height", "length", "margin"):
        if k in spec:
            out.append(spec[k])
    for k in ("radii", "size"):
        if k in spec:
            out += list(spec[k])
    if "vertices" in spec:
        out.append(nw.feature_size(spec) - spec.get("margin", 0.0))
    return out


def far_of(specs):
    return max(float(np.linalg.norm(nw.center_of(s))) + 0.0 for s in specs)


def gen_motion(rng, far, lattice_t=False):
    st = rng.choice(["random", "random", "lattice"])
    Rm = nw.rand_rotation(rng, st)
    rad = max(0.0, min(rng.choice([1.0, 10.0, 100.0, 1000.0]), 990.0 - far))
    v = nw.rand_unit(rng) * rng.uniform(0, rad)
    if st == "lattice" or lattice_t:
        v = np.round(v * 4) / 4
    return Rm, v


def gen_scale(rng, sizes, far, lo_dom, hi_dom):
    lo = max(1e-2, lo_dom * 1.0001 / min(sizes)) if sizes else 1e-2
    hi = min(1e2, hi_dom * 0.9999 / max(sizes)) if sizes else 1e2
    hi = min(hi, 990.0 / max(far, 1e-9))
    if lo >= hi:
        return 1.0
    if rng.random() < 0.5:
        ks = [k for k in range(-7, 8) if lo <= 2.0 ** k <= hi and k != 0]
        if ks:
            return 2.0 ** rng.choice(ks)
    return math.exp(rng.uniform(math.log(lo), math.log(hi)))


def is_prim_pair(s1, s2):
    return all(s["kind"] in nw.PRIMS and "margin" not in s for s in (s1, s2))


def gen_scene(rng, tier):
    u = rng.random()
    if u < 0.30:     # overlapping polytopes: EPA succeeds there
        s1, s2, meta = nw.gen_pair(rng, tier, kinds=POLY, stream="gap", gap=rng.choice([-1e-3, -0.05, -0.1, -0.3, -1.0, -1.0]),
                                   margin_prob=0.0)
        meta["stream"] = "pen"
    elif u < 0.40:   # overlapping, any kind
        s1, s2, meta = nw.gen_pair(rng, tier, stream="gap", gap=rng.choice([-0.05, -0.1, -0.3, -1.0]))
        meta["stream"] = "pen-any"
    elif u < 0.50:   # primitives accepted by the Nesterov primitives variant
        s1, s2, meta = nw.gen_pair(rng, tier, kinds=nw.PRIMS, margin_prob=0.0)
    else:
        s1, s2, meta = nw.gen_pair(rng, tier)
    if meta.get("identical") and rng.random() < 0.5:
        meta["same_object"] = True       # the same Python object is passed as both arguments
    Rm, t = gen_motion(rng, far_of([s1, s2]), lattice_t=meta["stream"] == "lattice")
    s = gen_scale(rng, spec_sizes(s1) + spec_sizes(s2), far_of([s1, s2]), 1e-2, 1e2)
    return dict(part="narrow", c1=s1, c2=s2, meta=meta, R=Rm.tolist(), t=[float(x) for x in t], s=float(s))


def own_axes(spec):
    """the collider's own axis directions as the floats stored in its specification (exact unit axis vectors for the
    axis-permutation poses of the lattice stream)"""
    out = []
    if "pose" in spec:
        T = np.array(spec["pose"], float)
        out += [T[:3, k].tolist() for k in range(3)]
    if "normal" in spec:
        out.append(list(spec["normal"]))
    if "axes" in spec:
        out += [list(a) for a in spec["axes"]]
    return out


def gen_support_scene(rng):
    """closed-form layer only: support function and centre of two colliders, queried along their OWN axes (exactly axial
    directions: the degenerate arms s == 0 / zero lateral component of the support functions), the coordinate axes and a few
    lattice / random directions"""
    st = rng.choice(["lattice", "lattice", "lattice", "random"])
    s1 = nw.gen_collider(rng, rng.choice(nw.KINDS), st, margin_prob=0.1)
    s2 = nw.gen_collider(rng, rng.choice(nw.KINDS), st, margin_prob=0.1)
    dirs = []
    for sp in (s1, s2):
        for a in own_axes(sp):
            dirs.append(a)
            dirs.append([-x for x in a])
    dirs += [nw.rand_unit(rng, "lattice").tolist() for _ in range(2)] + [nw.rand_unit(rng).tolist()]
    meta = dict(stream="support-" + st, kinds=[s1["kind"], s2["kind"]], L=nw.scene_scale([s1, s2]))
    Rm, t = gen_motion(rng, far_of([s1, s2]), lattice_t=st == "lattice")
    s = gen_scale(rng, spec_sizes(s1) + spec_sizes(s2), far_of([s1, s2]), 1e-2, 1e2)
    return dict(part="narrow", only_support=True, c1=s1, c2=s2, meta=meta, R=Rm.tolist(), t=[float(x) for x in t], s=float(s), dirs=dirs)


# ----------------------------------------------------------------------------- near-identity frames far from the origin
# A pose whose rotation block is within 1e-5 rad of the identity (accumulated joint transforms, calibration results) is a
# perfectly valid pose; code that inverts / composes poses must treat it like any other.  An absolute tolerance on the
# rotation ("trace(R) > 3 - eps => pure translation") is invisible near the origin and for ordinary rotations: its effect is
# angle * |translation|.  This stream therefore pairs such frames with translations up to the 1e3 the domain allows.
I3 = [[1.0, 0.0, 0.0], [0.0, 1.0, 0.0], [0.0, 0.0, 1.0]]
COORD_AXES = [[1.0, 0.0, 0.0], [0.0, 1.0, 0.0], [0.0, 0.0, 1.0], [-1.0, 0.0, 0.0], [0.0, -1.0, 0.0], [0.0, 0.0, -1.0]]
POSED = ("box", "ellipsoid", "cylinder")
NEARID_FUNCS = [f for f in pl.FUNCS if any(k in POSED for k in pl.kinds_of(f))]


def near_identity_rot(rng, ident=0.12, perm=0.12):
    """a rotation matrix (nested lists): exactly the identity, exactly an axis permutation, or a turn by 1e-9 .. 1e-5 rad
    about a coordinate / random axis (optionally composed with an axis permutation)"""
    u = rng.random()
    if u < ident:
        return [list(r) for r in I3]
    if u < ident + perm:
        return [list(r) for r in rng.choice(pl.PERM_ROT)]
    ang = 10 ** rng.uniform(-9.0, -5.0)
    ax = list(rng.choice(COORD_AXES)) if rng.random() < 0.3 else pl.unit([rng.gauss(0, 1) for _ in range(3)])
    M = pl.axis_angle(ax, ang)
    if rng.random() < 0.2:
        M = pl.matmul(M, rng.choice(pl.PERM_ROT))
    return M


def far_translation(rng, far):
    """translation of length up to 985 - far (mostly large), random / along a coordinate axis / on the quarter lattice"""
    rad = max(0.0, 985.0 - far)
    r = rad * (rng.uniform(0.3, 1.0) if rng.random() < 0.8 else rng.uniform(0.0, 0.3))
    u = list(rng.choice(COORD_AXES)) if rng.random() < 0.15 else pl.unit([rng.gauss(0, 1) for _ in range(3)])
    t = [r * x for x in u]
    if rng.random() < 0.3:
        t = [round(4 * x) / 4 for x in t]
    return t


def gen_nearid_prim_scene(rng, fn):
    """distance3d.distance call whose primitives' frames are near-identity rotations; either the scene sits near the origin
    and the motion is (identity | near-identity | axis permutation) + a far translation, or the scene itself sits far out
    and the motion is an arbitrary rotation"""
    ka, kb = pl.kinds_of(fn)
    far_scene = rng.random() < 0.35
    for _ in range(60):
        mode = rng.choice(["lattice", "lattice", "random"])
        if mode == "lattice":
            o = [rng.choice([0.0, 0.0, 1.0, -2.0]) for _ in range(3)]
            off = [rng.choice(pl.LAT_OFFS) for _ in range(3)]
            size = None
        else:
            size = 10 ** rng.uniform(-0.5, 0.7)
            o = [rng.uniform(-3, 3) for _ in range(3)]
            dv = pl.unit([rng.gauss(0, 1) for _ in range(3)])
            off = [size * 10 ** rng.uniform(-1, 0.7) * x for x in dv]
        if far_scene:
            sh = far_translation(rng, 100.0)
            if mode == "lattice":
                sh = [round(4 * x) / 4 for x in sh]
            o = [o[i] + sh[i] for i in range(3)]
        MB = near_identity_rot(rng)
        MA = near_identity_rot(rng) if rng.random() < 0.6 else (pl.lattice_rot(rng) if mode == "lattice" else pl.random_rot(rng))
        A = pl.gen_prim(rng, ka, mode, o, m=MA, size=size)
        B = pl.gen_prim(rng, kb, mode, [o[i] + off[i] for i in range(3)], m=MB, size=size)
        if pl.in_domain(A, B):
            break
    else:
        c = pl.gen_pair(rng, fn, "lattice")
        A, B = c["A"], c["B"]
    far = max(prim_far(A), prim_far(B))
    if far_scene:
        Rm = pl.random_rot(rng) if rng.random() < 0.6 else pl.lattice_rot(rng)
        rad = max(0.0, 985.0 - far)
        u = pl.unit([rng.gauss(0, 1) for _ in range(3)])
        r = rng.uniform(0, rad)
        t = [r * x for x in u]
    else:
        Rm = near_identity_rot(rng, ident=0.4, perm=0.2)
        t = far_translation(rng, far)
    s = gen_scale(rng, pl.feature_sizes(A) + pl.feature_sizes(B), far, 0.2, 100.0)
    return dict(part="prim", fn=fn, A=A, B=B, stream="nearid-far" if far_scene else "nearid", R=Rm, t=t, s=float(s))


def set_frame(spec, Q):
    """the collider with its own frame replaced by Q (pose kinds, disk normal, ellipse axes); vertex hulls, which have no
    frame, are turned by Q about their centre"""
    Q = np.array(Q, float)
    s = dict(spec)
    if "pose" in s:
        T = np.array(s["pose"], float)
        T[:3, :3] = Q
        s["pose"] = T.tolist()
    elif "normal" in s:
        s["normal"] = Q[:, 2].tolist()
    elif "axes" in s:
        s["axes"] = [Q[:, 0].tolist(), Q[:, 1].tolist()]
    elif s["kind"] == "hull":
        c = nw.center_of(s)
        s = nw.transform_spec(s, Q, c - Q @ c)
    return s


def nearid_pair(rng, tier):
    s1, s2, meta = nw.gen_pair(rng, tier, stream=rng.choice(["lattice", "lattice", "moderate"]), margin_prob=0.1)
    s1, s2 = set_frame(s1, near_identity_rot(rng)), set_frame(s2, near_identity_rot(rng))
    far_scene = rng.random() < 0.35
    if far_scene:
        sh = np.array(far_translation(rng, 100.0))
        if meta["stream"] == "lattice":
            sh = np.round(sh * 4) / 4
        s1, s2 = nw.translate_spec(s1, sh), nw.translate_spec(s2, sh)
    meta = dict(meta, stream="nearid-far" if far_scene else "nearid", L=nw.scene_scale([s1, s2]))
    meta.pop("identical", None)
    far = far_of([s1, s2])
    if far_scene:
        Rm, t = gen_motion(rng, far)
    else:
        Rm, t = np.array(near_identity_rot(rng, ident=0.4, perm=0.2)), np.array(far_translation(rng, far))
    return s1, s2, meta, Rm, t


def gen_nearid_scene(rng, tier, only_support=False):
    """collider scene of the near-identity stream (full query set, or the closed-form support layer only)"""
    s1, s2, meta, Rm, t = nearid_pair(rng, tier)
    s = gen_scale(rng, spec_sizes(s1) + spec_sizes(s2), far_of([s1, s2]), 1e-2, 1e2)
    sc = dict(part="narrow", c1=s1, c2=s2, meta=meta, R=np.array(Rm).tolist(), t=[float(x) for x in t], s=float(s))
    dirs = []
    for sp in (s1, s2):
        for a in own_axes(sp):
            dirs.append(a)
            if only_support:
                dirs.append([-x for x in a])
    if only_support:
        sc["only_support"] = True
        sc["dirs"] = dirs + COORD_AXES[:3] + [nw.rand_unit(rng).tolist()]
    else:
        sc["dirs"] = [nw.rand_unit(rng, rng.choice(["random", "lattice"])).tolist() for _ in range(2)] + \
            [rng.choice(own_axes(sp) or [[1.0, 0.0, 0.0]]) for sp in (s1, s2)]
    return sc


def scene_ops(scene):
    s1, s2 = scene["c1"], scene["c2"]
    if scene.get("only_support"):
        ops = [dict(fn="center", which=1, tag="cen1"), dict(fn="center", which=2, tag="cen2")]
        for k, d in enumerate(scene.get("dirs", [])):
            ops += [dict(fn="support", which=1, d=d, tag=f"sup1_{k}"), dict(fn="support", which=2, d=d, tag=f"sup2_{k}")]
        return ops
    ops = [dict(fn="gjk_jolt"), dict(fn="gjk_original"), dict(fn="nesterov_distance"),
           dict(fn="nesterov", kw=dict(use_nesterov_acceleration=True)),
           dict(fn="isect_jolt"), dict(fn="isect_libccd"), dict(fn="isect_mpr"), dict(fn="isect_nesterov"),
           dict(fn="mpr_pen"), dict(fn="epa"),
           dict(fn="center", which=1, tag="cen1"), dict(fn="center", which=2, tag="cen2")]
    if is_prim_pair(s1, s2):
        ops += [dict(fn="nesterov_prim_distance"), dict(fn="isect_nesterov_prim"),
                dict(fn="nesterov_prim", kw=dict(use_nesterov_acceleration=True))]
    for k, d in enumerate(scene.get("dirs", [])):
        ops += [dict(fn="support", which=1, d=d, tag=f"sup1_{k}"), dict(fn="support", which=2, d=d, tag=f"sup2_{k}")]
    return ops


def op_key(op):
    return op.get("tag", op["fn"])


SAME_OBJ_SWAP = ["gjk_jolt", "gjk_original", "nesterov_distance", "isect_jolt", "isect_libccd", "isect_mpr",
                 "isect_nesterov", "mpr_pen", "epa", "nesterov_prim_distance"]


AGAIN_OPS = ["gjk_jolt", "nesterov_distance", "mpr_pen", "isect_libccd"]


def variants_of(scene):
    """[(name, spec1, spec2, map)] ; map = dict(swap, R, t, s)"""
    s1, s2 = scene["c1"], scene["c2"]
    Rm, t, s = np.array(scene["R"]), np.array(scene["t"]), scene["s"]
    I, z = np.eye(3), np.zeros(3)
    return [
        ("orig", s1, s2, dict(swap=False, R=I, t=z, s=1.0)),
        ("swap", s2, s1, dict(swap=True, R=I, t=z, s=1.0)),
        ("move", nw.transform_spec(s1, Rm, t), nw.transform_spec(s2, Rm, t), dict(swap=False, R=Rm, t=t, s=1.0)),
        ("scale", nw.transform_spec(s1, I, z, s), nw.transform_spec(s2, I, z, s), dict(swap=False, R=I, t=z, s=s)),
        # the same motion applied to EXISTING colliders through update_pose (pose array overwritten in place)
        ("update", nw.transform_spec(s1, Rm, t), nw.transform_spec(s2, Rm, t), dict(swap=False, R=Rm, t=t, s=1.0)),
    ]


def worker_cases(scene):
    """the worker cases of a scene: one per variant; the orig case additionally repeats a subset
    of the queries with the arguments exchanged on the same two objects"""
    out = []
    dirs = scene.get("dirs", [])
    for name, a, b, mp in variants_of(scene):
        sc = dict(scene, dirs=[(mp["R"] @ np.array(d)).tolist() for d in dirs])
        ops = scene_ops(sc)
        if mp["swap"]:
            for o in ops:
                if o["fn"] in ("support", "center"):
                    o["which"] = 3 - o["which"]
        if name == "orig":
            # the same two objects again: arguments exchanged, then the first queries repeated in the original order
            # (a result cached on an object / keyed on the first argument survives into these calls)
            ops = ops + [dict(o, swap=True, tag="same:" + op_key(o)) for o in scene_ops(scene) if o["fn"] in SAME_OBJ_SWAP
                         and "tag" not in o]
            ops = ops + [dict(o, tag="again:" + op_key(o)) for o in scene_ops(scene) if o["fn"] in AGAIN_OPS and "tag" not in o]
        wc = dict(c1=a, c2=b, ops=ops, same_object=bool(scene["meta"].get("same_object")))
        if name == "update":
            wc.update(c1=scene["c1"], c2=scene["c2"], update=dict(R=scene["R"], t=scene["t"]), moved=[a, b])
        out.append(wc)
    return out


HANGS = []      # ops that hung a worker (compiled loop that never returns): reported in the evidence


def run_worker(cases, tag="impl", timeout=900):
    """run the worker cases in parallel processes.  A worker that dies (killed by its monitor
    because a compiled loop never returned, or crashed) is re-run one case per process, and a
    case that dies again one op per process; ops that die get exc = PROCESS-HANG / PROCESS-CRASH."""
    nwk = min(cm.NCPU, max(1, len(cases) // 6))
    chunks = [cases[i::nwk] for i in range(nwk)]
    res = cm.run_impl_parallel(PID, "c12", [dict(cases=c) for c in chunks], timeout=timeout, tag=tag)
    out = [None] * len(cases)
    for w, (rr, ch) in enumerate(zip(res, chunks)):
        idxs = list(range(w, len(cases), nwk))
        if rr["status"] == "ok":
            for i, x in zip(idxs, rr["result"]["results"]):
                out[i] = x
            continue
        singles = cm.run_impl_parallel(PID, "c12", [dict(cases=[c]) for c in ch], timeout=900, tag=tag + f"_iso{w}_")
        for i, sgl, c in zip(idxs, singles, ch):
            if sgl["status"] == "ok":
                out[i] = sgl["result"]["results"][0]
                continue
            per_op = cm.run_impl_parallel(PID, "c12", [dict(cases=[dict(c, ops=[o])]) for o in c["ops"]], timeout=400,
                                          tag=tag + f"_op{w}_")
            out[i] = []
            for o, po in zip(c["ops"], per_op):
                if po["status"] == "ok":
                    out[i].append(po["result"]["results"][0][0])
                else:
                    hung = po["status"] == "timeout" or po.get("rc") in (-9, 137)
                    out[i].append(dict(fn=o["fn"], exc="PROCESS-HANG" if hung else "PROCESS-CRASH",
                                       exc_msg=f"rc={po.get('rc')} {po.get('log', '')[-200:]}"))
                    if hung:
                        HANGS.append(dict(op=o, c1=c["c1"], c2=c["c2"], same_object=c.get("same_object", False)))
    return out


# ============================================================================= colliders: oracles
def inner_radius(spec, p):
    """conservative lower bound of the radius of a ball around p that lies inside the collider
    (negative / -inf: not established).  Harness' own closed forms."""
    k = spec["kind"]
    m = float(spec.get("margin", 0.0))
    p = np.array(p, float)
    r = -math.inf
    if k == "sphere":
        r = spec["radius"] - float(np.linalg.norm(p - np.array(spec["center"])))
    elif k in ("ellipsoid", "capsule", "cylinder", "cone", "box"):
        T = np.array(spec["pose"], float)
        q = T[:3, :3].T @ (p - T[:3, 3])
        if k == "ellipsoid":
            rr = np.array(spec["radii"], float)
            f = math.sqrt(float(np.sum((q / rr) ** 2)))
            r = (1.0 - f) * float(np.min(rr))
        elif k == "capsule":
            z = min(max(q[2], -0.5 * spec["height"]), 0.5 * spec["height"])
            r = spec["radius"] - math.sqrt(q[0] ** 2 + q[1] ** 2 + (q[2] - z) ** 2)
        elif k == "cylinder":
            r = min(spec["radius"] - math.hypot(q[0], q[1]), 0.5 * spec["length"] - abs(q[2]))
        elif k == "box":
            r = float(np.min(0.5 * np.array(spec["size"]) - np.abs(q)))
        else:   # cone: base disk at z = 0 (radius R), apex at z = h
            h, rad = spec["height"], spec["radius"]
            slant = ((h - q[2]) * rad / h - math.hypot(q[0], q[1])) * h / math.hypot(h, rad)
            r = min(q[2], slant)
    elif k in ("mesh", "hull"):
        try:
            from scipy.spatial import ConvexHull
            V = np.array(spec["vertices"], float)
            if k == "mesh":
                T = np.array(spec["pose"], float)
                V = V @ T[:3, :3].T + T[:3, 3]
            H = ConvexHull(V)
            r = float(np.min(-(H.equations[:, :3] @ p + H.equations[:, 3])))
        except Exception:  # noqa  (flat / degenerate vertex sets have no interior)
            r = -math.inf
    if m > 0 and r > -math.inf:
        r = r + m if r >= 0 else r   # inside the core: the margin adds to the inner radius
    return r * (1 - 1e-9) - 1e-12 if r > -math.inf else r


def overlap_witness(s1, s2, extra=()):
    """max over candidate points of min(inner radius in s1, inner radius in s2)"""
    c1, c2 = nw.center_of(s1), nw.center_of(s2)
    cands = [c1 + (c2 - c1) * (i / 20.0) for i in range(21)] + [np.array(x, float) for x in extra if x is not None]
    best = -math.inf
    for p in cands:
        best = max(best, min(inner_radius(s1, p), inner_radius(s2, p)))
    return best


def rho(d, tau):
    """radius in which the difference vector of a tau-feasible, tau-optimal answer of a convex
    pair at reported distance d lies around the true minimum-norm vector"""
    d = max(d, 0.0) + tau
    return 2 * tau + math.sqrt(8 * d * tau + 16 * tau * tau) * (1 + 1e-9)


def diameter_bound(spec):
    return 2.0 * nw.feature_size(spec) * math.sqrt(3.0)


def foreign_known(prop):
    """ids of the recorded (status = finding) known findings of another property"""
    ids = set()
    for f in [cm.VERIF / "known_findings.json", cm.VERIF / f"known_findings_{prop}.json"]:
        if f.exists():
            try:
                for e in json.loads(f.read_text())["entries"]:
                    if e.get("property") == prop and e.get("status") == "finding":
                        ids.add(e["id"])
            except (ValueError, KeyError):
                pass
    return ids


def inward_wound(simplex):
    """class of the C07 finding F21: the four simplex rows A,B,C,D handed to epa() have det(D-A, B-A, C-A) > 0
    (evaluated exactly)"""
    if simplex is None or len(simplex) != 4:
        return False
    try:
        Aq, Bq, Cq, Dq = ([Fr(float(x)) for x in row] for row in simplex)
    except (TypeError, ValueError, OverflowError):
        return False
    u = [Dq[i] - Aq[i] for i in range(3)]
    v = [Bq[i] - Aq[i] for i in range(3)]
    w = [Cq[i] - Aq[i] for i in range(3)]
    det = (u[0] * (v[1] * w[2] - v[2] * w[1]) - u[1] * (v[0] * w[2] - v[2] * w[0]) + u[2] * (v[0] * w[1] - v[1] * w[0]))
    return det > 0


class Tally(dict):
    def hit(self, k, n=1):
        self[k] = self.get(k, 0) + n


def vmap(mp, x):          # point
    return mp["R"] @ (mp["s"] * np.array(x, float)) + mp["t"]


def vlin(mp, x):          # vector that scales
    return mp["s"] * (mp["R"] @ np.array(x, float))


def vinv(mp, x):          # point of the transformed scene mapped back
    return (mp["R"].T @ (np.array(x, float) - mp["t"])) / mp["s"]


def judge_narrow(R, scene, res, T, member_queue):
    """compare the variants of one collider scene.  `res`: list (per variant) of lists of op
    results.  Membership fallbacks are queued in member_queue as
    (scene, text, spec, point, tau) and evaluated later in one coqc batch."""
    var = variants_of(scene)
    by = []
    for (name, a, b, mp), rr, wc in zip(var, res, worker_cases(scene)):
        by.append({op_key(o): r for o, r in zip(wc["ops"], rr)})
    L = [nw.scene_scale([a, b]) for (_, a, b, _) in var]
    s1, s2 = scene["c1"], scene["c2"]
    o0 = by[0]
    fails = []

    def fail(what, **kw):
        fails.append(dict(what=what, **kw))

    # ---- known-finding / ill-posed classes
    concentric = False
    cs = [o0.get("cen1", {}).get("p"), o0.get("cen2", {}).get("p")]
    if cs[0] is not None and cs[1] is not None:
        concentric = float(np.linalg.norm(np.array(cs[0]) - np.array(cs[1]))) <= 1e-9 * L[0]
    # scene classification for booleans
    d_ref = o0.get("gjk_jolt", {}).get("d")
    delta = K_BAND * max(L)
    clear = None
    if d_ref is not None and "exc" not in o0.get("gjk_jolt", {}):
        if MAX_FLOAT_ISH > d_ref > 3 * delta:
            clear = "gap"
        elif d_ref <= delta:
            w = overlap_witness(s1, s2, extra=[o0["gjk_jolt"].get("a"), o0.get("mpr_pen", {}).get("pos")])
            if w >= 3 * delta:
                clear = "overlap"
    T.hit("scene_" + (clear or "band_or_undecided"))

    variants = [(i, var[i][0], var[i][3]) for i in range(1, len(var))] + [(0, "same", dict(var[1][3])), (0, "again", dict(var[0][3]))]
    for vi, vname, mp in variants:
        ov_all = by[vi]
        pref = "same:" if vname == "same" else "again:" if vname == "again" else ""
        sw = mp["swap"]
        Lv = L[vi]
        for fn in list(o0):
            if fn.startswith("same:") or fn.startswith("again:") or fn == "mpr_fine":
                continue
            if pref + fn not in ov_all:
                continue
            a0, av = o0[fn], ov_all[pref + fn]
            base = a0["fn"]
            if "exc" in a0 or "exc" in av:
                T.hit(f"skip_raised:{base}")
                continue
            # ------------------------------------------------ distances
            if base in K_DIST:
                k = K_DIST[base]
                tau0, tauv = k * L[0], k * Lv
                tol = mp["s"] * tau0 + tauv
                d0, dv = a0["d"], av["d"]
                c0, cv = d0 > MAX_FLOAT_ISH, dv > MAX_FLOAT_ISH
                if c0 or cv:
                    T.hit("clipped")
                    if c0 != cv:
                        dd = dv / mp["s"] if c0 else d0 * mp["s"]
                        if dd < CLIP_DIST - tol:
                            fail(f"{base}: {vname}: one form is clipped (MAX_FLOAT) but the other reports d={dd!r} < sqrt(max_distance_squared)",
                                 variant=vname, fn=base)
                    continue
                if "contact" in a0:
                    # gjk_nesterov_accelerated[_primitives]: in contact the second value is a sentinel
                    # (-1 - inflation), not a distance; only the flag is specified
                    if a0["contact"] or av["contact"]:
                        if clear:
                            T.hit(f"cmp_bool:{base}")
                            if a0["contact"] != av["contact"]:
                                fail(f"{base}: {vname}: contact flag {av['contact']} vs {a0['contact']} in a clear {clear} scene",
                                     variant=vname, fn=base)
                        continue
                if base in ("gjk_jolt", "gjk_original") and C18_ILLCOND[0] and any(
                        x.get("a") is not None and x.get("d", 0.0) < MAX_FLOAT_ISH and
                        abs(float(np.linalg.norm(np.array(x["a"]) - np.array(x["b"]))) - x["d"]) > k * LL
                        for x, LL in ((a0, L[0]), (av, Lv))):
                    # one form's answer contradicts itself beyond the property's tolerance (d from a bogus, too short result of
                    # the simplex solver on a thin simplex, closest points right): recorded class C18-*-ILLCOND, judged by C01/C09/C18
                    T.hit("skip_gjk_self_inconsistent_C18_illcond")
                    continue
                if base.startswith("nesterov") and FN3[0]:
                    # known finding F-N3 (C09): on nearly flat simplices the Nesterov projection can return a point
                    # outside the simplex and the loop exits with a value BELOW the true distance.  Signature used
                    # here: in one form the Nesterov value is below that form's own Jolt distance (judged by C01)
                    # by more than the property's tolerance.  C09 is the judge of the class.
                    jd0 = o0.get("gjk_jolt", {}).get("d")
                    jdv = ov_all.get(pref + "gjk_jolt", {}).get("d")
                    if any(j is not None and j < MAX_FLOAT_ISH and x < j - kk for x, j, kk in ((d0, jd0, tau0), (dv, jdv, tauv))):
                        T.hit("skip_nesterov_below_jolt_F-N3")
                        continue
                T.hit(f"cmp_d:{base}")
                if abs(dv - mp["s"] * d0) > tol:
                    fail(f"{base}: {vname}: distance {dv!r} but {mp['s']!r} * {d0!r} = {mp['s'] * d0!r} expected (tolerance {tol:.3g})",
                         variant=vname, fn=base)
                    continue
                if a0.get("a") is None or av.get("a") is None:
                    continue
                pa0, pb0 = np.array(a0["a"]), np.array(a0["b"])
                pav, pbv = np.array(av["a"]), np.array(av["b"])
                if sw:
                    pav, pbv = pbv, pav          # now pav belongs to the first original collider
                ea = float(np.linalg.norm(vmap(mp, pa0) - pav))
                eb = float(np.linalg.norm(vmap(mp, pb0) - pbv))
                if max(ea, eb) <= tol:
                    T.hit(f"points_direct:{base}")
                    continue
                T.hit(f"points_fallback:{base}")
                w0 = vlin(mp, pa0 - pb0)
                wv = pav - pbv
                bound = mp["s"] * rho(d0, tau0) + rho(dv, tauv)
                if float(np.linalg.norm(w0 - wv)) > bound:
                    fail(f"{base}: {vname}: difference vector a-b = {wv.tolist()} but the transformed original is {w0.tolist()} "
                         f"(any two optimal answers of a convex pair differ by at most {bound:.3g})", variant=vname, fn=base)
                    continue
                # mapped-back points must be points of the original colliders
                for nm, spec, pt in (("first", s1, pav), ("second", s2, pbv)):
                    member_queue.append((scene, f"{base}: {vname}: closest point on the {nm} collider, mapped back, is not within "
                                                f"{k:g}*L of that collider", spec, vinv(mp, pt).tolist(), (tauv / mp["s"]) * 1.01 + 1e-9 * L[0],
                                         dict(variant=vname, fn=base)))
            # ------------------------------------------------ booleans
            elif base in BOOL_OPS:
                if clear is None:
                    T.hit("skip_bool_band")
                    continue
                T.hit(f"cmp_bool:{base}")
                if a0["ans"] != av["ans"]:
                    fail(f"{base}: {vname}: answer {av['ans']} but {a0['ans']} for the original scene (clear {clear})",
                         variant=vname, fn=base)
            # ------------------------------------------------ MPR penetration
            elif base == "mpr_pen":
                if clear is not None:
                    T.hit("cmp_bool:mpr_pen")
                    if a0["ans"] != av["ans"]:
                        fail(f"mpr_penetration: {vname}: intersection flag {av['ans']} vs {a0['ans']} (clear {clear})", variant=vname, fn=base)
                        continue
                if not (a0["ans"] and av["ans"]):
                    continue
                # C08 bounds the MPR depth from BELOW only (t >= true depth - tol; translating by t u separates the pair):
                # the portal MPR stops on depends on the frame and the argument order wherever support points tie (flat
                # faces, lattice placements: seen 0.616 / 0.670 for a true depth of 0.5), so equality of the depths is NOT a
                # consequence of C08 and is only reported as a statistic.  What C08 does imply for every form is judged:
                #   (i)  the contact position, mapped back, is a point of BOTH original colliders within 2e-3 L;
                #   (ii) the depth, scaled back, is not smaller than the EPA depth of the original scene (C07, 1e-6 L)
                #        minus 2e-3 L, when EPA succeeded on a complete simplex.
                tol = K_MPR * (mp["s"] * L[0] + Lv)
                if abs(av["depth"] - mp["s"] * a0["depth"]) <= tol:
                    T.hit("mpr_depth_equal")
                else:
                    T.hit("mpr_depth_differs_not_pinned_by_C08" + ("_concentric" if concentric else ""))
                if pref:
                    continue
                e0 = o0.get("epa", {})
                if e0.get("success") and (e0.get("n_points") or 0) >= 4 and "mtv" in e0 \
                        and not ("F21" in C07_KNOWN and inward_wound(e0.get("simplex"))):
                    ref = float(np.linalg.norm(np.array(e0["mtv"])))
                    T.hit("cmp_mpr_depth_lower_bound")
                    if av["depth"] / mp["s"] < ref - K_MPR * Lv / mp["s"] - K_EPA * L[0]:
                        fail(f"mpr_penetration: {vname}: depth {av['depth']!r} (scaled back {av['depth'] / mp['s']!r}) is smaller than the "
                             f"penetration depth {ref!r} of the original scene (EPA) minus 2e-3 L", variant=vname, fn=base)
                        continue
                if concentric:
                    T.hit("skip_mpr_pos_concentric")       # C08 candidate finding F20: position outside for coinciding centres
                elif av.get("pos") is not None and a0.get("pos") is not None:
                    pos = np.array(av["pos"], float)
                    if float(np.linalg.norm(vmap(mp, a0["pos"]) - pos)) <= tol:
                        T.hit("mpr_pos_direct")         # moved with the motion: equivariant, whatever C08 says about it
                        continue
                    T.hit("mpr_pos_fallback")
                    for nm, spec in (("first", s1), ("second", s2)):
                        member_queue.append((scene, f"mpr_penetration: {vname}: contact position, mapped back, is not within 2e-3*L of the "
                                                    f"{nm} collider", spec, vinv(mp, pos).tolist(), (K_MPR * Lv / mp["s"]) * 1.01 + 1e-9 * L[0],
                                             dict(variant=vname, fn=base)))
            # ------------------------------------------------ EPA
            elif base == "epa":
                if "mtv" not in a0 or "mtv" not in av:
                    if ("mtv" in a0) != ("mtv" in av) and clear:
                        fail(f"gjk before epa: {vname}: overlap reported in one form only (clear {clear})", variant=vname, fn=base)
                    continue
                if not (a0["success"] and av["success"]):
                    T.hit("skip_epa_no_success")
                    continue
                if (a0.get("n_points") or 0) < 4 or (av.get("n_points") or 0) < 4:
                    T.hit("skip_epa_F2_simplex_incomplete")
                    continue
                if "F21" in C07_KNOWN and (inward_wound(a0.get("simplex")) or inward_wound(av.get("simplex"))):
                    T.hit("skip_epa_F21_inward_winding")
                    continue
                tau0, tauv = K_EPA * L[0], K_EPA * Lv
                tol = mp["s"] * tau0 + tauv
                m0, mv = np.array(a0["mtv"]), np.array(av["mtv"])
                T.hit("cmp_epa_len")
                if abs(float(np.linalg.norm(mv)) - mp["s"] * float(np.linalg.norm(m0))) > tol:
                    fail(f"epa: {vname}: |mtv| = {float(np.linalg.norm(mv))!r} but {mp['s'] * float(np.linalg.norm(m0))!r} expected "
                         f"(tolerance {tol:.3g})", variant=vname, fn=base)
                    continue
                exp = vlin(mp, m0) * (-1.0 if sw else 1.0)
                if float(np.linalg.norm(exp - mv)) <= 10 * tol:
                    T.hit("epa_vec_direct")
                    continue
                T.hit("epa_vec_fallback")
                lm = float(np.linalg.norm(mv))
                if lm <= 10 * tauv:
                    continue
                # direction of the variant's mtv, as a direction of the ORIGINAL scene, "second minus first"
                n = (mp["R"].T @ mv) / lm * (-1.0 if sw else 1.0)
                ext = nw.support_value(s1, n) + nw.support_value(s2, -n)   # extent of A - B along n
                ext2 = nw.support_value(s1, -n) + nw.support_value(s2, n)
                D = diameter_bound(s1) + diameter_bound(s2)
                lim = lm / mp["s"] + tau0 + tauv / mp["s"] + D * math.sqrt(4 * (tauv / mp["s"]) / (lm / mp["s"]))
                if min(ext, ext2) > lim:
                    fail(f"epa: {vname}: mtv {mv.tolist()} mapped back has direction {n.tolist()}; the colliders overlap by "
                         f"{min(ext, ext2):.6g} along it, more than |mtv| = {lm / mp['s']:.6g} (+{lim - lm / mp['s']:.3g})",
                         variant=vname, fn=base)
            # ------------------------------------------------ centres (closed form)
            elif base == "center":
                T.hit("cmp_center")
                tol = 1e-9 * (mp["s"] * L[0] + Lv)
                if float(np.linalg.norm(vmap(mp, a0["p"]) - np.array(av["p"]))) > tol:
                    fail(f"center(): {vname}: {av['p']} but {vmap(mp, a0['p']).tolist()} expected", variant=vname, fn="center")
            # ------------------------------------------------ support functions (closed form)
            elif base == "support":
                which = 1 if fn.startswith("sup1") else 2
                d = np.array(scene["dirs"][int(fn.split("_")[1])], float)
                spec = s1 if which == 1 else s2
                p0, pv = np.array(a0["p"]), np.array(av["p"])
                h0 = float(vmap(mp, p0) @ (mp["R"] @ d))
                hv = float(pv @ (mp["R"] @ d))
                tol = 1e-9 * (mp["s"] * L[0] + Lv) * max(1.0, float(np.linalg.norm(d)))
                T.hit("cmp_support_value")
                if abs(h0 - hv) > tol:
                    fail(f"support_function({spec['kind']}): {vname}: support value {hv!r} along R d but {h0!r} expected", variant=vname,
                         fn="support")
    return fails


# ============================================================================= primitives (distance3d.distance)
SYM_FUNCS = [f for f in pl.FUNCS if pl.kinds_of(f)[0] == pl.kinds_of(f)[1]]
BISECTION = c11.BISECTION


def scale_prim(p, s):
    q = dict(p)
    k = p["kind"]
    sv = lambda v: [s * x for x in v]
    if k in ("point", "line", "plane"):
        q["p"] = sv(p["p"])
    elif k == "line_segment":
        q["s"], q["e"] = sv(p["s"]), sv(p["e"])
    elif k == "triangle":
        q["pts"] = [sv(v) for v in p["pts"]]
    elif k == "rectangle":
        q["c"] = sv(p["c"])
        q["lengths"] = sv(p["lengths"])
    elif k in ("circle", "disk"):
        q["c"] = sv(p["c"])
        q["r"] = s * p["r"]
    else:
        P = [list(r) for r in p["pose"]]
        for i in range(3):
            P[i][3] *= s
        q["pose"] = P
        for key in ("size", "radii"):
            if key in p:
                q[key] = sv(p[key])
        for key in ("r", "l"):
            if key in p:
                q[key] = s * p[key]
    return q


def prim_far(p):
    k = p["kind"]
    pts = [p["s"], p["e"]] if k == "line_segment" else p["pts"] if k == "triangle" else [pl.centre(p)]
    return max(math.sqrt(sum(x * x for x in v)) for v in pts)


def gen_prim_scene(rng, fn):
    c = pl.gen_pair(rng, fn)
    A, B = c["A"], c["B"]
    far = max(prim_far(A), prim_far(B))
    Rm = pl.random_rot(rng) if rng.random() < 0.6 else pl.lattice_rot(rng)
    rad = max(0.0, min(rng.choice([1.0, 10.0, 100.0, 1000.0]), 990.0 - far))
    u = pl.unit([rng.gauss(0, 1) for _ in range(3)])
    r = rng.uniform(0, rad)
    t = [r * x for x in u]
    if c["stream"] in ("lattice", "same", "touch") and rng.random() < 0.5:
        t = [round(4 * x) / 4 for x in t]
    s = gen_scale(rng, pl.feature_sizes(A) + pl.feature_sizes(B), far, 0.2, 100.0)
    return dict(part="prim", fn=fn, A=A, B=B, stream=c["stream"], R=Rm, t=t, s=float(s))


def prim_variants(scene):
    fn, A, B = scene["fn"], scene["A"], scene["B"]
    Rm, t, s = scene["R"], scene["t"], scene["s"]
    I3 = [[1.0, 0.0, 0.0], [0.0, 1.0, 0.0], [0.0, 0.0, 1.0]]
    base = dict(fn=fn, stream=scene["stream"])
    out = [("orig", dict(base, A=A, B=B), dict(swap=False, R=np.eye(3), t=np.zeros(3), s=1.0)),
           ("move", dict(base, A=pl.rigid(A, Rm, t), B=pl.rigid(B, Rm, t)), dict(swap=False, R=np.array(Rm), t=np.array(t), s=1.0)),
           ("scale", dict(base, A=scale_prim(A, s), B=scale_prim(B, s)), dict(swap=False, R=np.eye(3), t=np.zeros(3), s=s))]
    if fn in SYM_FUNCS:
        out.append(("swap", dict(base, A=B, B=A), dict(swap=True, R=np.eye(3), t=np.zeros(3), s=1.0)))
    return out


def prim_on(prim, x, tol):
    """exact: is the float point x within tol of the primitive?"""
    u = pl.dist2_upper(prim, pl.fv(x))
    return u is not None and u <= Fr(tol) ** 2


def _known_class(c, r):
    """Input class of a recorded C10 / C11 finding for this call (used only to SKIP metamorphic
    comparisons: an asymmetry inside such a class is a consequence of the recorded optimality /
    feasibility defect, which C10 / C11 judge with their own, tighter predicates).  C11's predicates
    additionally require that ITS model run reproduced the result (`_model_agrees`), a flag only the
    C11 check computes; here the class and the defect's signature in the result decide."""
    r2 = dict(r) if isinstance(r, dict) else r
    if isinstance(r2, dict):
        r2["_model_agrees"] = True
    k = c11.known_id(c, r2) or c10.known_id(c, r2)
    if k:
        return k
    fn = c["fn"]
    if fn == "line_segment_to_circle" and isinstance(r, dict) and r.get("on_line") is False:
        return "F10"      # clamp arm of the non-convex circle distance (C11 decides with the closer pair it finds)
    if fn == "disk_to_disk":
        cls = c11.disk_class(c)
        if cls == "general":
            return "F11"  # alternating projection with early stop: order dependent by construction
    return None


def judge_prim(scene, cases, results, T):
    fails = []
    fn = scene["fn"]
    names = [v[0] for v in prim_variants(scene)]
    maps = [v[2] for v in prim_variants(scene)]
    if any("exc" in r for r in results):
        T.hit("prim_skip_raised")
        return fails
    known = [_known_class(c, r) for c, r in zip(cases, results)]
    if any(known):
        for kk in known:
            if kk:
                T.hit(f"prim_skip_known_{kk}")
                break
        return fails
    in_band = fn in c11.EPS_FUNCS and any(c11.in_band(c) for c in cases)
    out = [c10.result_points(c, r) for c, r in zip(cases, results)]
    if not all(math.isfinite(x) for o in out for x in [o[0]] + list(o[1]) + list(o[2])):
        T.hit("prim_skip_nonfinite")
        return fails
    Ls = [pl.scale_L(c["A"], c["B"]) for c in cases]
    kd = 5e-3 if fn in BISECTION else 1e-6
    d0, p0, q0 = out[0]
    p0, q0 = np.array(p0), np.array(q0)
    convex = all(c["kind"] in pl.CONVEX for c in (scene["A"], scene["B"]))
    for i in range(1, len(cases)):
        mp, vname = maps[i], names[i]
        dv, pv, qv = out[i]
        pv, qv = np.array(pv), np.array(qv)
        tol = kd * (mp["s"] * Ls[0] + Ls[i])
        T.hit("prim_cmp_d" + ("_band" if in_band else ""))
        if abs(dv - mp["s"] * d0) > tol:
            if in_band:
                T.hit("prim_band_mismatch")       # C11 does not specify d inside the epsilon band
            else:
                fails.append(dict(what=f"{fn}: {vname}: distance {dv!r} but {mp['s'] * d0!r} expected (tolerance {tol:.3g})",
                                  variant=vname, fn=fn))
            continue
        if mp["swap"]:
            pv, qv = qv, pv
        tp = 1e-9 * (mp["s"] * Ls[0] + Ls[i]) + 1e-12 * 1e3
        e = max(float(np.linalg.norm(vmap(mp, p0) - pv)), float(np.linalg.norm(vmap(mp, q0) - qv)))
        if e <= tp:
            T.hit("prim_points_direct")
            continue
        T.hit("prim_points_fallback")
        # (1) mapped back, the points lie on the original primitives
        tb = 2e-9 * Ls[i] / mp["s"] + 1e-9 * Ls[0] + 1e-11
        for nm, prim, x in (("first", scene["A"], pv), ("second", scene["B"], qv)):
            if not prim_on(prim, vinv(mp, x).tolist(), tb):
                fails.append(dict(what=f"{fn}: {vname}: closest point on the {nm} primitive, mapped back to the original frame "
                                       f"({vinv(mp, x).tolist()}), is not on the original {prim['kind']} (tolerance {tb:.3g})",
                                  variant=vname, fn=fn))
                break
        else:
            # (2) difference vector of a convex pair
            if convex and not in_band:
                tc0, tcv = 1e-6 * Ls[0] + 2e-9 * Ls[0], 1e-6 * Ls[i] + 2e-9 * Ls[i]
                bound = mp["s"] * rho(d0, tc0) + rho(dv, tcv)
                w0, wv = vlin(mp, p0 - q0), pv - qv
                if float(np.linalg.norm(w0 - wv)) > bound:
                    fails.append(dict(what=f"{fn}: {vname}: difference of the closest points {wv.tolist()} but the transformed original "
                                           f"is {w0.tolist()} (bound {bound:.3g})", variant=vname, fn=fn))
    return fails


# ============================================================================= main
def run(tier, seed, replay=None):
    R = cm.Run(PID, "proof", tier, seed)
    C07_KNOWN.clear()
    C07_KNOWN.update(foreign_known("C07"))
    C09_KNOWN.clear()
    C09_KNOWN.update(foreign_known("C09"))
    # F-J2 (C01): gjk_distance_jolt's d below |a-b| when the simplex solver returns a bogus shorter vector (C18-*-ILLCOND)
    C18_ILLCOND[0] = "F-J2" in foreign_known("C01")
    FN3[0] = "F-N3" in foreign_known("C09")
    R.cov["rule"] = (
        "scene = ordered pair of colliders (10 kinds, optional Margin; streams of harness/narrow.gen_pair: random, lattice incl. "
        "identical objects, wide, constructed gap / penetration; plus overlapping polytopes and Nesterov primitives) or a call of one "
        "of the 34 distance3d.distance functions (streams of harness/primlib.gen_pair: random, far, lattice, touch, same, rotlat), "
        "together with one rigid motion (random rotation | one of the 24 axis permutations, optionally with a 45 degree turn; "
        "translation keeping the scene within 1e3 of the origin) and one scale factor in [1e-2,1e2] keeping all sizes in the "
        "domain; stream nearid: frames of both arguments within 1e-9 .. 1e-5 rad of the identity / of an axis permutation (or exactly "
        "so), scene near the origin moved by (identity | near-identity | axis permutation) + a translation up to 985, or scene "
        "up to 985 from the origin moved by an arbitrary rotation, for all 34 distance functions (80 per posed function in the quick tier) and "
        "collider scenes; distinct by canonical hash of (scene, motion, scale); non-trivial = at least one scalar comparison between two "
        "forms of the scene was actually made (not skipped as raised / known finding / band)")
    R.assumptions += [
        "theorems (Props/C12.v) are about the Gallina model in exact real arithmetic and about the Spec-level notions dist_ge / dist_le "
        "/ intersect; for the iterative solvers C12 is inherited from C01, C07-C09 through dist_invariant (corollary-of-validation)",
        "the metamorphic comparison is between runs of the implementation; tolerances are those of the specifying properties; "
        "universality over scenes and motions comes from generation",
        "boolean answers are compared only in clear scenes: reported distance > 3e-3 L, or a ball of radius 3e-3 L inside both colliders "
        "found by the harness' own closed-form inner-radius oracle",
        "MPR: C08 bounds the depth from below only, so equality of MPR depths across the forms is reported as a statistic; judged are "
        "the intersection flag (clear scenes), the contact position (mapped back: a point of both original colliders within 2e-3 L, "
        "in_shape_tol) and depth >= EPA depth of the original scene - 2e-3 L",
        "harness/narrow.py transform_spec / primlib.rigid build the transformed scene in floating point: the moved shape is the exact "
        "shape of the rounded pose (orthonormal to ~1e-16)",
    ]
    if (cm.COQ / "theories" / "Props" / "C12.v").exists():
        R.check_proofs([f for f in PROOF_FILES if (cm.COQ / f).exists()],
                       build_targets=["theories/Props/C12.vo", "theories/Checker/Shapes.vo"])
    else:
        R.proof_broken.append("Props/C12.v missing")

    # ------------------------------------------------------------------ scenes
    scenes = []
    if replay:
        scenes.append(json.loads(open(replay).read())["case"])
    else:
        corpus = cm.VERIF / "corpus" / PID
        if corpus.exists():
            for f in sorted(corpus.glob("*.json")):
                scenes.append(json.loads(f.read_text())["case"])
        n_nar = 170 if tier == "quick" else 2000
        per_fn = 16 if tier == "quick" else 220
        if cm.os.environ.get("C12_SCENES"):            # development aid only
            n_nar, per_fn = (int(x) for x in cm.os.environ["C12_SCENES"].split(","))
        for _ in range(n_nar):
            sc = gen_scene(R.rng, tier)
            sc["dirs"] = [nw.rand_unit(R.rng, R.rng.choice(["random", "lattice"])).tolist() for _ in range(2)] + \
                [R.rng.choice(own_axes(sp) or [[1.0, 0.0, 0.0]]) for sp in (sc["c1"], sc["c2"])]
            scenes.append(sc)
        for _ in range(n_nar):
            scenes.append(gen_support_scene(R.rng))
        for fn in pl.FUNCS:
            for _ in range(per_fn):
                scenes.append(gen_prim_scene(R.rng, fn))
        # near-identity frames x far translations (see near_identity_rot): every distance function, with more weight on the
        # ones that take a 4x4 pose (box, ellipsoid, cylinder: the code evaluates them in the local frame), and collider scenes
        n_posed, n_other, n_near_nar = (80, 4, 14) if tier == "quick" else (400, 40, 150)
        if cm.os.environ.get("C12_NEARID"):            # development aid only
            n_posed, n_other, n_near_nar = (int(x) for x in cm.os.environ["C12_NEARID"].split(","))
        for fn in pl.FUNCS:
            for _ in range(n_posed if fn in NEARID_FUNCS else n_other):
                scenes.append(gen_nearid_prim_scene(R.rng, fn))
        for k in range(2 * n_near_nar):
            scenes.append(gen_nearid_scene(R.rng, tier, only_support=bool(k % 2)))
    nar = [s for s in scenes if s.get("part") == "narrow"]
    prim = [s for s in scenes if s.get("part") == "prim"]
    T = Tally()

    # ------------------------------------------------------------------ colliders
    wcases, owner = [], []
    for i, sc in enumerate(nar):
        for wc in worker_cases(sc):
            wcases.append(wc)
            owner.append(i)
    timing = {}
    t_ph = cm.time.time()
    wres = run_worker(wcases) if wcases else []
    timing["collider_workers"] = round(cm.time.time() - t_ph, 1)
    t_ph = cm.time.time()
    member_queue = []
    all_fails = []
    distinct = set()
    k = 0
    hist = {}
    for i, sc in enumerate(nar):
        nv = len(variants_of(sc))
        res = wres[k:k + nv]
        k += nv
        before = sum(v for kk, v in T.items() if kk.startswith("cmp_"))
        fs = judge_narrow(R, sc, res, T, member_queue)
        if sum(v for kk, v in T.items() if kk.startswith("cmp_")) > before:
            distinct.add(cm.canon_hash(sc))
        hist[sc["meta"].get("stream", "corpus")] = hist.get(sc["meta"].get("stream", "corpus"), 0) + 1
        for f in fs:
            all_fails.append((sc, f))
    timing["collider_judging"] = round(cm.time.time() - t_ph, 1)
    t_ph = cm.time.time()
    # membership fallbacks: one coqc batch with the proven checker (quick tier: a seeded sample of at most 140, to keep
    # the wall time; the thorough tier evaluates all of them)
    if tier == "quick" and len(member_queue) > 140:
        T.hit("member_not_sampled_in_quick_tier", len(member_queue) - 140)
        member_queue = R.rng.sample(member_queue, 140)
    if member_queue:
        exprs = []
        for (sc, text, spec, pt, tau, info) in member_queue:
            exprs.append(f"in_shape_tol {nw.sh_expr(spec)} {nw.wit_expr(spec, pt)} {nw.vq(pt)} {nw._q(tau)}")
        try:
            try:
                verdicts = nw.coq_bools(PID, exprs, tag="member", per_file=max(10, len(exprs) // (2 * cm.NCPU) + 1))
            except RuntimeError as e0:
                if "inconsistent assumptions" not in str(e0):
                    raise
                # another agent rebuilt a dependency between our build and this evaluation: rebuild our targets, once more
                cm.coq_build(["theories/Props/C12.vo", "theories/Checker/Shapes.vo"])
                verdicts = nw.coq_bools(PID, exprs, tag="member", per_file=max(10, len(exprs) // (2 * cm.NCPU) + 1))
            for (sc, text, spec, pt, tau, info), ok in zip(member_queue, verdicts):
                T.hit("member_checked_by_coq")
                if not ok:
                    all_fails.append((sc, dict(what=text + f" (point {pt}, tolerance {tau:.3g}; Checker/Shapes.in_shape_tol = false)", **info)))
        except RuntimeError as e:
            R.corr_broken.append(f"membership checker evaluation failed: {str(e)[:300]}")

    timing["membership_coq"] = round(cm.time.time() - t_ph, 1)
    t_ph = cm.time.time()
    # ------------------------------------------------------------------ primitives
    pcases, pown = [], []
    for i, sc in enumerate(prim):
        for (name, c, mp) in prim_variants(sc):
            pcases.append(c)
            pown.append(i)
    pres, names = c10.run_impl_cases(PID, pcases, tag="prim") if pcases else ([], None)
    k = 0
    for i, sc in enumerate(prim):
        nv = len(prim_variants(sc))
        cs, rs = pcases[k:k + nv], pres[k:k + nv]
        k += nv
        before = T.get("prim_cmp_d", 0) + T.get("prim_cmp_d_band", 0)
        fs = judge_prim(sc, cs, rs, T)
        if T.get("prim_cmp_d", 0) + T.get("prim_cmp_d_band", 0) > before:
            distinct.add(cm.canon_hash(sc))
        hist["prim:" + sc.get("stream", "corpus")] = hist.get("prim:" + sc.get("stream", "corpus"), 0) + 1
        for f in fs:
            all_fails.append((sc, f))

    timing["primitives"] = round(cm.time.time() - t_ph, 1)
    R.cov["evaluations"] = len(wcases) + len(pcases)
    R.cov["scenes"] = dict(colliders=len(nar), primitives=len(prim))
    R.cov["distinct_nontrivial"] = len(distinct)
    R.cov["comparisons"] = dict(sorted(T.items()))
    R.cov["input_histogram"] = hist
    R.cov["programs"] = len(scenes)
    R.cov["disagreements_checked"] = len(all_fails)
    for sc in (nar[:2] + prim[:1]):
        R.sample({kk: vv for kk, vv in sc.items()})
    seen = 0
    for sc, f in all_fails:
        seen += 1
        if seen <= 8:
            R.failure(f["what"], sc, site=f.get("fn"))
    R.cov["failures_total"] = len(all_fails)
    R.cov["failure_list"] = [f["what"][:300] for _, f in all_fails[:60]]
    R.cov["timing_s"] = timing
    if HANGS:
        R.cov["hung_ops"] = HANGS[:5]
        R.notes.append(f"{len(HANGS)} op(s) never returned (compiled loop; worker killed by its monitor): not a C12 verdict, judged by "
                       "C19; the comparisons involving them are counted under skip_raised")
    return R.finish()
